#!/usr/bin/env python3
"""tools/keep_mutant.py <mutant_dir> <seeded-id> <log-file-of-try_mutant>  -> /verif/seeded/<id>/"""
import json, os, shutil, sys, re
src, sid, log = sys.argv[1], sys.argv[2], sys.argv[3]
dst = os.path.join("/verif/seeded", sid)
os.makedirs(dst, exist_ok=True)
for f in ("patch.diff", "demo.py"):
    shutil.copy(os.path.join(src, f), os.path.join(dst, f))
meta = json.load(open(os.path.join(src, "meta.json")))
lines = [l.rstrip() for l in open(log) if not l.startswith("WARNING conda")]
meta["confirmed"] = [l for l in lines if l.startswith(("tests-with", "demo-with"))]
caught, missed = [], []
for l in lines:
    m = re.match(r"check (C\d+): (.*)", l)
    if m:
        (caught if "VIOLATION" in m.group(2) else missed).append(m.group(1))
meta["checks_run"] = {"caught_by": caught, "not_flagged_by": missed}
meta["how_to_replay"] = "git -C /repo apply seeded/%s/patch.diff && ./check <id> --tier quick ; git -C /repo checkout -- ." % sid
json.dump(meta, open(os.path.join(dst, "meta.json"), "w"), indent=1)
print(sid, "caught by", caught, "not flagged by", missed)
