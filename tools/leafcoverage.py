#!/venv/bin/python
"""tools/leafcoverage.py — which statements of the library the regenerated leaf layer (harness/translate.py) reads.

For every function of the library: number of code lines (docstrings, blank lines and comments excluded) and how many of
them lie inside a source node some leaf was rendered from.  The table translators (containers, effects, state) read whole
modules and are not counted here.  Usage:  PYTHONPATH=/repo:/verif /venv/bin/python tools/leafcoverage.py [min_lines]
"""
import ast, os, sys, io, tokenize
sys.path.insert(0, os.path.join(os.path.dirname(__file__), ".."))
from harness import translate, core

translate.TOUCHED.clear()
for p, name, params, ret, producer in translate.LEAVES:
    try:
        producer()
    except Exception as e:  # noqa: BLE001
        print("PROBLEM", p, name, e)
cov = {}
for rel, a, b in translate.TOUCHED:
    cov.setdefault(rel, set()).update(range(a, b + 1))
minl = int(sys.argv[1]) if len(sys.argv) > 1 else 4
tot = totc = 0
rows = []
for root, _, fs in os.walk(os.path.join(core.REPO, "pabutools")):
    for f in sorted(fs):
        if not f.endswith(".py"):
            continue
        path = os.path.join(root, f)
        rel = os.path.relpath(path, core.REPO)
        if "visualisation" in rel or "preflib" in rel:
            continue
        srctxt = open(path).read()
        tree = ast.parse(srctxt)
        code = set()
        for tok in tokenize.generate_tokens(io.StringIO(srctxt).readline):
            if tok.type not in (tokenize.COMMENT, tokenize.NL, tokenize.NEWLINE, tokenize.INDENT, tokenize.DEDENT, tokenize.ENDMARKER):
                code.update(range(tok.start[0], tok.end[0] + 1))
        doc = set()
        for n in ast.walk(tree):
            if isinstance(n, (ast.FunctionDef, ast.ClassDef, ast.Module)) and n.body and isinstance(n.body[0], ast.Expr) \
                    and isinstance(n.body[0].value, ast.Constant) and isinstance(n.body[0].value.value, str):
                doc.update(range(n.body[0].lineno, n.body[0].end_lineno + 1))
        code -= doc
        for n in ast.walk(tree):
            if isinstance(n, ast.FunctionDef):
                lines = {l for l in range(n.body[0].lineno, n.end_lineno + 1) if l in code}
                c = lines & cov.get(rel, set())
                tot += len(lines); totc += len(c)
                if len(lines) >= minl:
                    rows.append((rel, n.name, len(lines), len(c)))
for rel, name, l, c in sorted(rows, key=lambda r: (r[0], -r[2])):
    print(f"{rel:60s} {name:50s} {l:4d} {c:4d}")
print("total code lines in functions", tot, "covered by leaves", totc)
