#!/usr/bin/env python3
"""rewrite the seeded-changes table of DESIGN.md §10.6 from seeded/*/meta.json"""
import glob, json, os, re
HERE = os.path.dirname(os.path.dirname(os.path.abspath(__file__)))
rows = ["| id | property | change (one line) | needs | caught by | not flagged by |", "|---|---|---|---|---|---|"]
for d in sorted(glob.glob(os.path.join(HERE, "seeded", "*"))):
    m = json.load(open(os.path.join(d, "meta.json")))
    cr = m.get("checks_run", {})
    what = re.sub(r"\s+", " ", str(m.get("what", ""))).replace("|", "/")[:170]
    needs = re.sub(r"\s+", " ", str(m.get("needs", ""))).replace("|", "/")[:150]
    rows.append(f"| {os.path.basename(d)} | {m.get('property')} | {what} | {needs} | {', '.join(cr.get('caught_by', [])) or '—'} | {', '.join(cr.get('not_flagged_by', [])) or '—'} |")
table = "<!-- seeded:begin -->\n" + "\n".join(rows) + "\n<!-- seeded:end -->"
p = os.path.join(HERE, "DESIGN.md")
s = open(p).read()
if "SEEDED_TABLE" in s:
    s = s.replace("SEEDED_TABLE", table)
else:
    s = re.sub(r"<!-- seeded:begin -->.*?<!-- seeded:end -->", lambda _: table, s, flags=re.S)
open(p, "w").write(s)
print(len(rows) - 2, "seeded changes")
