#!/bin/bash
# tools/intake_round.sh <round-dir e.g. /tmp/s7> <round tag e.g. r7> <property> <A|B> [extra check ids...]
# Takes what a seeding sub-agent left in <round-dir>/<property>_out/<A|B> (patch.diff, demo.py, notes.json), confirms it in a scratch
# worktree (tools/try_seeded.sh: tests pass with the change, demo fails with it and passes without) and runs the target check
# against it; the result goes to <round-dir>/intake/<property>-<tag><A|B>/ (meta.json, try.log).  Nothing is written under /verif.
R=$1; TAG=$2; P=$3; X=$4; shift 4
SRC=$R/${P}_out/$X
D=$R/intake/$P-$TAG$X
mkdir -p $D
cp $SRC/patch.diff $SRC/demo.py $D/ 2>/dev/null || { echo "$P-$TAG$X: deliverables missing"; exit 2; }
/venv/bin/python - "$SRC/notes.json" "$P" > $D/meta.json <<'PY'
import json, sys
try:
    n = json.load(open(sys.argv[1]))
except Exception as e:  # noqa: BLE001
    n = {"what": "notes.json unreadable: %r" % (e,), "needs": "", "files": []}
print(json.dumps({"property": sys.argv[2], "what": n.get("what", ""), "needs": n.get("needs", ""), "files": n.get("files", [])}, indent=1))
PY
cd /verif && TRY_TIMEOUT=${TRY_TIMEOUT:-1200} tools/try_seeded.sh $D $P "$@" > $D/try.log 2>&1
grep -v "^WARNING conda" $D/try.log | sed "s/^/$P-$TAG$X: /"
