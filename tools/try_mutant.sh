#!/bin/bash
# tools/try_mutant.sh <mutant_dir containing patch.diff demo.py> <check ids...>
# 1. confirms in a scratch worktree: tests pass with the change, demo fails with it and passes without it
# 2. applies the change to /repo, runs the given checks, undoes it.  Prints one line per step.
set -u
D=$(readlink -f "$1"); shift
WT=/tmp/scratch_mutwt
git -C /repo worktree remove --force $WT >/dev/null 2>&1
git -C /repo worktree add -q --detach $WT HEAD >/dev/null 2>&1 || { echo "cannot create worktree"; exit 2; }
if ! git -C $WT apply "$D/patch.diff" 2>/dev/null; then echo "PATCH-DOES-NOT-APPLY"; git -C /repo worktree remove --force $WT; exit 3; fi
( cd $WT && /venv/bin/python -m pytest -q -p no:cacheprovider --timeout=900 tests -k "not test_files and not test_url_parse" 2>&1 | tail -1 | sed 's/^/tests-with-change: /' )
( cd $D && PYTHONPATH=$WT /venv/bin/python demo.py >/tmp/demo_with.out 2>&1; echo "demo-with-change: exit $? $(tail -1 /tmp/demo_with.out | cut -c1-100)" )
git -C $WT checkout -q -- .
( cd $D && PYTHONPATH=$WT /venv/bin/python demo.py >/tmp/demo_without.out 2>&1; echo "demo-without-change: exit $? $(tail -1 /tmp/demo_without.out | cut -c1-100)" )
git -C /repo worktree remove --force $WT
# now against the checks
if [ -n "$(git -C /repo status --porcelain)" ]; then echo "/repo not clean"; exit 2; fi
git -C /repo apply "$D/patch.diff" || exit 3
cd /verif
for c in "$@"; do
  out=$(VERIF_SEED=${VERIF_SEED:-3} ./check $c --tier quick 2>&1 | grep -v "depends on axioms" | grep -E "^(VIOLATION|C[0-9]+ tier|INFRA)" | head -3 | cut -c1-170 | tr '\n' ';')
  echo "check $c: $out"
done
git -C /repo checkout -q -- .
( cd /verif && PYTHONPATH=/repo:/verif /venv/bin/python -m harness.translate >/dev/null 2>&1; git checkout -q evidence lean/Gen 2>/dev/null )
rm -rf /verif/replays
git -C /repo status --porcelain | head -3
