#!/venv/bin/python
"""record the syntax-tree hashes of /repo's modules (harness/fingerprint.py); run `/venv/bin/python tools/mkfingerprints.py` from /verif after every commit to /repo (same interpreter as ./check)"""
import json, os, sys
HERE = os.path.dirname(os.path.dirname(os.path.abspath(__file__)))
sys.path.insert(0, HERE)
from harness import fingerprint
repo = sys.argv[1] if len(sys.argv) > 1 else "/repo"
fp = fingerprint.scan(repo)
json.dump(fp, open(fingerprint.PATH, "w"), indent=1, sort_keys=True)
print(len(fp), "modules")
