#!/bin/bash
# tools/try_seeded.sh <mutant_dir containing patch.diff demo.py> <check ids...>
# Like try_mutant.sh but never touches /repo: the change is applied to a scratch worktree and the checks are run against it
# (PABU_REPO), from the copy of /verif named by $VERIF_COPY (default: a fresh copy under /tmp, removed afterwards), so several
# of these can run side by side.  Prints one line per step.
set -u
D=$(readlink -f "$1"); shift
WT=$(mktemp -d /tmp/scratch_mutwt_XXXXXX); rmdir $WT
git -C /repo worktree add -q --detach $WT HEAD >/dev/null 2>&1 || { echo "cannot create worktree"; exit 2; }
cleanup() { git -C /repo worktree remove --force $WT >/dev/null 2>&1; [ -n "${OWN_COPY:-}" ] && rm -rf "$OWN_COPY"; }
trap cleanup EXIT
if ! git -C $WT apply "$D/patch.diff" 2>/dev/null; then echo "PATCH-DOES-NOT-APPLY"; exit 3; fi
( cd $WT && /venv/bin/python -m pytest -q -p no:cacheprovider --timeout=900 tests -k "not test_files and not test_url_parse" 2>&1 | tail -1 | sed 's/^/tests-with-change: /' )
( cd $D && PYTHONPATH=$WT /venv/bin/python demo.py >$WT.with.out 2>&1; echo "demo-with-change: exit $? $(tail -1 $WT.with.out | cut -c1-100)" )
git -C $WT checkout -q -- .
( cd $D && PYTHONPATH=$WT /venv/bin/python demo.py >$WT.without.out 2>&1; echo "demo-without-change: exit $? $(tail -1 $WT.without.out | cut -c1-100)" )
rm -f $WT.with.out $WT.without.out
git -C $WT apply "$D/patch.diff" || exit 3
V=${VERIF_COPY:-}
if [ -z "$V" ]; then OWN_COPY=$(mktemp -d /tmp/vcopy_XXXXXX); cp -a /verif/. $OWN_COPY/; V=$OWN_COPY; fi
cd $V || exit 2
rm -rf replays
for c in "$@"; do
  out=$(PABU_REPO=$WT VERIF_SEED=${VERIF_SEED:-3} timeout -k 5 ${TRY_TIMEOUT:-900} ./check $c --tier quick 2>&1 | grep -v "depends on axioms" | grep -E "^(VIOLATION|C[0-9]+ tier|INFRA)" | head -3 | cut -c1-170 | tr '\n' ';')
  [ -z "$out" ] && out="NO-VERDICT (timeout after ${TRY_TIMEOUT:-900}s or crash)"
  echo "check $c: $out"
done
