#!/usr/bin/env python3
"""regenerate MANIFEST.json from the table below (run from /verif)"""
import json, os

HERE = os.path.dirname(os.path.dirname(os.path.abspath(__file__)))
props = [json.loads(l) for l in open(os.path.join(HERE, "properties.jsonl"))]
obl = json.load(open(os.path.join(HERE, "lean", "obligations.json")))

# property id -> (level text, level note, technique)
CLAIMS = json.load(open(os.path.join(HERE, "tools", "claims.json")))

m = {
    "version": 1,
    "setup_cmd": "cd lean && lake build PabuModel Driver PabuProofs pabu_driver",
    "hooks": {
        "guard": "PABUTOOLS_VERIF",
        "enable": "no hooks are needed: every observation point is a return value or a public attribute of the library",
        "baseline_off_cmd": "cd /repo && /venv/bin/python -m pytest -ra -q -p no:cacheprovider --timeout=900 --continue-on-collection-errors",
        "source_commits": [],
        "add_only": True,
    },
    "engines": [
        {
            "name": "lean-model+correspondence",
            "path": "check",
            "serves_properties": sorted(CLAIMS),
            "kind_free_text": "Lean 4 theorems about a hand-written executable model (lean/), tied to /repo on every run by a differential "
            "correspondence harness (harness/) that runs the real library in-process and the compiled model on the same inputs, and "
            "that evaluates the property predicate on the library's own outputs (failing-input search)",
        }
    ],
    "checks": [],
    "not_applicable": [],
    "notes": "Exit codes of ./check: 0 held, 1 violation (VIOLATION line), 2 infrastructure failure. known_findings.json lists unrepaired genuine defects.",
}
for p in props:
    pid = p["id"]
    if pid in CLAIMS:
        c = CLAIMS[pid]
        n = len(obl.get(pid, {}).get("theorems", []))
        m["checks"].append(
            {
                "property_id": pid,
                "quick_cmd": f"./check {pid} --tier quick",
                "thorough_cmd": f"./check {pid} --tier thorough",
                "evidence_file": f"evidence/{pid}.json",
                "replay_cmd_template": f"./check {pid} --replay {{path}}",
                "engine": "lean-model+correspondence",
                "level_claimed": {"category": c.get("category", "proof"), "text": c["text"], "design_ref": f"DESIGN.md §5 {pid}"},
                "level_note": c["note"] + f" ({n} Lean theorems registered in lean/obligations.json)",
                "technique": c.get("technique", "Lean 4 proof over a hand-written model + differential correspondence with the real library"),
            }
        )
    else:
        m["not_applicable"].append({"property_id": pid, "reason": "check under construction in this round; not claimed until its runner and theorems are committed"})
json.dump(m, open(os.path.join(HERE, "MANIFEST.json"), "w"), indent=1)
print("claimed:", sorted(CLAIMS))
