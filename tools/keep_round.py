#!/usr/bin/env python3
"""tools/keep_round.py <round-dir e.g. /tmp/s7> <tag e.g. r7>  ->  /verif/seeded/<property>-<tag><A|B>/ for every confirmed change

Reads <round-dir>/intake/<id>/ (patch.diff, demo.py, meta.json, try.log = the first trial, try2.log = the trial against the checks
as they are now; both written by tools/intake_round.sh / tools/try_seeded.sh).  A change is kept only if it was confirmed: the
repository's tests pass with it, its demonstration fails with it and passes without it."""
import json, os, re, shutil, sys

R, TAG = sys.argv[1], sys.argv[2]
NOTES = json.load(open(sys.argv[3])) if len(sys.argv) > 3 else {}


def parse(path):
    out = {"tests": None, "with": None, "without": None, "checks": {}}
    if not os.path.exists(path):
        return out
    for l in open(path):
        l = l.rstrip()
        if l.startswith("tests-with-change:"):
            out["tests"] = l
        elif l.startswith("demo-with-change:"):
            out["with"] = l
        elif l.startswith("demo-without-change:"):
            out["without"] = l
        m = re.match(r"check (C\d+): (.*)", l)
        if m:
            out["checks"][m.group(1)] = m.group(2)
    return out


def verdict(s):
    if s is None:
        return "not run"
    if "VIOLATION" in s and "no-failing-input-found" not in s.split(";")[0]:
        return "caught with a concrete failing input"
    if "VIOLATION" in s:
        return "flagged as no-failing-input-found only (an obligation or the correspondence broke, the search found no input)"
    if "NO-VERDICT" in s:
        return "no verdict (the check crashed or timed out)"
    return "missed"


kept = []
for d in sorted(os.listdir(os.path.join(R, "intake"))):
    src = os.path.join(R, "intake", d)
    meta = json.load(open(os.path.join(src, "meta.json")))
    first, now = parse(os.path.join(src, "try.log")), parse(os.path.join(src, "try2.log"))
    conf = now if now["tests"] else first
    ok = conf["tests"] and " passed" in conf["tests"] and " failed" not in conf["tests"] and conf["with"] and "exit 1" in conf["with"] \
        and conf["without"] and "exit 0" in conf["without"]
    if not ok:
        print(d, "NOT CONFIRMED:", conf)
        continue
    P = meta["property"]
    dst = os.path.join("/verif/seeded", d)
    os.makedirs(dst, exist_ok=True)
    for f in ("patch.diff", "demo.py"):
        shutil.copy(os.path.join(src, f), os.path.join(dst, f))
    meta["ran"] = [
        {"cmd": "git worktree add --detach <scratch> HEAD && git -C <scratch> apply patch.diff", "result": "applied cleanly"},
        {"cmd": "cd <scratch> && /venv/bin/python -m pytest -q -p no:cacheprovider --timeout=900 tests -k 'not test_files and not test_url_parse'", "result": conf["tests"]},
        {"cmd": "PYTHONPATH=<scratch> /venv/bin/python demo.py   (change applied)", "result": conf["with"]},
        {"cmd": "git -C <scratch> checkout -- . && PYTHONPATH=<scratch> /venv/bin/python demo.py   (unchanged library)", "result": conf["without"]},
    ]
    meta["confirmed"] = [conf["tests"], conf["with"], conf["without"]]
    caught = [c for c, s in now["checks"].items() if "VIOLATION" in s and "no-failing-input-found" not in s.split(";")[0]]
    weak = [c for c, s in now["checks"].items() if c not in caught and "VIOLATION" in s]
    missed = [c for c, s in now["checks"].items() if "VIOLATION" not in s]
    extra = NOTES.get(d, {})
    for c in extra.get("also_caught_by", []):
        if c not in caught:
            caught.append(c)
    meta["checks_run"] = {"caught_by": caught, "no_failing_input_only": weak, "not_flagged_by": missed,
                          "first_try": verdict(first["checks"].get(P)), "note": extra.get("note", "")}
    meta["how_to_replay"] = f"tools/try_seeded.sh seeded/{d} {P}   (applies the change to a scratch worktree, never to /repo)"
    json.dump(meta, open(os.path.join(dst, "meta.json"), "w"), indent=1)
    kept.append((d, verdict(first["checks"].get(P)), caught, weak, missed))
for k in kept:
    print(*k)
print(len(kept), "kept")
