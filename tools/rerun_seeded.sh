#!/bin/bash
# tools/rerun_seeded.sh [repo-dir]  — apply every seeded change in turn to a scratch copy of the repository and run the target
# property's quick check against it; prints one line per change.  Never touches /repo itself.
# usage in the sandbox:  vp run --with-repo -- bash -c 'cd lean && lake build >/dev/null 2>&1; cd ..; tools/rerun_seeded.sh $VP_RUN_REPO'
cd "$(dirname "$0")/.." || exit 2
R=${1:-}
if [ -z "$R" ]; then
  R=/tmp/rerun_seeded_repo; git -C /repo worktree remove --force $R >/dev/null 2>&1; git -C /repo worktree add -q --detach $R HEAD || exit 2
fi
export PABU_REPO=$R
miss=0
# SHARD=i/n: only every n-th change, starting with the i-th (several shards can run side by side, each in its own snapshot)
si=${SHARD%%/*}; sn=${SHARD##*/}; k=0
for d in seeded/*/; do
  id=$(basename $d)
  k=$((k+1)); if [ -n "${SHARD:-}" ] && [ $((k % sn)) -ne $((si % sn)) ]; then continue; fi
  p=${id%%-*}
  git -C $R checkout -q -- . 2>/dev/null
  if ! git -C $R apply "$(pwd)/$d/patch.diff" 2>/dev/null; then echo "$id PATCH-DOES-NOT-APPLY"; continue; fi
  out=$(VERIF_SEED=${VERIF_SEED:-5} ./check $p --tier quick 2>&1 | grep -E "^(VIOLATION|C[0-9]+ tier|INFRA)" | head -2 | cut -c1-120 | tr '\n' ' ')
  if echo "$out" | grep -q VIOLATION; then echo "$id caught"; else echo "$id MISSED: $out"; miss=$((miss+1)); fi
done
git -C $R checkout -q -- . 2>/dev/null
( PABU_REPO=/repo PYTHONPATH=/repo:$(pwd) /venv/bin/python -m harness.translate >/dev/null 2>&1 )
echo "missed: $miss"
