"""
worker — run rule configurations on the real library in a fresh interpreter (so that PYTHONHASHSEED
can differ between runs).  stdin: one JSON object per line {"case":…, "cfg":…}; stdout: one canonical
answer per line.
"""
from __future__ import annotations

import json
import os
import subprocess
import sys


def main():
    from . import core, mipcheck, rulegen, rules, ruleprops

    mipcheck.install()
    while True:
        line = sys.stdin.readline()
        if not line:
            break
        line = line.strip()
        if not line:
            continue
        d = json.loads(line)
        case = core.Case.from_json(d["case"])
        cfg = ruleprops.cfg_from_json(d["cfg"])
        try:
            built = rules.Built(case, multi=cfg.get("multi", False), order=cfg.get("order"))
            rulegen.fix_loads(cfg, built)
            ans, raw = rules.impl_answer(built, cfg)
            out = rules.canon(ans)
            faults = mipcheck.take_faults()
            if faults:
                out = "solver-fault " + faults[0]
            elif cfg.get("want_welfare"):
                out += " W=" + welfare_of(case, cfg, built, raw)
        except Exception as e:  # noqa: BLE001
            out = "harness-error " + repr(e)[:200]
        sys.stdout.write(out + "\n")
        sys.stdout.flush()


def welfare_of(case, cfg, built, raw):
    from . import core

    try:
        sp = built.prof.as_sat_profile(core.sat_class(cfg["sat"]))
        return core.q2s(core.toF(sp.total_satisfaction(raw)))
    except Exception as e:  # noqa: BLE001
        return "err:" + type(e).__name__


def run_batch(pairs_json, hashseed, timeout=900):
    """pairs_json: list of {"case":…, "cfg":…}; returns list of answer strings"""
    from . import core

    env = dict(os.environ)
    env["PYTHONHASHSEED"] = str(hashseed)
    env["PYTHONPATH"] = core.REPO + ":" + core.VERIF + (":" + env["PYTHONPATH"] if env.get("PYTHONPATH") else "")
    env["PABU_REPO"] = core.REPO
    data = "\n".join(json.dumps(p) for p in pairs_json) + "\n"
    p = subprocess.run([sys.executable, "-m", "harness.worker"], input=data.encode(), stdout=subprocess.PIPE,
                       stderr=subprocess.PIPE, env=env, cwd=core.VERIF, timeout=timeout)
    if p.returncode != 0:
        raise core.DriverError("worker failed: " + p.stderr.decode()[-400:])
    out = p.stdout.decode().split("\n")
    if out and out[-1] == "":
        out.pop()
    if len(out) != len(pairs_json):
        raise core.DriverError(f"worker answered {len(out)} lines for {len(pairs_json)} cases")
    return out


if __name__ == "__main__":
    main()
