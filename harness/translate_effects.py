"""
translate_effects — regenerate lean/Gen/Effects.lean: a per-entry-point summary of writes that may reach a caller's
argument (C20).  Pure `ast` analysis of the sources; nothing is imported or executed.

Analysed functions: every module-level function of pabutools/rules/**.py, pabutools/analysis/*.py and the three
satisfaction-measure modules.  Entry points (the rows of the summary): the functions named in `__all__` of
`pabutools.rules` and `pabutools.analysis`, every other public module-level function of pabutools/analysis/*.py,
and the public measure functions (`*_sat_func`).

For each function a small abstract interpretation tracks, per local name, the set of PARAMETERS it may alias:
  * a parameter aliases itself;  `x = <name>` copies the alias set;  `x = a.b` / `x = a[i]` alias what `a` aliases
    (an element or attribute of an argument is part of the argument);  `x = c if t else d`, `x = a or b` take the union;
    a loop variable aliases what the iterable aliases;  tuple assignments are element-wise when shapes match
  * `x = <call>(...)`, literals, comprehensions, arithmetic are FRESH (no alias) - in particular the defensive
    copies `dict(p)`, `list(p)`, `copy(p)`, `deepcopy(p)`, `BudgetAllocation(p)`, `p.copy()`
  * branches are analysed separately and merged by union; loop bodies are analysed twice
A *write site* is reported when the base name of the target aliases a parameter:
  subscript / attribute stores and deletes (`x[k] = v`, `x.a = v`, `del x[k]`), augmented assignments (`x += v`,
  `x[k] += v`, `x.a += v`), calls of mutating methods on it (`x.append(...)`, `extend, insert, pop, remove, sort,
  reverse, clear, update, add, discard, setdefault, popitem, subtract, complete, *_update, __setitem__, __delitem__`),
  and passing it to an analysed function whose own summary writes the corresponding parameter (transitive,
  iterated to a fixpoint).
What it cannot see (stated in the evidence): writes through a shallow copy's *elements*; effects of calls through
function-valued parameters (`rule(...)`) and of methods of library classes other than the names above; aliasing
created by storing an argument inside another object; `**kwargs` expansion (treated as fresh); attribute writes on
`self`.  Those are exactly what the snapshot harness (harness/props/C20.py) checks dynamically.
"""
from __future__ import annotations

import ast
import glob
import os

MUTATING = {
    "append", "extend", "insert", "pop", "remove", "sort", "reverse", "clear", "update", "add", "discard", "setdefault", "popitem",
    "subtract", "complete", "difference_update", "intersection_update", "symmetric_difference_update", "__setitem__", "__delitem__",
    "__iadd__", "__ior__", "__isub__", "__iand__", "__ixor__", "__imul__",
}  # fmt: skip

SAT_FILES = [
    "pabutools/election/satisfaction/additivesatisfaction.py",
    "pabutools/election/satisfaction/functionalsatisfaction.py",
    "pabutools/election/satisfaction/positionalsatisfaction.py",
]


def source_files(repo):
    fs = sorted(glob.glob(os.path.join(repo, "pabutools/rules/**/*.py"), recursive=True))
    fs += sorted(glob.glob(os.path.join(repo, "pabutools/analysis/*.py")))
    fs += [os.path.join(repo, f) for f in SAT_FILES]
    return [f for f in fs if os.path.exists(f)]


def module_name(repo, path):
    rel = os.path.relpath(path, repo)[:-3].replace(os.sep, ".")
    return rel[: -len(".__init__")] if rel.endswith(".__init__") else rel


def read_all(repo, pkg):
    path = os.path.join(repo, pkg.replace(".", os.sep), "__init__.py")
    tree = ast.parse(open(path).read())
    for node in tree.body:
        if isinstance(node, ast.Assign) and any(isinstance(t, ast.Name) and t.id == "__all__" for t in node.targets):
            return [e.value for e in node.value.elts if isinstance(e, ast.Constant)]
    return []


def params_of(fn):
    a = fn.args
    ps = [x.arg for x in a.posonlyargs + a.args]
    if a.vararg:
        ps.append(a.vararg.arg)
    ps += [x.arg for x in a.kwonlyargs]
    if a.kwarg:
        ps.append(a.kwarg.arg)
    return ps


def base_name(node):
    """the local name at the root of `x.a[b].c` (None for anything else)"""
    while isinstance(node, (ast.Attribute, ast.Subscript)):
        node = node.value
    if isinstance(node, ast.Name):
        return node.id
    return None


class Analyzer:
    def __init__(self, fn, funcs, callee_writes):
        self.fn = fn
        self.funcs = funcs
        self.callee_writes = callee_writes  # name -> set of params written
        self.sites = []  # (param, kind, line, via)

    # -- alias sets of expressions
    def aliases(self, node, env):
        if node is None:
            return set()
        if isinstance(node, ast.Name):
            return set(env.get(node.id, ()))
        if isinstance(node, (ast.Attribute, ast.Subscript)):
            return self.aliases(node.value, env)
        if isinstance(node, ast.Starred):
            return self.aliases(node.value, env)
        if isinstance(node, ast.IfExp):
            return self.aliases(node.body, env) | self.aliases(node.orelse, env)
        if isinstance(node, ast.BoolOp):
            s = set()
            for v in node.values:
                s |= self.aliases(v, env)
            return s
        if isinstance(node, ast.NamedExpr):
            return self.aliases(node.value, env)
        if isinstance(node, (ast.Tuple, ast.List)) and False:
            return set()
        return set()  # calls, literals, comprehensions, arithmetic: fresh

    def site(self, names, kind, node, via=""):
        for p in sorted(names):
            self.sites.append((p, kind, getattr(node, "lineno", 0), via))

    # -- expressions: look for mutating method calls and calls of analysed functions
    def scan_expr(self, node, env):
        if node is None:
            return
        for n in ast.walk(node):
            if isinstance(n, (ast.Lambda,)):
                continue
            if isinstance(n, ast.Call):
                f = n.func
                if isinstance(f, ast.Attribute) and f.attr in MUTATING:
                    b = base_name(f.value)
                    if b is not None and env.get(b):
                        self.site(env[b], "method:" + f.attr, n)
                callee = None
                if isinstance(f, ast.Name) and f.id in self.funcs and f.id not in env:
                    callee = f.id
                elif isinstance(f, ast.Attribute) and isinstance(f.value, ast.Name) and f.attr in self.funcs and f.value.id not in env and f.value.id not in ("self",):
                    callee = None  # module-qualified calls are rare here; method calls are not followed
                if callee is not None:
                    written = self.callee_writes.get(callee, set())
                    if written:
                        cps = params_of(self.funcs[callee])
                        for i, a in enumerate(n.args):
                            if isinstance(a, ast.Starred):
                                continue
                            if i < len(cps) and cps[i] in written:
                                al = self.aliases(a, env)
                                if al:
                                    self.site(al, "call", n, via=f"{callee}.{cps[i]}")
                        for k in n.keywords:
                            if k.arg is not None and k.arg in written:
                                al = self.aliases(k.value, env)
                                if al:
                                    self.site(al, "call", n, via=f"{callee}.{k.arg}")

    def assign_target(self, target, value_aliases, env, value_node=None):
        if isinstance(target, ast.Name):
            env[target.id] = set(value_aliases)
        elif isinstance(target, (ast.Tuple, ast.List)):
            if isinstance(value_node, (ast.Tuple, ast.List)) and len(value_node.elts) == len(target.elts):
                for t, v in zip(target.elts, value_node.elts):
                    self.assign_target(t, self.aliases(v, env), env, v)
            else:
                for t in target.elts:
                    self.assign_target(t, value_aliases, env)
        elif isinstance(target, ast.Starred):
            self.assign_target(target.value, value_aliases, env)
        elif isinstance(target, (ast.Subscript, ast.Attribute)):
            b = base_name(target)
            if b is not None and b != "self" and env.get(b):
                kind = "subscript-store" if isinstance(target, ast.Subscript) else "attr-store:" + target.attr
                self.site(env[b], kind, target)

    # -- statements
    def block(self, stmts, env):
        for st in stmts:
            env = self.stmt(st, env)
        return env

    @staticmethod
    def merge(a, b):
        out = {}
        for k in set(a) | set(b):
            out[k] = set(a.get(k, ())) | set(b.get(k, ()))
        return out

    def stmt(self, st, env):
        if isinstance(st, ast.Assign):
            self.scan_expr(st.value, env)
            al = self.aliases(st.value, env)
            for t in st.targets:
                self.scan_expr(t, env) if isinstance(t, (ast.Subscript, ast.Attribute)) else None
                self.assign_target(t, al, env, st.value)
            return env
        if isinstance(st, ast.AnnAssign):
            if st.value is not None:
                self.scan_expr(st.value, env)
                self.assign_target(st.target, self.aliases(st.value, env), env, st.value)
            return env
        if isinstance(st, ast.AugAssign):
            self.scan_expr(st.value, env)
            t = st.target
            b = base_name(t)
            if b is not None and b != "self" and env.get(b):
                kind = "augassign" if isinstance(t, ast.Name) else ("aug-subscript" if isinstance(t, ast.Subscript) else "aug-attr:" + t.attr)
                self.site(env[b], kind, st)
            return env
        if isinstance(st, ast.Delete):
            for t in st.targets:
                if isinstance(t, (ast.Subscript, ast.Attribute)):
                    b = base_name(t)
                    if b is not None and env.get(b):
                        self.site(env[b], "delete", st)
                elif isinstance(t, ast.Name):
                    env[t.id] = set()
            return env
        if isinstance(st, ast.Expr):
            self.scan_expr(st.value, env)
            return env
        if isinstance(st, ast.Return):
            self.scan_expr(st.value, env)
            return env
        if isinstance(st, ast.If):
            self.scan_expr(st.test, env)
            e1 = self.block(st.body, {k: set(v) for k, v in env.items()})
            e2 = self.block(st.orelse, {k: set(v) for k, v in env.items()})
            return self.merge(e1, e2)
        if isinstance(st, (ast.For, ast.AsyncFor)):
            self.scan_expr(st.iter, env)
            cur = env
            for _ in range(2):
                e = {k: set(v) for k, v in cur.items()}
                self.assign_target(st.target, self.aliases(st.iter, e), e)
                e = self.block(st.body, e)
                cur = self.merge(cur, e)
            e2 = self.block(st.orelse, {k: set(v) for k, v in cur.items()})
            return self.merge(cur, e2)
        if isinstance(st, ast.While):
            cur = env
            for _ in range(2):
                self.scan_expr(st.test, cur)
                e = self.block(st.body, {k: set(v) for k, v in cur.items()})
                cur = self.merge(cur, e)
            return self.merge(cur, self.block(st.orelse, {k: set(v) for k, v in cur.items()}))
        if isinstance(st, (ast.With, ast.AsyncWith)):
            for it in st.items:
                self.scan_expr(it.context_expr, env)
                if it.optional_vars is not None:
                    self.assign_target(it.optional_vars, self.aliases(it.context_expr, env), env)
            return self.block(st.body, env)
        if isinstance(st, ast.Try):
            e = self.block(st.body, {k: set(v) for k, v in env.items()})
            cur = self.merge(env, e)
            for h in st.handlers:
                cur = self.merge(cur, self.block(h.body, {k: set(v) for k, v in cur.items()}))
            cur = self.block(st.orelse, cur)
            return self.block(st.finalbody, cur)
        if isinstance(st, (ast.FunctionDef, ast.AsyncFunctionDef)):
            # nested function: its body is analysed in the environment of its definition (closure), own params fresh
            e = {k: set(v) for k, v in env.items()}
            for p in params_of(st):
                e[p] = set()
            self.block(st.body, e)
            env[st.name] = set()
            return env
        if isinstance(st, (ast.Raise, ast.Assert)):
            for n in ast.iter_child_nodes(st):
                if isinstance(n, ast.expr):
                    self.scan_expr(n, env)
            return env
        if isinstance(st, ast.Match):
            cur = env
            for c in st.cases:
                cur = self.merge(cur, self.block(c.body, {k: set(v) for k, v in env.items()}))
            return cur
        return env  # pass, break, continue, import, global, class definitions

    def run(self):
        env = {p: {p} for p in params_of(self.fn)}
        self.block(self.fn.body, env)
        seen = set()
        out = []
        for s in self.sites:
            if s not in seen:
                seen.add(s)
                out.append(s)
        return out


def analyse(repo):
    funcs, where = {}, {}
    for path in source_files(repo):
        tree = ast.parse(open(path).read(), filename=path)
        mod = module_name(repo, path)
        for node in tree.body:
            if isinstance(node, (ast.FunctionDef, ast.AsyncFunctionDef)):
                funcs[node.name] = node
                where[node.name] = mod
    writes = {n: set() for n in funcs}
    sites = {}
    for _ in range(10):
        changed = False
        for n, fn in funcs.items():
            s = Analyzer(fn, funcs, writes).run()
            sites[n] = s
            w = {x[0] for x in s if x[0] in params_of(fn)}
            if w != writes[n]:
                writes[n] = w
                changed = True
        if not changed:
            break
    return funcs, where, sites


def entry_points(repo, funcs, where):
    names = []
    for pkg in ("pabutools.rules", "pabutools.analysis"):
        for n in read_all(repo, pkg):
            if n in funcs and n not in names:
                names.append(n)
    for n, mod in where.items():
        public = not n.startswith("_")
        if public and (mod.startswith("pabutools.analysis.") or n.endswith("_sat_func") or n.endswith("_func")) and n not in names:
            names.append(n)
    return names


def summary(repo):
    """{entry point: [{"param","kind","line","via"}]} (what Gen/Effects.lean contains)"""
    funcs, where, sites = analyse(repo)
    return {n: [{"param": p, "kind": k, "line": ln, "via": via} for p, k, ln, via in sites[n]] for n in entry_points(repo, funcs, where)}


def render(repo):
    funcs, where, sites = analyse(repo)
    names = entry_points(repo, funcs, where)
    lines = [
        "/-",
        "  GENERATED by harness/translate_effects.py - do not edit.",
        "  Per public entry point: the statements that may write to an object reachable from a caller's argument.",
        "-/",
        "import PabuModel.Effects",
        "namespace Pabu.Gen",
        "open Pabu.Effects",
        "",
        "def effectSummary : List EntryEffects := [",
    ]
    for i, n in enumerate(names):
        ws = ", ".join('{ param := "%s", kind := "%s", line := %d, via := "%s" }' % s for s in sites[n])
        ps = ", ".join('"%s"' % p for p in params_of(funcs[n]))
        lines.append('  { name := "%s", module := "%s", params := [%s],\n    writes := [%s] }%s' % (n, where[n], ps, ws, "," if i + 1 < len(names) else ""))
    lines += ["]", "", "end Pabu.Gen", ""]
    return "\n".join(lines)


def regenerate(repo, lean_dir):
    from .translate_containers import write_if_changed

    return write_if_changed(os.path.join(lean_dir, "Gen", "Effects.lean"), render(repo))


if __name__ == "__main__":
    import json
    import sys

    repo = sys.argv[1] if len(sys.argv) > 1 else os.environ.get("PABU_REPO", "/repo")
    s = summary(repo)
    print(json.dumps({k: v for k, v in s.items() if v}, indent=1))
    print(len(s), "entry points,", sum(1 for v in s.values() if v), "with write sites", file=sys.stderr)
