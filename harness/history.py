"""
Multi-step histories around the rules: the SAME satisfaction-profile object is handed to a rule, extended in place
with late voters, and handed to the rule again (the API accepts `sat_profile=`).  Each call must return what the
definition prescribes for the voters present at that moment, so caches that survive between calls show up here.
"""
from __future__ import annotations

import json
import random
from fractions import Fraction as F

from . import core, oracle, rules, ruleprops
from .core import Case
from .ruleprops import violation

STABLE_SATS = {"app": ["Cost_Sat", "Cardinality_Sat"], "card": ["Additive_Cardinal_Sat"], "cum": ["Additive_Cardinal_Sat"], "ord": ["Additive_Borda_Sat"]}


def gen(rng):
    case = core.gen_election(rng, m_lo=2, m_hi=5, n_hi=5)
    names = [n for n, _ in case.projects]
    late = core.gen_ballots(rng, case.btype, names, 1, 4)
    return case, late


def run_history(ctx, rule, n):
    """rule in {greedy, mes, maxw}; returns nothing, records into ctx"""
    import pabutools.rules as R
    from pabutools.election import SatisfactionProfile, SatisfactionMultiProfile

    rng = ctx.rng
    for _ in range(n):
        if ctx.budget_s is not None and ctx.elapsed() > ctx.budget_s:
            break
        case, late = gen(rng)
        sat = rng.choice(STABLE_SATS[case.btype])
        sc = core.sat_class(sat)
        multi = rng.random() < 0.4
        inst, projs = core.build_instance(case)
        prof1 = core.build_profile(case, inst, projs, multi=multi)
        prof2 = core.build_profile(case, inst, projs, multi=multi, ballots=late)
        case12 = Case(case.projects, case.budget, case.btype, list(case.ballots) + list(late), case.seed)
        prof12 = core.build_profile(case12, inst, projs, multi=multi)
        sp = prof1.as_sat_profile(sc)
        cfg = {"rule": rule, "sat": sat, "multi": multi, "history": "sat_profile reused and extended in place", "late": [dict((k, core.q2s(v)) for k, v in b.items()) if isinstance(b, dict) else list(b) for b in late]}
        tie = "lexico"
        kw = {}
        if rule == "greedy":
            cfg["additive"] = rng.choice([None, True, False])
            f = R.greedy_utilitarian_welfare
            if cfg["additive"] is not None:
                kw["is_sat_additive"] = cfg["additive"]
            else:
                kw["is_sat_additive"] = True  # without sat_class the flag is not inferred; the fast path is the interesting one
        elif rule == "mes":
            f = R.method_of_equal_shares
        else:
            f = R.max_additive_utilitarian_welfare
        sig = {"rule": rule, "sat": sat, "history": "sat_profile_reuse"}

        def expected(c):
            U = oracle.utilities(sat, c)
            if rule == "greedy":
                ts = lambda alloc: sum((oracle.sat_set(sat, c, b, alloc) for b in c.ballots), F(0))  # noqa: E731
                return sorted(c.rank[p] for p in oracle.greedy(c, ts, tie=tie)), None
            if rule == "mes":
                return sorted(c.rank[p] for p in oracle.mes(c, U, tie=tie)[0]), None
            profit = {p: sum((U[v][p] for v in range(len(c.ballots))), F(0)) for p in c.names}
            best, arg = oracle.welfare_opt(c, profit)
            return None, (best, profit)

        try:
            out1 = f(inst, prof1, sat_profile=sp, **kw)
            if multi:
                sp.extend_from_multiprofile(prof2, sc)
            else:
                sp.extend_from_profile(prof2, sc)
            out2 = f(inst, prof12, sat_profile=sp, **kw)
        except Exception as e:  # noqa: BLE001
            ctx.violations.append(violation(f"rule raised {e!r} in a history reusing one sat_profile", case12, cfg, sig=dict(sig, err=core.err_enum(e))))
            ctx.evaluations += 1
            continue
        ctx.evaluations += 1
        ctx.count("history", rule)
        for step, (c, out) in enumerate(((case, out1), (case12, out2))):
            got = sorted(c.rank[p.name] for p in out)
            exp, wf = expected(c)
            if exp is not None:
                if got != exp:
                    ctx.violations.append(violation(f"call {step + 1} of a history reusing one sat_profile object does not return what the definition prescribes for the voters present",
                                                    case12, cfg, impl=got, expected=exp, sig=dict(sig, step=step + 1)))
            else:
                best, profit = wf
                val = sum((profit[c.names[i]] for i in got), F(0))
                if val != best:
                    ctx.violations.append(violation(f"call {step + 1} of a history reusing one sat_profile object is not welfare-maximal for the voters present",
                                                    case12, cfg, impl=got, expected=str(best), sig=dict(sig, step=step + 1)))
        if sorted(p.name for p in out1) != sorted(p.name for p in out2):
            ctx.nontrivial.add(case12.key() + json.dumps(cfg, sort_keys=True, default=str))


def replay(payload):
    """re-run a stored history violation"""
    import types

    case12 = Case.from_json(payload["case"])
    cfg = payload["cfg"]
    late = cfg["late"]
    n1 = len(case12.ballots) - len(late)
    case = Case(case12.projects, case12.budget, case12.btype, case12.ballots[:n1], case12.seed)
    # deterministic re-execution with the stored configuration
    import pabutools.rules as R

    sc = core.sat_class(cfg["sat"])
    inst, projs = core.build_instance(case)
    multi = cfg["multi"]
    late_b = [({k: F(v) for k, v in b.items()} if isinstance(b, dict) else list(b)) for b in late]
    prof1 = core.build_profile(case, inst, projs, multi=multi)
    prof2 = core.build_profile(case, inst, projs, multi=multi, ballots=late_b)
    prof12 = core.build_profile(case12, inst, projs, multi=multi)
    sp = prof1.as_sat_profile(sc)
    rule = cfg["rule"]
    kw = {}
    if rule == "greedy":
        kw["is_sat_additive"] = True if cfg.get("additive") is None else cfg["additive"]
    f = {"greedy": R.greedy_utilitarian_welfare, "mes": R.method_of_equal_shares, "maxw": R.max_additive_utilitarian_welfare}[rule]
    f(inst, prof1, sat_profile=sp, **kw)
    (sp.extend_from_multiprofile if multi else sp.extend_from_profile)(prof2, sc)
    out2 = f(inst, prof12, sat_profile=sp, **kw)
    fresh = f(inst, prof12, sat_profile=prof12.as_sat_profile(sc), **kw)
    a, b = sorted(p.name for p in out2), sorted(p.name for p in fresh)
    if rule != "maxw" and a != b:
        return False, f"still differs from a fresh satisfaction profile: {a} vs {b}"
    return True, "reused and fresh satisfaction profiles agree"
