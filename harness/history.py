"""
Multi-step histories around the rules: the SAME satisfaction-profile object is handed to a rule, extended in place
with late voters, and handed to the rule again (the API accepts `sat_profile=`).  Each call must return what the
definition prescribes for the voters present at that moment, so caches that survive between calls show up here.
"""
from __future__ import annotations

import json
import random
from fractions import Fraction as F

from . import core, oracle, rulegen, rules, ruleprops
from .core import Case
from .ruleprops import violation

STABLE_SATS = {"app": ["Cost_Sat", "Cardinality_Sat"], "card": ["Additive_Cardinal_Sat"], "cum": ["Additive_Cardinal_Sat"], "ord": ["Additive_Borda_Sat"]}


def gen(rng):
    case = core.gen_election(rng, m_lo=2, m_hi=5, n_hi=5)
    names = [n for n, _ in case.projects]
    late = core.gen_ballots(rng, case.btype, names, 1, 4)
    return case, late


def run_history(ctx, rule, n):
    """rule in {greedy, mes, maxw}; returns nothing, records into ctx"""
    import pabutools.rules as R
    from pabutools.election import SatisfactionProfile, SatisfactionMultiProfile

    rng = ctx.rng
    for _ in range(n):
        if ctx.budget_s is not None and ctx.elapsed() > ctx.budget_s:
            break
        case, late = gen(rng)
        sat = rng.choice(STABLE_SATS[case.btype])
        sc = core.sat_class(sat)
        multi = rng.random() < 0.4
        # a third of the list histories REPLACE one voter's measure in the satisfaction profile instead of adding voters: the number
        # of voters stays the same (round 7, C08-r7A: per-project totals memoised on the satisfaction profile, dropped only when
        # its length changes)
        replace = None
        if not multi and case.ballots and rng.random() < 0.45:
            replace = rng.randrange(len(case.ballots))
            late = late[:1]
        inst, projs = core.build_instance(case)
        prof1 = core.build_profile(case, inst, projs, multi=multi)
        prof2 = core.build_profile(case, inst, projs, multi=multi, ballots=late)
        if replace is None:
            case12 = Case(case.projects, case.budget, case.btype, list(case.ballots) + list(late), case.seed)
        else:
            case12 = Case(case.projects, case.budget, case.btype, [late[0] if i == replace else b for i, b in enumerate(case.ballots)], case.seed)
        prof12 = core.build_profile(case12, inst, projs, multi=multi)
        sp = prof1.as_sat_profile(sc)
        cfg = {"rule": rule, "sat": sat, "multi": multi, "history": "sat_profile reused and extended in place", "late": [dict((k, core.q2s(v)) for k, v in b.items()) if isinstance(b, dict) else list(b) for b in late]}
        if replace is not None:
            cfg["history"] = "sat_profile reused, one voter's measure replaced in place"
            cfg["replace"] = replace
            cfg["first"] = case.to_json()
        tie = "lexico"
        kw = {}
        if rule == "greedy":
            cfg["additive"] = rng.choice([None, True, False])
            f = R.greedy_utilitarian_welfare
            if cfg["additive"] is not None:
                kw["is_sat_additive"] = cfg["additive"]
            else:
                kw["is_sat_additive"] = True  # without sat_class the flag is not inferred; the fast path is the interesting one
        elif rule == "mes":
            f = R.method_of_equal_shares
        else:
            f = R.max_additive_utilitarian_welfare
        sig = {"rule": rule, "sat": sat, "history": "sat_profile_reuse"}

        def expected(c):
            U = oracle.utilities(sat, c)
            if rule == "greedy":
                ts = lambda alloc: sum((oracle.sat_set(sat, c, b, alloc) for b in c.ballots), F(0))  # noqa: E731
                return sorted(c.rank[p] for p in oracle.greedy(c, ts, tie=tie)), None
            if rule == "mes":
                return sorted(c.rank[p] for p in oracle.mes(c, U, tie=tie)[0]), None
            profit = {p: sum((U[v][p] for v in range(len(c.ballots))), F(0)) for p in c.names}
            best, arg = oracle.welfare_opt(c, profit)
            return None, (best, profit)

        try:
            out1 = f(inst, prof1, sat_profile=sp, **kw)
            if replace is not None:
                sp[replace] = sc(inst, prof12, prof12[replace])
            elif multi:
                sp.extend_from_multiprofile(prof2, sc)
            else:
                sp.extend_from_profile(prof2, sc)
            out2 = f(inst, prof12, sat_profile=sp, **kw)
        except Exception as e:  # noqa: BLE001
            ctx.violations.append(violation(f"rule raised {e!r} in a history reusing one sat_profile", case12, cfg, sig=dict(sig, err=core.err_enum(e))))
            ctx.evaluations += 1
            continue
        ctx.evaluations += 1
        ctx.count("history", rule + (":replace" if replace is not None else ":extend"))
        for step, (c, out) in enumerate(((case, out1), (case12, out2))):
            got = sorted(c.rank[p.name] for p in out)
            exp, wf = expected(c)
            if exp is not None:
                if got != exp:
                    ctx.violations.append(violation(f"call {step + 1} of a history reusing one sat_profile object does not return what the definition prescribes for the voters present",
                                                    case12, cfg, impl=got, expected=exp, sig=dict(sig, step=step + 1)))
            else:
                best, profit = wf
                val = sum((profit[c.names[i]] for i in got), F(0))
                if val != best:
                    ctx.violations.append(violation(f"call {step + 1} of a history reusing one sat_profile object is not welfare-maximal for the voters present",
                                                    case12, cfg, impl=got, expected=str(best), sig=dict(sig, step=step + 1)))
        if sorted(p.name for p in out1) != sorted(p.name for p in out2):
            ctx.nontrivial.add(case12.key() + json.dumps(cfg, sort_keys=True, default=str))


def replay(payload):
    """re-run a stored history violation"""
    import types

    case12 = Case.from_json(payload["case"])
    cfg = payload["cfg"]
    late = cfg["late"]
    n1 = len(case12.ballots) - len(late)
    case = Case(case12.projects, case12.budget, case12.btype, case12.ballots[:n1], case12.seed)
    if cfg.get("replace") is not None:
        case = Case.from_json(cfg["first"])
    # deterministic re-execution with the stored configuration
    import pabutools.rules as R

    sc = core.sat_class(cfg["sat"])
    inst, projs = core.build_instance(case)
    multi = cfg["multi"]
    late_b = [({k: F(v) for k, v in b.items()} if isinstance(b, dict) else list(b)) for b in late]
    prof1 = core.build_profile(case, inst, projs, multi=multi)
    prof2 = core.build_profile(case, inst, projs, multi=multi, ballots=late_b)
    prof12 = core.build_profile(case12, inst, projs, multi=multi)
    sp = prof1.as_sat_profile(sc)
    rule = cfg["rule"]
    kw = {}
    if rule == "greedy":
        kw["is_sat_additive"] = True if cfg.get("additive") is None else cfg["additive"]
    f = {"greedy": R.greedy_utilitarian_welfare, "mes": R.method_of_equal_shares, "maxw": R.max_additive_utilitarian_welfare}[rule]
    f(inst, prof1, sat_profile=sp, **kw)
    if cfg.get("replace") is not None:
        sp[cfg["replace"]] = sc(inst, prof12, prof12[cfg["replace"]])
    else:
        (sp.extend_from_multiprofile if multi else sp.extend_from_profile)(prof2, sc)
    out2 = f(inst, prof12, sat_profile=sp, **kw)
    fresh = f(inst, prof12, sat_profile=prof12.as_sat_profile(sc), **kw)
    a, b = sorted(p.name for p in out2), sorted(p.name for p in fresh)
    if rule != "maxw" and a != b:
        return False, f"still differs from a fresh satisfaction profile: {a} vs {b}"
    return True, "reused and fresh satisfaction profiles agree"


# ----------------------------------------------------------------------------------------------
# ONE long-lived approval profile object (Profile or MultiProfile) handed to a rule, mutated in place through the
# public list / Counter API (late voters, withdrawn voters, replaced or edited ballots, changed multiplicities) and handed
# to the rule again.  Every call must return what the definition prescribes for the voters present at that moment:
# anything remembered on the profile (or on its ballots) from an earlier call shows up here.  Used by C05.

PROFILE_OPS = ["append", "extend", "iadd", "insert", "set", "del", "edit", "swap_one"]
MULTI_OPS = ["append", "extend", "extend_mutable", "addmult", "setmult", "delballot", "update"]


def _akey(b):
    return tuple(sorted(b))


def gen_profile_op(rng, names, raw, multi):
    """one in-place mutation of the profile, as a JSON-able list; `raw` is the current voter list (lists of names)"""
    def newb():
        b = [x for x in names if rng.random() < 0.5]
        if not b and names and rng.random() < 0.8:
            b = [rng.choice(names)]
        rng.shuffle(b)
        return b

    def some():
        # late voters often share one ballot: that is what moves supporter counts most
        k = rng.randint(1, 4)
        if rng.random() < 0.5:
            b = newb()
            return [list(b) for _ in range(k)]
        return [newb() for _ in range(k)]

    for _ in range(20):
        op = rng.choice(MULTI_OPS if multi else PROFILE_OPS)
        if op == "append":
            return ["append", newb()]
        if op in ("extend", "iadd", "extend_mutable"):
            return [op, some()]
        if op == "update":
            return ["update", [[b, rng.randint(1, 3)] for b in some()]]
        if not raw:
            continue
        if op == "insert":
            return ["insert", rng.randint(0, len(raw)), newb()]
        if op in ("set", "edit"):
            return [op, rng.randrange(len(raw)), newb()]
        if op == "swap_one":
            # a voter replaces one approved project by another one: the ballot keeps its size
            i = rng.randrange(len(raw))
            ins = sorted(raw[i])
            outs = [x for x in names if x not in raw[i]]
            if ins and outs:
                return ["swap_one", i, rng.choice(ins), rng.choice(outs)]
            continue
        if op == "del":
            if len(raw) >= 2:
                return ["del", rng.randrange(len(raw))]
            continue
        if op == "addmult":
            return ["addmult", list(rng.choice(raw)), rng.randint(1, 3)]
        if op == "setmult":
            return ["setmult", list(rng.choice(raw)), rng.randint(1, 4)]
        if op == "delballot":
            b = rng.choice(raw)
            if any(_akey(x) != _akey(b) for x in raw):
                return ["delballot", list(b)]
    return ["append", newb()]


def voters_after(raw, op):
    """the voter list after `op`: the independent half of the history (plain lists of names, no library object)"""
    kind = op[0]
    raw = [list(b) for b in raw]
    if kind == "append":
        return raw + [list(op[1])]
    if kind in ("extend", "iadd", "extend_mutable"):
        return raw + [list(b) for b in op[1]]
    if kind == "update":
        return raw + [list(b) for b, k in op[1] for _ in range(k)]
    if kind == "insert":
        raw.insert(op[1], list(op[2]))
        return raw
    if kind in ("set", "edit"):
        raw[op[1]] = list(op[2])
        return raw
    if kind == "swap_one":
        if op[2] not in raw[op[1]] or op[3] in raw[op[1]]:
            raise ValueError(op)
        raw[op[1]] = [x for x in raw[op[1]] if x != op[2]] + [op[3]]
        return raw
    if kind == "del":
        del raw[op[1]]
        return raw
    if kind == "addmult":
        return raw + [list(op[1]) for _ in range(op[2])]
    if kind == "setmult":
        return [b for b in raw if _akey(b) != _akey(op[1])] + [list(op[1]) for _ in range(op[2])]
    if kind == "delballot":
        return [b for b in raw if _akey(b) != _akey(op[1])]
    raise ValueError(op)


def apply_profile_op(prof, op, projs, multi):
    """apply `op` to the real profile object through its public mutators; returns the profile object the caller goes on with"""
    import pabutools.election as e

    def mut(b):
        return e.ApprovalBallot([projs[x] for x in b])

    def fro(b):
        return e.FrozenApprovalBallot([projs[x] for x in b])

    kind = op[0]
    if not multi:
        if kind == "append":
            prof.append(mut(op[1]))
        elif kind == "extend":
            prof.extend([mut(b) for b in op[1]])
        elif kind == "iadd":
            prof += [mut(b) for b in op[1]]
        elif kind == "insert":
            prof.insert(op[1], mut(op[2]))
        elif kind == "set":
            prof[op[1]] = mut(op[2])
        elif kind == "del":
            del prof[op[1]]
        elif kind == "edit":
            b = prof[op[1]]
            b.clear()
            b.update(projs[x] for x in op[2])
        elif kind == "swap_one":
            b = prof[op[1]]
            b.remove(projs[op[2]])
            b.add(projs[op[3]])
        else:
            raise ValueError(op)
        return prof
    if kind == "append":
        prof.append(fro(op[1]))
    elif kind == "extend":
        prof.extend([fro(b) for b in op[1]])
    elif kind == "extend_mutable":
        prof.extend([mut(b) for b in op[1]])
    elif kind == "update":
        if len({_akey(b) for b, _ in op[1]}) == len(op[1]):
            prof.update({fro(b): k for b, k in op[1]})
        else:
            prof.update([fro(b) for b, k in op[1] for _ in range(k)])
    elif kind == "addmult":
        prof[fro(op[1])] += op[2]
    elif kind == "setmult":
        prof[fro(op[1])] = op[2]
    elif kind == "delballot":
        del prof[fro(op[1])]
    else:
        raise ValueError(op)
    return prof


class LiveBuilt(rules.Built):
    """the real objects of a history: the profile is the long-lived, mutated one; the case describes the voters present now"""

    def __init__(self, case, inst, projs, prof, multi):  # Built.__init__ is not called on purpose: nothing is rebuilt
        self.case, self.inst, self.projs, self.prof, self.multi = case, inst, projs, prof, multi


def check_live(case, prof):
    """harness sanity (not a property): the live profile object holds exactly the voters of the independent voter list"""
    from collections import Counter

    want = Counter(_akey(b) for b in case.ballots)
    got = Counter()
    for b in prof:
        got[_akey(p.name for p in b)] += prof.multiplicity(b)
    if want != got:
        raise AssertionError(f"harness: live profile {dict(got)} and voter list {dict(want)} diverged")


def gen_profile_history(rng, rule_cfg):
    """(initial case, multi, steps): steps[k] = {"ops": [...], "cfg": configuration of call k}; step 0 has no ops.
    rule_cfg(rng, case_now, multi) draws the configuration of one call for the voters present at that step."""
    case = core.gen_election(rng, btypes=("app",), m_lo=2, m_hi=5, n_hi=5)
    names = [n for n, _ in case.projects]
    multi = rng.random() < 0.5
    raw = [list(b) for b in case.ballots]
    steps = []
    for k in range(rng.choice([2, 2, 3, 4])):
        ops = []
        if k > 0:
            for _ in range(rng.choice([1, 1, 2, 3])):
                op = gen_profile_op(rng, names, raw, multi)
                ops.append(op)
                raw = voters_after(raw, op)
        cur = Case(case.projects, case.budget, "app", [list(b) for b in raw], case.seed)
        steps.append({"ops": ops, "cfg": rule_cfg(rng, cur, multi)})
    return case, multi, steps


def play_profile_history(case, multi, steps, predicate, upto=None):
    """run the history on ONE profile object; yields (step index, case now, item, violations of `predicate`) per call"""
    inst, projs = core.build_instance(case)
    prof = core.build_profile(case, inst, projs, multi=multi)
    raw = [list(b) for b in case.ballots]
    for k, st in enumerate(steps):
        if upto is not None and k > upto:
            return
        for op in st["ops"]:
            raw = voters_after(raw, op)
            prof = apply_profile_op(prof, op, projs, multi)
        cur = Case(case.projects, case.budget, "app", [list(b) for b in raw], case.seed)
        check_live(cur, prof)
        built = LiveBuilt(cur, inst, projs, prof, multi)
        cfg = dict(st["cfg"], multi=multi)
        rulegen.fix_loads(cfg, built)
        ans, rawans = rules.impl_answer(built, cfg)
        it = ruleprops.Item(cur, cfg, built, ans, rawans, None)
        yield k, cur, it, predicate(it)


def _history_json(multi, steps):
    return {"kind": "profile mutated in place between calls", "multi": multi,
            "steps": [{"ops": st["ops"], "cfg": ruleprops.cfg_json({k: v for k, v in st["cfg"].items() if k not in ("loads", "loads_expanded")})} for st in steps]}


def run_profile_history(ctx, n, predicate, rule_cfg):
    """n histories; every call of every history is judged by the property's own `predicate` on the voters present"""
    rng = ctx.rng
    for _ in range(n):
        if ctx.budget_s is not None and ctx.elapsed() > ctx.budget_s:
            break
        case, multi, steps = gen_profile_history(rng, rule_cfg)
        hist = _history_json(multi, steps)
        outs = []
        for k, cur, it, vs in play_profile_history(case, multi, steps, predicate):
            ctx.evaluations += 1
            ctx.count("profile_history_calls", "MultiProfile" if multi else "Profile")
            for op in steps[k]["ops"]:
                ctx.count("profile_history_ops", op[0])
            outs.append(rules.canon(it.ans))
            for v in vs:
                # stored so that the replay re-runs the whole history from the initial election
                v = dict(v)
                v["what"] = f"call {k + 1} of a history on one profile object mutated in place: " + v["what"]
                v["current_case"] = v["case"]
                v["case"] = case.to_json()
                v["cfg"] = dict(v["cfg"], profile_history=hist, step=k)
                v["sig"] = dict(v.get("sig") or {}, history="profile_mutated_in_place")
                ctx.violations.append(v)
        if len(set(outs)) >= 2:
            ctx.nontrivial.add("profhist" + case.key() + json.dumps(hist, sort_keys=True, default=str))


def replay_profile_history(payload, predicate):
    """re-run a stored history from its initial election up to the failing call"""
    case = Case.from_json(payload["case"])
    hist = payload["cfg"]["profile_history"]
    upto = payload["cfg"].get("step")
    steps = [{"ops": st["ops"], "cfg": ruleprops.cfg_from_json(st["cfg"])} for st in hist["steps"]]
    last = None
    for k, cur, it, vs in play_profile_history(case, hist["multi"], steps, predicate, upto=upto):
        last = rules.canon(it.ans)
        if vs and (upto is None or k == upto):
            return False, f"still fails at call {k + 1}: " + vs[0]["what"]
    return True, f"every call of the history returns what the definition prescribes (last: {last})"
