"""
Exact linear feasibility over the rationals, and the two linear systems of property C12.

    feasible(nvars, ineqs, eqs) -> (True, x) | (False, y)

decides whether  { x >= 0,  a.x <= r for (a, r) in ineqs,  a.x = r for (a, r) in eqs }  has a
solution.  Rows are sparse: a = {var index: coefficient}.  Everything is `fractions.Fraction`.
The answer is CERTIFIED either way, by code that does not depend on the simplex implementation:
  * feasible   -> the returned point is substituted into every row (`check_point`);
  * infeasible -> a Farkas certificate y (one multiplier per row, >= 0 on the inequality rows) with
                  sum_i y_i a_i >= 0 componentwise and sum_i y_i r_i < 0 is verified (`check_farkas`):
                  any x >= 0 satisfying the rows would give 0 <= (y.A).x <= y.r < 0.
A failed certificate raises `OracleError` (infrastructure failure, never a verdict).

On top of it:
  price_system_exists(...)  -- definition: is there a (stable) price system for the allocation W?
  mip_model_feasible(...)   -- is the MIP that `priceable` builds feasible once the selection x is fixed?
  minimise(nvars, ineqs, eqs, obj) -- certified exact optimum (primal point + dual certificate verified by `check_optimal`)
  relaxed_optimum(...)      -- the optimal beta of a relaxation of stable priceability (definition / MIP as built), for one allocation
  relaxed_optimum_searched(...) -- the same minimised over all allocations (searched mode)
"""
from __future__ import annotations

from fractions import Fraction as F


class OracleError(Exception):
    pass


# ----------------------------------------------------------------------------------------------
# certified feasibility


def check_point(nvars, ineqs, eqs, x):
    if len(x) != nvars or any(v < 0 for v in x):
        return False
    for a, r in ineqs:
        if sum((c * x[j] for j, c in a.items()), F(0)) > r:
            return False
    for a, r in eqs:
        if sum((c * x[j] for j, c in a.items()), F(0)) != r:
            return False
    return True


def check_farkas(nvars, ineqs, eqs, y):
    rows = list(ineqs) + list(eqs)
    if len(y) != len(rows):
        return False
    if any(y[i] < 0 for i in range(len(ineqs))):
        return False
    comb = [F(0)] * nvars
    rhs = F(0)
    for yi, (a, r) in zip(y, rows):
        if yi == 0:
            continue
        for j, c in a.items():
            comb[j] += yi * c
        rhs += yi * r
    return all(c >= 0 for c in comb) and rhs < 0


def feasible(nvars, ineqs, eqs):
    ineqs = [({j: F(c) for j, c in a.items() if c != 0}, F(r)) for a, r in ineqs]
    eqs = [({j: F(c) for j, c in a.items() if c != 0}, F(r)) for a, r in eqs]
    m1, m2 = len(ineqs), len(eqs)
    m = m1 + m2
    if m == 0:
        return True, [F(0)] * nvars
    # standard form: row i: sign_i * (a_i.x + [slack_i]) = sign_i * r_i >= 0.  An inequality row with r_i >= 0 starts
    # with its slack in the basis; the other rows get an artificial variable (phase 1 minimises their sum).
    need_art = [i for i in range(m) if i >= m1 or ineqs[i][1] < 0]
    art_col = {i: nvars + m1 + k for k, i in enumerate(need_art)}
    ncols = nvars + m1 + len(need_art)
    T, sign, basis = [], [], []
    for i, (a, r) in enumerate(ineqs + eqs):
        s = F(-1) if r < 0 else F(1)
        row = [F(0)] * (ncols + 1)
        for j, c in a.items():
            row[j] = s * c
        if i < m1:
            row[nvars + i] = s
        if i in art_col:
            row[art_col[i]] = F(1)
            basis.append(art_col[i])
        else:
            basis.append(nvars + i)
        row[ncols] = s * r
        T.append(row)
        sign.append(s)
    first_art = nvars + m1
    # reduced costs z_j = c_j - sum_k c_B[k] T[k][j]
    z = [(F(1) if j >= first_art else F(0)) - sum((T[k][j] for k in need_art), F(0)) for j in range(ncols)]
    for _ in range(20000):
        enter = next((j for j in range(ncols) if z[j] < 0), None)  # Bland: smallest index
        if enter is None:
            break
        best, leave = None, None
        for k in range(m):
            if T[k][enter] > 0:
                ratio = T[k][ncols] / T[k][enter]
                if best is None or ratio < best or (ratio == best and basis[k] < basis[leave]):
                    best, leave = ratio, k
        if leave is None:
            raise OracleError("phase-1 problem unbounded (cannot happen)")
        piv = T[leave][enter]
        rowl = T[leave] = [v / piv if v else v for v in T[leave]]
        nz = [j for j, w in enumerate(rowl) if w]
        for k in range(m):
            if k != leave:
                f = T[k][enter]
                if f:
                    rk = T[k]
                    for j in nz:
                        rk[j] -= f * rowl[j]
        f = z[enter]
        for j in nz:
            if j < ncols:
                z[j] -= f * rowl[j]
        basis[leave] = enter
    else:
        raise OracleError("simplex did not terminate")
    value = sum((T[k][ncols] for k in range(m) if basis[k] >= first_art), F(0))
    if value == 0:
        x = [F(0)] * nvars
        for k in range(m):
            if basis[k] < nvars:
                x[basis[k]] = T[k][ncols]
        if not check_point(nvars, ineqs, eqs, x):
            raise OracleError("simplex witness does not satisfy the system")
        return True, x
    # dual multipliers of the normalised rows: pi_i = c_j - z_j for the unit column j of row i
    pi = [(F(1) - z[art_col[i]]) if i in art_col else (-z[nvars + i]) for i in range(m)]
    y = [-(pi[i] * sign[i]) for i in range(m)]
    if not check_farkas(nvars, ineqs, eqs, y):
        raise OracleError("infeasibility certificate does not verify")
    return False, y


# ----------------------------------------------------------------------------------------------
# C12: the definition


def is_feasible_alloc(cost, budget, W):
    return sum((cost[c] for c in W), F(0)) <= budget


def is_exhaustive_alloc(names, cost, budget, W):
    total = sum((cost[c] for c in W), F(0))
    return all(not (total + cost[c] <= budget) for c in names if c not in W)


def price_system_exists(names, cost, budget, ballots, W, stable=False, exhaustive=True, min_total_budget=None):
    """Is there a voter budget b >= 0 and payments p_i(c) >= 0 such that
       (C0a) W is feasible, (C0b, if exhaustive) W is exhaustive, (C1) voters pay only for approved projects,
       (C2) nobody spends more than b, (C3) the payments for a selected project sum to its cost,
       (C4) nothing is paid for unselected projects,
       (C5) the supporters of an unselected project have at most its cost left in total / (S5, stable) the
            sum over supporters of max(largest single payment, leftover) is at most its cost?
       `min_total_budget`: additionally require b * n >= that value (the search's guard against the empty allocation).
       Returns (exists, witness) with witness = (b, [dict name->payment per voter]) or None."""
    W = [c for c in names if c in set(W)]
    n = len(ballots)
    if not is_feasible_alloc(cost, budget, W):
        return False, None
    if exhaustive and not is_exhaustive_alloc(names, cost, budget, W):
        return False, None
    var = {"b": 0}
    for i, bal in enumerate(ballots):
        for c in W:
            if c in bal:
                var[(i, c)] = len(var)
    if stable:
        for i in range(n):
            var[("m", i)] = len(var)
    ineqs, eqs = [], []

    def spent_row(i, coef=1):
        return {var[(i, c)]: F(coef) for c in W if (i, c) in var}

    for i in range(n):
        row = spent_row(i)
        row[0] = row.get(0, F(0)) - 1
        ineqs.append((row, F(0)))  # spent_i - b <= 0
    for c in W:
        eqs.append(({var[(i, c)]: F(1) for i in range(n) if (i, c) in var}, cost[c]))
    NW = [c for c in names if c not in W]
    if not stable:
        for c in NW:
            row = {0: F(0)}
            for i, bal in enumerate(ballots):
                if c in bal:
                    row[0] += 1
                    for j, v in spent_row(i, -1).items():
                        row[j] = row.get(j, F(0)) + v
            ineqs.append((row, cost[c]))
    else:
        for i in range(n):
            mi = var[("m", i)]
            for c in W:
                if (i, c) in var:
                    ineqs.append(({var[(i, c)]: F(1), mi: F(-1)}, F(0)))  # p <= m
            row = spent_row(i, -1)
            row[0] = F(1)
            row[mi] = F(-1)
            ineqs.append((row, F(0)))  # b - spent <= m
        for c in NW:
            ineqs.append(({var[("m", i)]: F(1) for i, bal in enumerate(ballots) if c in bal}, cost[c]))
    if min_total_budget is not None:
        ineqs.append(({0: F(-n)}, -F(min_total_budget)))
    ok, x = feasible(len(var), ineqs, eqs)
    if not ok:
        return False, None
    pf = [{c: (x[var[(i, c)]] if (i, c) in var else F(0)) for c in names} for i in range(n)]
    return True, (x[0], pf)


def exists_priceable_allocation(names, cost, budget, ballots, stable, exhaustive):
    """the searched mode: some allocation has a price system (with b*n >= budget when exhaustiveness is not required)"""
    import itertools

    out = []
    for k in range(len(names) + 1):
        for W in itertools.combinations(names, k):
            ok, _ = price_system_exists(names, cost, budget, ballots, list(W), stable, exhaustive,
                                        min_total_budget=None if exhaustive else budget)
            if ok:
                out.append(sorted(W))
    return out


# ----------------------------------------------------------------------------------------------
# C12: the MIP of `priceable` with the selection fixed (transcribed from priceability.py:286-383)


def mip_model_feasible(names, cost, budget, ballots, W, stable, exhaustive, searched):
    """exact feasibility of the constraint system the library hands to the solver, for x = indicator of W.
    All variables have lower bound 0 (python-mip default).  Equivalent rewriting used to keep the LP small:
    variables the model forces to 0 (p[i][c] with c not approved by i, or x_c = 0) are dropped, the leftover
    variable r_i = b - spent_i >= 0 is substituted, `p <= INF` rows are dropped when implied by
    `sum_i p_i(c) <= cost(c) <= INF`."""
    Wset = set(W)
    n = len(ballots)
    INF = budget * 10
    x = {c: (1 if c in Wset else 0) for c in names}
    total = sum((cost[c] * x[c] for c in names), F(0))
    if not total <= budget:  # (C0a)
        return False
    if exhaustive:  # (C0b)
        for c in names:
            if not total + cost[c] + x[c] * INF >= budget + 1:
                return False
    var = {"b": 0}
    for i, bal in enumerate(ballots):
        for c in names:
            if c in bal and x[c] == 1:  # otherwise p[i][c] = 0 by (C1) / (C4)
                var[(i, c)] = len(var)
    if stable:
        for i in range(n):
            var[("m", i)] = len(var)
    ineqs, eqs = [], []
    if (not exhaustive) and searched:
        ineqs.append(({0: F(-n)}, -budget))  # b * n >= budget

    def spent_row(i, coef=1):
        return {var[(i, c)]: F(coef) for c in names if (i, c) in var}

    for i in range(n):  # (C2); in the plain model also r_i >= 0
        row = spent_row(i)
        row[0] = F(-1)
        ineqs.append((row, F(0)))
    for c in names:  # (C3)
        row = {var[(i, c)]: F(1) for i in range(n) if (i, c) in var}
        lo = cost[c] + (x[c] - 1) * INF
        if row:
            ineqs.append((dict(row), cost[c]))
            ineqs.append(({j: -v for j, v in row.items()}, -lo))
        elif not (0 <= cost[c] and lo <= 0):
            return False
        if x[c] == 1 and not cost[c] <= INF:  # (C4) upper bound not implied: keep it
            for i in range(n):
                if (i, c) in var:
                    ineqs.append(({var[(i, c)]: F(1)}, INF))
    if not stable:
        for c in names:  # (C5) with big-M
            sup = [i for i, bal in enumerate(ballots) if c in bal]
            row = {}
            for i in sup:
                row[0] = row.get(0, F(0)) + 1
                for j, v in spent_row(i, -1).items():
                    row[j] = row.get(j, F(0)) + v
            if row:
                ineqs.append((row, cost[c] + x[c] * INF))
            elif not (0 <= cost[c] + x[c] * INF):
                return False
    else:
        for i in range(n):
            mi = var[("m", i)]
            for c in names:
                if (i, c) in var:
                    ineqs.append(({var[(i, c)]: F(1), mi: F(-1)}, F(0)))
            row = spent_row(i, -1)
            row[0] = F(1)
            row[mi] = F(-1)
            ineqs.append((row, F(0)))
        for c in names:  # (S5) with big-M
            row = {var[("m", i)]: F(1) for i, bal in enumerate(ballots) if c in bal}
            if row:
                ineqs.append((row, cost[c] + x[c] * INF))
            elif not (0 <= cost[c] + x[c] * INF):
                return False
    ok, _ = feasible(len(var), ineqs, eqs)
    return ok


# ----------------------------------------------------------------------------------------------
# certified exact optimisation (two-phase simplex, Bland's rule) — used for the relaxations of stable priceability


def check_optimal(nvars, ineqs, eqs, obj, x, y):
    """x is feasible, y is dual feasible (y <= 0 on the inequality rows, y.A <= obj componentwise) and obj.x = y.r:
    by weak duality (obj.x' >= (y.A).x' >= y.r for every feasible x') x is a minimiser"""
    if not check_point(nvars, ineqs, eqs, x):
        return False
    rows = list(ineqs) + list(eqs)
    if len(y) != len(rows) or any(y[i] > 0 for i in range(len(ineqs))):
        return False
    comb = [F(0)] * nvars
    rhs = F(0)
    for yi, (a, r) in zip(y, rows):
        if yi == 0:
            continue
        for j, c in a.items():
            comb[j] += yi * c
        rhs += yi * r
    if any(comb[j] > obj.get(j, F(0)) for j in range(nvars)):
        return False
    return rhs == sum((c * x[j] for j, c in obj.items()), F(0))


def minimise(nvars, ineqs, eqs, obj):
    """min obj.x over { x >= 0, a.x <= r (ineqs), a.x = r (eqs) }, everything exact.
       -> ("infeasible", None, None)  (Farkas certificate verified by `feasible`)
          ("unbounded", None, x)      (x feasible; an improving ray was found and verified)
          ("optimal", value, x)       (primal/dual pair verified by `check_optimal`)"""
    ineqs = [({j: F(c) for j, c in a.items() if c != 0}, F(r)) for a, r in ineqs]
    eqs = [({j: F(c) for j, c in a.items() if c != 0}, F(r)) for a, r in eqs]
    obj = {j: F(c) for j, c in obj.items() if c != 0}
    m1, m2 = len(ineqs), len(eqs)
    m = m1 + m2
    need_art = [i for i in range(m) if i >= m1 or ineqs[i][1] < 0]
    art_col = {i: nvars + m1 + k for k, i in enumerate(need_art)}
    ncols = nvars + m1 + len(need_art)
    first_art = nvars + m1
    T, sign, basis = [], [], []
    for i, (a, r) in enumerate(ineqs + eqs):
        s = F(-1) if r < 0 else F(1)
        row = [F(0)] * (ncols + 1)
        for j, c in a.items():
            row[j] = s * c
        if i < m1:
            row[nvars + i] = s
        if i in art_col:
            row[art_col[i]] = F(1)
            basis.append(art_col[i])
        else:
            basis.append(nvars + i)
        row[ncols] = s * r
        T.append(row)
        sign.append(s)

    def pivot(leave, enter, z):
        piv = T[leave][enter]
        rowl = T[leave] = [v / piv if v else v for v in T[leave]]
        nz = [j for j, w in enumerate(rowl) if w]
        for k in range(m):
            if k != leave:
                f = T[k][enter]
                if f:
                    rk = T[k]
                    for j in nz:
                        rk[j] -= f * rowl[j]
        f = z[enter]
        if f:
            for j in nz:
                if j < ncols:
                    z[j] -= f * rowl[j]
        basis[leave] = enter

    def run(z, allowed):
        for _ in range(50000):
            enter = next((j for j in range(allowed) if z[j] < 0), None)
            if enter is None:
                return None
            best, leave = None, None
            for k in range(m):
                if T[k][enter] > 0:
                    ratio = T[k][ncols] / T[k][enter]
                    if best is None or ratio < best or (ratio == best and basis[k] < basis[leave]):
                        best, leave = ratio, k
            if leave is None:
                return enter  # unbounded along this column
            pivot(leave, enter, z)
        raise OracleError("simplex did not terminate")

    # phase 1
    z = [(F(1) if j >= first_art else F(0)) - sum((T[k][j] for k in need_art), F(0)) for j in range(ncols)]
    if run(z, ncols) is not None:
        raise OracleError("phase-1 problem unbounded (cannot happen)")
    if sum((T[k][ncols] for k in range(m) if basis[k] >= first_art), F(0)) != 0:
        ok, _ = feasible(nvars, ineqs, eqs)  # certified
        if ok:
            raise OracleError("phase 1 and the feasibility oracle disagree")
        return "infeasible", None, None
    # drive the artificial variables out of the basis (their level is 0); a row without any other entry is redundant
    for k in range(m):
        if basis[k] >= first_art:
            j = next((j for j in range(first_art) if T[k][j] != 0), None)
            if j is not None:
                pivot(k, j, z)
    # phase 2: artificial columns stay in the tableau (they carry the duals) but may not enter
    cvec = [obj.get(j, F(0)) if j < nvars else F(0) for j in range(ncols)]
    z = [cvec[j] - sum((cvec[basis[k]] * T[k][j] for k in range(m) if cvec[basis[k]]), F(0)) for j in range(ncols)]
    ray = run(z, first_art)
    x = [F(0)] * nvars
    for k in range(m):
        if basis[k] < nvars:
            x[basis[k]] = T[k][ncols]
    if ray is not None:
        d = [F(0)] * nvars
        if ray < nvars:
            d[ray] = F(1)
        for k in range(m):
            if basis[k] < nvars:
                d[basis[k]] = -T[k][ray]
        okray = all(v >= 0 for v in d) and all(sum((c * d[j] for j, c in a.items()), F(0)) <= 0 for a, _ in ineqs) \
            and all(sum((c * d[j] for j, c in a.items()), F(0)) == 0 for a, _ in eqs) \
            and sum((c * d[j] for j, c in obj.items()), F(0)) < 0
        if not (okray and check_point(nvars, ineqs, eqs, x)):
            raise OracleError("unboundedness certificate does not verify")
        return "unbounded", None, x
    pi = [(-z[art_col[i]]) if i in art_col else (-z[nvars + i] / sign[i]) for i in range(m)]
    y = [pi[i] * sign[i] for i in range(m)]
    if not check_optimal(nvars, ineqs, eqs, obj, x, y):
        raise OracleError("optimality certificate does not verify")
    return "optimal", sum((c * x[j] for j, c in obj.items()), F(0)), x


# ----------------------------------------------------------------------------------------------
# C12: the relaxations of stable priceability (pabutools/analysis/priceability_relaxation.py)

RELAX_KINDS = ("mul", "add", "vec", "vecpos", "off")
OFFSET_FRACTION = F(1, 40)  # MinAddOffset.BUDGET_FRACTION = 0.025


class _LP:
    """rows over named variables with lower bounds: value(v) = x[index] + lb(v), x >= 0"""

    def __init__(self):
        self.idx, self.lb = {}, {}
        self.ineqs, self.eqs = [], []
        self.dead = False  # a variable-free row that is false

    def var(self, name, lb=F(0)):
        if name not in self.idx:
            self.idx[name] = len(self.idx)
            self.lb[name] = F(lb)
        return name

    def _row(self, coefs, rhs):
        row, rhs = {}, F(rhs)
        for v, c in coefs.items():
            c = F(c)
            if c == 0:
                continue
            row[self.idx[v]] = row.get(self.idx[v], F(0)) + c
            rhs -= c * self.lb[v]
        return {j: c for j, c in row.items() if c != 0}, rhs

    def le(self, coefs, rhs):  # sum coefs <= rhs
        row, r = self._row(coefs, rhs)
        if row:
            self.ineqs.append((row, r))
        elif not 0 <= r:
            self.dead = True

    def eq(self, coefs, rhs):
        row, r = self._row(coefs, rhs)
        if row:
            self.eqs.append((row, r))
        elif r != 0:
            self.dead = True

    def solve(self, objective):
        """-> (status, value, {name: value})"""
        if self.dead:
            return "infeasible", None, None
        obj, const = self._row(objective, 0)
        st, val, x = minimise(len(self.idx), self.ineqs, self.eqs, obj)
        if st == "infeasible":
            return st, None, None
        vals = {v: x[j] + self.lb[v] for v, j in self.idx.items()}
        return st, (None if val is None else val - const), vals


def relaxed_optimum(names, cost, budget, ballots, W, kind, exhaustive, searched=False, faithful=False):
    """The optimum of the relaxation `kind` for the allocation W:
         minimise the relaxation's objective over (voter budget b, payments p, stability maxima m, beta …) subject to
         (C0a/C0b) W feasible (and exhaustive), (C1)–(C4) as in `price_system_exists`, m_i >= every payment of i and
         m_i >= b - spent_i, and the RELAXED stability condition for the unselected projects c:
               sum_{i approves c} m_i <= relaxed_cost(c),
         relaxed_cost(c) = cost(c)*beta (mul) | cost(c)+beta (add) | cost(c)+beta_c (vec, vecpos) | cost(c)+beta+beta_c (off),
         with the variable domains the relaxation class declares in `add_beta`:
               mul: beta >= 0;  add: beta >= -INF;  vec: beta_c = 0 for selected c, |beta_c| <= budget;  vecpos: beta_c >= 0;
               off: beta >= -INF, beta_c >= 0, sum_c beta_c <= budget/40           (INF = 10*budget)
         objective: beta (mul, add, off) | sum_c beta_c (vec, vecpos).
       `searched`: the guard b*n >= budget of the searched mode when exhaustiveness is not required.
       `faithful=True`: instead the constraint system `priceable(..., stable=True, relaxation=R)` hands to the solver with
       x fixed to the indicator of W (big-M terms on the selected projects, (C3) as two inequalities, the bounds tying beta_c
       to x_c) — transcribed from priceability.py / priceability_relaxation.py like `mip_model_feasible`.
       -> (status, value, witness) with witness = {"b":…, "pf": [dict per voter], "beta": scalar|None, "betav": {name: value}}"""
    assert kind in RELAX_KINDS
    Wset = set(W)
    W = [c for c in names if c in Wset]
    NW = [c for c in names if c not in Wset]
    n = len(ballots)
    INF = budget * 10
    x = {c: (1 if c in Wset else 0) for c in names}
    total = sum((cost[c] for c in W), F(0))
    if not total <= budget:
        return "infeasible", None, None
    if exhaustive:
        if faithful:
            if any(not total + cost[c] + x[c] * INF >= budget + 1 for c in names):
                return "infeasible", None, None
        elif not is_exhaustive_alloc(names, cost, budget, W):
            return "infeasible", None, None
    lp = _LP()
    lp.var("b")
    P = {}
    for i, bal in enumerate(ballots):
        for c in W:
            if c in bal:  # otherwise the payment is 0 by (C1) / (C4)
                P[(i, c)] = lp.var(("p", i, c))
    M = [lp.var(("m", i)) for i in range(n)]
    if (not exhaustive) and searched:
        lp.le({"b": -n}, -budget)
    for i in range(n):  # (C2)
        row = {P[(i, c)]: 1 for c in W if (i, c) in P}
        row["b"] = -1
        lp.le(row, 0)
    for c in names:  # (C3) / (C4)
        row = {P[(i, c)]: 1 for i in range(n) if (i, c) in P}
        if faithful:
            lp.le(dict(row), cost[c])
            lp.le({v: -1 for v in row}, -(cost[c] + (x[c] - 1) * INF))
            if x[c] == 1 and not cost[c] <= INF:
                for v in row:
                    lp.le({v: 1}, INF)
        elif c in Wset:
            lp.eq(row, cost[c])
    for i in range(n):  # m_i
        for c in W:
            if (i, c) in P:
                lp.le({P[(i, c)]: 1, M[i]: -1}, 0)
        row = {P[(i, c)]: -1 for c in W if (i, c) in P}
        row["b"] = 1
        row[M[i]] = -1
        lp.le(row, 0)
    # the relaxation's variables
    beta = None
    BV = {}
    if kind == "mul":
        beta = lp.var("beta")
    elif kind in ("add", "off"):
        beta = lp.var("beta", lb=-INF)
    if kind == "vec":
        for c in names:
            BV[c] = lp.var(("beta", c), lb=-INF)
            lp.le({BV[c]: 1}, (1 - x[c]) * budget)
            lp.le({BV[c]: -1}, -((x[c] - 1) * budget))
    elif kind in ("vecpos", "off"):
        for c in names:
            BV[c] = lp.var(("beta", c))
        if kind == "off":
            lp.le({BV[c]: 1 for c in names}, OFFSET_FRACTION * budget)
    # relaxed stability
    for c in (names if faithful else NW):
        row = {}
        for i, bal in enumerate(ballots):
            if c in bal:
                row[M[i]] = 1
        rhs = x[c] * INF if faithful else F(0)
        if kind == "mul":
            row[beta] = row.get(beta, 0) - cost[c]
        else:
            rhs += cost[c]
            if beta is not None:
                row[beta] = -1
            if c in BV:
                row[BV[c]] = -1
        lp.le(row, rhs)
    objective = {beta: 1} if kind in ("mul", "add", "off") else {BV[c]: 1 for c in names}
    st, val, vals = lp.solve(objective)
    if st != "optimal":
        return st, None, None
    pf = [{c: (vals[P[(i, c)]] if (i, c) in P else F(0)) for c in names} for i in range(n)]
    wit = {"b": vals["b"], "pf": pf, "beta": (vals[beta] if beta is not None else None),
           "betav": {c: vals[BV[c]] for c in BV}, "m": [vals[v] for v in M]}
    return st, val, wit


def relaxed_optimum_searched(names, cost, budget, ballots, kind, exhaustive, faithful=False):
    """the searched mode: the minimum over all allocations (the MIP chooses x as well) -> (value|None, [(W, value)])"""
    import itertools

    per = []
    for k in range(len(names) + 1):
        for W in itertools.combinations(names, k):
            st, val, _ = relaxed_optimum(names, cost, budget, ballots, list(W), kind, exhaustive, searched=True, faithful=faithful)
            if st == "optimal":
                per.append((sorted(W), val))
            elif st == "unbounded":
                raise OracleError("relaxed optimum unbounded")
    return (min(v for _, v in per) if per else None), per
