"""
solverbox — run library calls that go through the CBC MIP solver in a worker subprocess.

The bundled CBC build can abort the whole process (e.g. an all-zero constraint row) or return an answer
that is invalid for the model it was given.  A `SolverBox` owns one worker (`python -m harness.mipbox`)
that talks JSON lines over pipes; a worker that dies or hangs is replaced and the call is reported as a
fault.  Inside the worker `mip.Model.optimize` is *observed* (wrapped, not changed) so that every answer
carries the solver's own solution: status, the 0/1 values of the variables by name, and the objective
value.  The caller re-validates that solution exactly (`validate_knapsack`) to tell a solver fault
(solution infeasible / not optimal / not integral / status not OPTIMAL -> discard) from a library defect
(solver solution fine, value returned by the library wrong -> violation).

    box = SolverBox()
    st, res = box.call("max_cost", {"projects": [["a","1/3"],["b","1/3"]], "budget": "2/3"})
    # st == "ok": res = {"value": "2/3", "type": "mpq", "models": [ {status, x:{name:float}, objective} ]}
    # st == "err": res = {"err": "<enum>", "models": [...]}      (the library raised)
    # st == "fault": res = {"why": "crash rc=-6" | "timeout" | ...}
    box.close()

Jobs (all build real pabutools objects inside the worker from plain JSON):
  max_cost   {"projects": [[name, cost], …] (the list handed to the function), "budget": rat}
  sat        {"case": Case.to_json(), "multi": bool, "measure": str, "index": i, "queries": [[name,…],…]}
             -> `sat_answers`: {"proj": [rat per name], "sets": [rat per query], "proj2"/"sets2" (second, fresh
             object queried in the opposite order), "norm": {precomputed value name: rat}, "types": [...]};
             ballot i of the profile as the implementation enumerates it (`core.profile_entries`)
"""
from __future__ import annotations

import json
import os
import select
import subprocess
import sys
import time
from fractions import Fraction as F

from . import core

# ----------------------------------------------------------------------------------------------
# parent side


class SolverBox:
    def __init__(self, timeout=20.0, warm_spare=True):
        self.timeout = timeout
        self.warm_spare = warm_spare
        self.spare = None
        self.proc = None
        self.faults = 0
        self.calls = 0
        self.restarts = 0
        self._buf = b""

    def _spawn(self):
        env = dict(os.environ)
        env["PABU_REPO"] = core.REPO
        env["PYTHONPATH"] = core.REPO + os.pathsep + core.VERIF + os.pathsep + env.get("PYTHONPATH", "")
        return subprocess.Popen(
            [sys.executable, "-m", "harness.mipbox"],
            cwd=core.VERIF,
            env=env,
            stdin=subprocess.PIPE,
            stdout=subprocess.PIPE,
            stderr=subprocess.DEVNULL,
        )

    def _start(self):
        # a warm spare hides the start-up time (import of pabutools + mip) of the replacement after a crash
        self.proc = self.spare if self.spare is not None and self.spare.poll() is None else self._spawn()
        self.spare = self._spawn() if self.warm_spare else None
        self._buf = b""
        self.restarts += 1
        line = self._readline(60.0)
        if line is None or json.loads(line).get("hello") != 1:
            self._kill()
            raise core.DriverError("solverbox worker did not start")

    def _kill(self):
        if self.proc is not None:
            try:
                self.proc.kill()
                self.proc.wait(timeout=5)
            except Exception:  # noqa: BLE001
                pass
            for f in (self.proc.stdin, self.proc.stdout):
                try:
                    f.close()
                except Exception:  # noqa: BLE001
                    pass
        self.proc = None

    def _readline(self, timeout):
        """one line from the worker, None on EOF / timeout"""
        fd = self.proc.stdout.fileno()
        deadline = time.time() + timeout
        while b"\n" not in self._buf:
            left = deadline - time.time()
            if left <= 0:
                return None
            r, _, _ = select.select([fd], [], [], left)
            if not r:
                return None
            chunk = os.read(fd, 65536)
            if not chunk:
                return None
            self._buf += chunk
        line, self._buf = self._buf.split(b"\n", 1)
        return line.decode()

    def call(self, op, payload, timeout=None):
        """-> ("ok", result) | ("err", {"err": enum, …}) | ("fault", {"why": …})"""
        self.calls += 1
        if self.proc is None or self.proc.poll() is not None:
            self._kill()
            self._start()
        msg = json.dumps({"op": op, "payload": payload}) + "\n"
        try:
            self.proc.stdin.write(msg.encode())
            self.proc.stdin.flush()
        except (BrokenPipeError, OSError):
            self._kill()
            self.faults += 1
            return "fault", {"why": "worker pipe broken"}
        line = self._readline(self.timeout if timeout is None else timeout)
        if line is None:
            rc = self.proc.poll()
            why = "timeout" if rc is None else f"crash rc={rc}"
            if rc is None:
                # EOF without exit status yet: give it a moment
                try:
                    rc = self.proc.wait(timeout=0.5)
                    why = f"crash rc={rc}"
                except Exception:  # noqa: BLE001
                    pass
            self._kill()
            self.faults += 1
            return "fault", {"why": why}
        try:
            ans = json.loads(line)
        except ValueError:
            self._kill()
            self.faults += 1
            return "fault", {"why": "garbled answer"}
        if "err" in ans:
            return "err", ans
        return "ok", ans

    def close(self):
        if self.proc is not None:
            try:
                self.proc.stdin.close()
                self.proc.wait(timeout=5)
            except Exception:  # noqa: BLE001
                pass
            self._kill()
        if self.spare is not None:
            self.proc, self.spare = self.spare, None
            self._kill()

    def __enter__(self):
        return self

    def __exit__(self, *a):
        self.close()


# ----------------------------------------------------------------------------------------------
# exact re-validation of a recorded 0/1 knapsack solution (independent of the library)


def validate_knapsack(model_rec, weight, value, budget, optimum):
    """model_rec: {"status": str, "x": {name: float|None}}; weight/value: name -> Fraction for every variable of
    the model; `optimum`: brute-force optimum of Σ value over subsets with Σ weight ≤ budget.
    Returns None when the solver's solution is a valid optimal solution, otherwise a reason (solver fault)."""
    if model_rec.get("status") != "OPTIMAL":
        return "status " + str(model_rec.get("status"))
    xs = model_rec.get("x", {})
    if set(xs) != set(weight):
        return "variables of the model differ from the projects handed in"
    sel = []
    for name, x in xs.items():
        if x is None:
            return "variable without value"
        if abs(x) < 1e-6:
            continue
        if abs(x - 1) < 1e-6:
            sel.append(name)
        else:
            return f"non-integral value {x} for {name}"
    w = sum((weight[n] for n in sel), F(0))
    if w > budget:
        return f"solution weight {w} exceeds {budget}"
    v = sum((value[n] for n in sel), F(0))
    if v != optimum:
        return f"solution value {v} is not the optimum {optimum}"
    return None


# ----------------------------------------------------------------------------------------------
# worker side

_RECORDED = []


def _install_observer():
    import mip

    orig = mip.Model.optimize

    def optimize(self, *a, **k):
        st = None
        try:
            st = orig(self, *a, **k)
            return st
        finally:
            rec = {"status": getattr(st, "name", str(st)), "x": {}, "objective": None}
            try:
                for v in self.vars:
                    name = v.name[2:] if v.name.startswith("x_") else v.name
                    rec["x"][name] = None if v.x is None else float(v.x)
                ov = self.objective_value
                rec["objective"] = None if ov is None else float(ov)
            except Exception as e:  # noqa: BLE001
                rec["observer_error"] = repr(e)
            _RECORDED.append(rec)

    mip.Model.optimize = optimize


def _num(x):
    """(protocol string, type name) of a library return value; floats keep their exact binary value"""
    return core.q2s(x), type(x).__name__


def job_max_cost(p):
    from pabutools.election import Project
    from pabutools.election.instance import max_budget_allocation_cost

    projs = [Project(n, core.to_cost(F(c))) for n, c in p["projects"]]
    v = max_budget_allocation_cost(projs, core.to_cost(F(p["budget"])))
    s, t = _num(v)
    return {"value": s, "type": t}


def sat_answers(case, inst, prof, projs, measure, index, queries):
    """`sat_project` of every project (name order) and `sat` of every query list, on ballot `index` of the profile
    as the implementation enumerates it; a second, fresh object is queried in the opposite order (sets first,
    last query first, tuples instead of lists), so the memo cache is filled differently"""
    b = list(prof)[index]
    cls = core.sat_class(measure)
    types = set()

    def num(x):
        s, t = _num(x)
        types.add(t)
        return s

    s1 = cls(inst, prof, b)
    out = {"proj": [num(s1.sat_project(projs[n])) for n in case.names]}
    out["sets"] = [num(s1.sat([projs[n] for n in q])) for q in queries]
    s2 = cls(inst, prof, b)
    out["sets2"] = [num(s2.sat(tuple(projs[n] for n in q))) for q in reversed(queries)][::-1]
    out["proj2"] = [num(s2.sat_project(projs[n])) for n in reversed(case.names)][::-1]
    pre = getattr(s1, "precomputed_values", None) or {}
    out["norm"] = {k: _num(v)[0] for k, v in pre.items()}
    out["types"] = sorted(types)
    return out


def job_sat(p):
    case = core.Case.from_json(p["case"])
    inst, projs = core.build_instance(case)
    prof = core.build_profile(case, inst, projs, multi=bool(p.get("multi")))
    return sat_answers(case, inst, prof, projs, p["measure"], p["index"], p["queries"])


JOBS = {"max_cost": job_max_cost, "sat": job_sat}


def worker_main():
    # keep the protocol on a private descriptor: CBC writes to the C-level stdout
    proto = os.fdopen(os.dup(1), "w")
    devnull = os.open(os.devnull, os.O_WRONLY)
    os.dup2(devnull, 1)
    sys.stdout = open(os.devnull, "w")
    import pabutools.election  # noqa: F401

    _install_observer()
    proto.write(json.dumps({"hello": 1}) + "\n")
    proto.flush()
    for line in sys.stdin:
        line = line.strip()
        if not line:
            continue
        req = json.loads(line)
        del _RECORDED[:]
        try:
            ans = JOBS[req["op"]](req["payload"])
        except Exception as e:  # noqa: BLE001
            ans = {"err": core.err_enum(e), "msg": str(e)[:200]}
        ans["models"] = list(_RECORDED)
        proto.write(json.dumps(ans) + "\n")
        proto.flush()


if __name__ == "__main__":
    worker_main()
