"""
translate_state — regenerate lean/Gen/State.lean: the static footprint of *state that survives a call* in the library.

The properties C13 ("outcomes are a function of the election alone … calling twice gives the same answer") and C20
("the same objects can be reused and give the same answers as fresh copies") are about histories.  What makes an answer
depend on the history is state that outlives a call.  This translator reads every source file of `pabutools`
(visualisation excluded) with `ast` — nothing is imported or executed — and writes five tables:

  processState     (file, class or "", name)  a module-level or class-level name bound to a mutable container
                   (list/dict/set display or comprehension, or a call of dict/list/set/defaultdict/Counter/OrderedDict/
                   deque/bytearray); `__all__` is not listed
  globalStmts      (file, function, name)     `global` / `nonlocal`-free module state rebinding: every `global` statement
  memoDecorators   (file, function, decorator) decorators whose text contains `cache` (functools.cache, lru_cache,
                   cached_property, …)
  mutableDefaults  (file, function, parameter) parameters whose default value is a mutable container as above
  selfWrites       (file, class, method, attribute, kind) writes to an attribute of `self` / `cls` / the class itself
                   outside `__init__` / `__new__` / `__setstate__`: kind `assign` (`self.a = …`, `self.a += …`),
                   `subscript` (`self.a[k] = …`, `del self.a[k]`), `call:<method>` (a mutating method on `self.a…`),
                   `class-attr` (a store through the class name or `type(self)` / `self.__class__`)

`PabuProofs/Properties/StateFootprint.lean` proves (kernel `decide`) that the first four are empty and that the fifth is
exactly the reviewed list.  Anything new — a memo table on a profile, a class-level cache, an `lru_cache` — changes a
table, the theorem stops checking, and the owning checks (C13, C20) run their extended failing-input search.

What it cannot see: state kept in closures or in objects stored inside other objects under a local name, writes through
`setattr` / `__dict__` / `object.__setattr__` (listed under kind `setattr` when the target is `self`), C extensions.
Mutations of `self` itself by container subclasses (`self[k] = v`, `super().append(x)`) are the documented semantics of
the mutators (C16/C17), not hidden state, and are not listed.
"""
from __future__ import annotations

import ast
import glob
import os

MUT_CALLS = {"dict", "list", "set", "defaultdict", "Counter", "OrderedDict", "deque", "bytearray"}
MUTATING = {
    "append", "extend", "insert", "pop", "remove", "sort", "reverse", "clear", "update", "add", "discard", "setdefault", "popitem",
    "subtract", "difference_update", "intersection_update", "symmetric_difference_update", "__setitem__", "__delitem__",
}  # fmt: skip
CONSTRUCTORS = {"__init__", "__new__", "__setstate__"}


def source_files(repo):
    fs = sorted(glob.glob(os.path.join(repo, "pabutools/**/*.py"), recursive=True))
    return [f for f in fs if "visualisation" not in os.path.relpath(f, repo).split(os.sep)]


def is_mutable_value(v):
    if isinstance(v, (ast.Dict, ast.List, ast.Set, ast.ListComp, ast.DictComp, ast.SetComp)):
        return True
    if isinstance(v, ast.Call):
        f = v.func
        n = f.id if isinstance(f, ast.Name) else f.attr if isinstance(f, ast.Attribute) else None
        return n in MUT_CALLS
    return False


def _targets(node):
    if isinstance(node, ast.Assign):
        return node.targets
    if isinstance(node, (ast.AugAssign, ast.AnnAssign)):
        return [node.target]
    if isinstance(node, ast.Delete):
        return node.targets
    return []


def _names(t):
    for x in ast.walk(t):
        if isinstance(x, ast.Name):
            yield x.id


def _is_selfish(x, cls_name):
    """x is `self`, `cls`, the class name, `type(self)` or `self.__class__`; returns 'self' | 'class' | None"""
    if isinstance(x, ast.Name):
        if x.id in ("self",):
            return "self"
        if x.id in ("cls", cls_name):
            return "class"
    if isinstance(x, ast.Call) and isinstance(x.func, ast.Name) and x.func.id == "type" and len(x.args) == 1 and isinstance(x.args[0], ast.Name) and x.args[0].id == "self":
        return "class"
    if isinstance(x, ast.Attribute) and x.attr == "__class__" and isinstance(x.value, ast.Name) and x.value.id == "self":
        return "class"
    return None


def _root_attr(x, cls_name):
    """for self.a, self.a[k], self.a.b[k]… returns (attr, 'self'|'class', depth) where depth 0 means x is exactly <root>.attr"""
    depth = 0
    while isinstance(x, (ast.Subscript, ast.Attribute)):
        if isinstance(x, ast.Attribute):
            who = _is_selfish(x.value, cls_name)
            if who:
                return x.attr, who, depth
        x = x.value
        depth += 1
    return None


def scan(repo):
    process, globs, memos, defaults, selfw = [], [], [], [], []
    for path in source_files(repo):
        rel = os.path.relpath(path, repo)
        tree = ast.parse(open(path).read())
        # module level / class level bindings
        for node in tree.body:
            if isinstance(node, (ast.Assign, ast.AnnAssign)) and getattr(node, "value", None) is not None and is_mutable_value(node.value):
                for tg in _targets(node):
                    for n in _names(tg):
                        if n != "__all__":
                            process.append((rel, "", n))
        for cls in [n for n in ast.walk(tree) if isinstance(n, ast.ClassDef)]:
            for b in cls.body:
                if isinstance(b, (ast.Assign, ast.AnnAssign)) and getattr(b, "value", None) is not None and is_mutable_value(b.value):
                    for tg in _targets(b):
                        for n in _names(tg):
                            process.append((rel, cls.name, n))
        # functions: global statements, memo decorators, mutable defaults
        for fn in [n for n in ast.walk(tree) if isinstance(n, (ast.FunctionDef, ast.AsyncFunctionDef))]:
            for node in ast.walk(fn):
                if isinstance(node, ast.Global):
                    for n in node.names:
                        globs.append((rel, fn.name, n))
            for d in fn.decorator_list:
                s = ast.unparse(d)
                if "cache" in s.lower():
                    memos.append((rel, fn.name, s))
            a = fn.args
            pos = a.posonlyargs + a.args
            for arg, dv in zip(pos[len(pos) - len(a.defaults):], a.defaults):
                if is_mutable_value(dv):
                    defaults.append((rel, fn.name, arg.arg))
            for arg, dv in zip(a.kwonlyargs, a.kw_defaults):
                if dv is not None and is_mutable_value(dv):
                    defaults.append((rel, fn.name, arg.arg))
        # writes to attributes of self / the class outside constructors
        for cls in [n for n in ast.walk(tree) if isinstance(n, ast.ClassDef)]:
            for fn in [b for b in cls.body if isinstance(b, (ast.FunctionDef, ast.AsyncFunctionDef))]:
                ctor = fn.name in CONSTRUCTORS
                for node in ast.walk(fn):
                    for tg in _targets(node):
                        for x in ([tg] if not isinstance(tg, (ast.Tuple, ast.List)) else tg.elts):
                            r = _root_attr(x, cls.name)
                            if not r:
                                continue
                            attr, who, depth = r
                            if who == "class":
                                selfw.append((rel, cls.name, fn.name, attr, "class-attr"))
                            elif not ctor:
                                selfw.append((rel, cls.name, fn.name, attr, "assign" if depth == 0 else "subscript"))
                    if isinstance(node, ast.Call) and isinstance(node.func, ast.Attribute) and node.func.attr in MUTATING:
                        r = _root_attr(node.func.value, cls.name)
                        if r:
                            attr, who, _ = r
                            if who == "class":
                                selfw.append((rel, cls.name, fn.name, attr, "class-attr"))
                            elif not ctor:
                                selfw.append((rel, cls.name, fn.name, attr, "call:" + node.func.attr))
                    if isinstance(node, ast.Call) and not ctor:
                        f = node.func
                        nm = f.id if isinstance(f, ast.Name) else f.attr if isinstance(f, ast.Attribute) else None
                        if nm in ("setattr", "__setattr__") and node.args:
                            first = node.args[0]
                            if _is_selfish(first, cls.name):
                                key = node.args[1] if len(node.args) > 1 else None
                                selfw.append((rel, cls.name, fn.name, ast.unparse(key) if key is not None else "?", "setattr"))

    def uniq(xs):
        return sorted(set(xs))

    return {"processState": uniq(process), "globalStmts": uniq(globs), "memoDecorators": uniq(memos),
            "mutableDefaults": uniq(defaults), "selfWrites": uniq(selfw)}


def _s(x):
    return '"' + x.replace("\\", "\\\\").replace('"', '\\"') + '"'


def _tuple(t):
    return "(" + ", ".join(_s(x) for x in t) + ")"


def render(repo):
    t = scan(repo)
    out = ["/-", "  GENERATED by harness/translate_state.py - do not edit.",
           "  Static footprint of state that survives a call (see the docstring of the generator).", "-/",
           "namespace Pabu.Gen.State", ""]
    shapes = {"processState": "String × String × String", "globalStmts": "String × String × String",
              "memoDecorators": "String × String × String", "mutableDefaults": "String × String × String",
              "selfWrites": "String × String × String × String × String"}
    for k in ("processState", "globalStmts", "memoDecorators", "mutableDefaults", "selfWrites"):
        rows = t[k]
        if rows:
            out.append(f"def {k} : List ({shapes[k]}) := [")
            out.append(",\n".join("  " + _tuple(r) for r in rows))
            out.append("]")
        else:
            out.append(f"def {k} : List ({shapes[k]}) := []")
        out.append("")
    out.append("end Pabu.Gen.State")
    return "\n".join(out) + "\n"


def regenerate(repo, lean_dir):
    from .translate_containers import write_if_changed

    return write_if_changed(os.path.join(lean_dir, "Gen", "State.lean"), render(repo))


if __name__ == "__main__":
    import json
    import sys

    print(json.dumps(scan(sys.argv[1] if len(sys.argv) > 1 else os.environ.get("PABU_REPO", "/repo")), indent=1))
