"""
Common loop of the rule properties: generate (case, cfg), run the implementation, evaluate the
property predicate on its output, send the same configuration to the Lean model, diff.
"""
from __future__ import annotations

import json
from fractions import Fraction as F

from . import core, rulegen, rules
from .core import Case


def cfg_json(cfg):
    out = {}
    for k, v in cfg.items():
        if isinstance(v, F):
            out[k] = core.q2s(v)
        elif isinstance(v, list) and v and isinstance(v[0], F):
            out[k] = [core.q2s(x) for x in v]
        else:
            out[k] = v
    return out


def cfg_from_json(d):
    out = dict(d)
    for k in ("inc", "step", "bound"):
        if out.get(k) is not None:
            out[k] = F(out[k])
    for k in ("loads", "loads_per_voter", "loads_expanded"):
        if out.get(k) is not None:
            out[k] = [F(x) for x in out[k]]
    return out


def violation(what, case: Case, cfg, impl=None, expected=None, sig=None, **kw):
    v = {
        "what": what,
        "case": case.to_json(),
        "cfg": cfg_json(cfg),
        "impl": impl,
        "expected": expected,
        "sig": sig or {},
    }
    v.update(kw)
    return v


SP_KEYS = ("sp_sat", "sp_voters", "sp_only")


def effective(case: Case, cfg):
    """the election a call is about.  The rules document: "If a satisfaction profile is provided, the satisfaction
    argument is disregarded".  So when the caller hands over its own satisfaction profile (cfg["sp_sat"]: its measure,
    cfg["sp_voters"]: the voters it holds, None = all), satisfactions, supporters and welfare are those of that object,
    whatever sat_class names and whoever else is in the profile argument.  -> (case, cfg) to evaluate the definition on;
    the tie-breaking rule still sees the profile argument (callers keep the original case for that)"""
    if not cfg.get("sp_sat"):
        return case, cfg
    voters = cfg.get("sp_voters")
    ballots = case.ballots if voters is None else [case.ballots[i] for i in voters]
    case_eff = Case(case.projects, case.budget, case.btype, ballots, case.seed, **case.cfg)
    cfg_eff = {k: v for k, v in cfg.items() if k not in SP_KEYS}
    cfg_eff["sat"] = cfg["sp_sat"]
    return case_eff, cfg_eff


def well_formed(case: Case, cfg):
    """is (case, cfg) an input at all?  Shrinking drops voters and projects of the case but leaves the configuration alone:
    an initial allocation naming a dropped project, or voter indices beyond the remaining voters, make a call that fails
    in the harness — not an input of the property (replays answer "holds" for those, so that the shrinker refuses the step)"""
    names = set(case.names)
    if any(n not in names for n in (cfg.get("init") or [])):
        return False
    if any(not (0 <= i < len(case.ballots)) for i in (cfg.get("sp_voters") or [])):
        return False
    return True


NOT_AN_INPUT = "not a well-formed input (initial allocation or voter indices outside the election): nothing to check"


class Item:
    def __init__(self, case, cfg, built, ans, raw, line):
        self.case, self.cfg, self.built, self.ans, self.raw, self.line = case, cfg, built, ans, raw, line


def run_items(ctx, pairs, predicate, nontrivial=None, compare=True, model_override=None, keep=True):
    """pairs: iterable of (case, cfg).  predicate(item) -> list of violation dicts.
    nontrivial(item) -> bool.  keep=False (high-volume predicate-only streams): the items are not retained."""
    items = []
    for case, cfg in pairs:
        if ctx.budget_s is not None and ctx.elapsed() > ctx.budget_s:
            break
        built = rules.Built(case, multi=cfg.get("multi", False), order=cfg.get("order"))
        rulegen.fix_loads(cfg, built)
        ans, raw = rules.impl_answer(built, cfg)
        line = rules.model_line(built, cfg) if compare else None
        it = Item(case, cfg, built, ans, raw, line)
        ctx.evaluations += 1
        ctx.count("rule", cfg["rule"])
        if cfg.get("sat"):
            ctx.count("sat", cfg["sat"])
        ctx.count("tie", cfg.get("tie", "lexico"))
        ctx.count("multi", str(bool(cfg.get("multi"))))
        ctx.count("resolute", str(bool(cfg.get("res", True))))
        ctx.count("btype", case.btype)
        ctx.count("m", str(len(case.projects)))
        if ans[0] == "err":
            ctx.count("impl_errors", ans[1])
        for v in predicate(it):
            ctx.violations.append(v)
        if nontrivial is None or nontrivial(it):
            ctx.nontrivial.add(case.key() + json.dumps(cfg_json(cfg), sort_keys=True))
        if keep or compare:
            items.append(it)
    if compare:
        lines = [it.line for it in items]
        outs = core.run_driver(lines)
        for it, out in zip(items, outs):
            impl_s = rules.canon(it.ans).strip()
            model_s = out.strip()
            if it.cfg["rule"] == "maxw" and it.cfg.get("algo", "pd") == "pd" and model_s.startswith("ok"):
                # the model also reports the welfare value; the set is compared here, the value by the predicate
                parts = model_s.split(" ")
                it.model_value = parts[-1]
                model_s = " ".join(parts[:-1]).strip()
            if model_override is not None:
                impl_s, model_s = model_override(it, impl_s, model_s)
            it.model = model_s
            if impl_s != model_s:
                ctx.disagreements.append(
                    {"line": it.line, "impl": impl_s, "model": model_s, "case": it.case.to_json(), "cfg": cfg_json(it.cfg)}
                )
            ctx.sample(f"{it.line} -> impl: {impl_s} | model: {model_s}")
    return items
