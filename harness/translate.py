"""
translate — the regenerated leaf layer (DESIGN §2, tie "T").

On every check run the leaf formulas of the library (per-project satisfaction values, fit / affordability /
stop tests, price and load formulas, tie-breaking keys, statistics updates, default parameters) are re-read
from the CURRENT source text of /repo with `ast`, rendered as Lean definitions into lean/Gen/<Prop>.lean, and
hand-written bridge theorems (lean/PabuProofs/Bridge/<Prop>.lean) re-prove that each of them is the formula the
model uses.  If the source changes, the regenerated definition changes and the bridge theorem stops checking.

The translator handles a small expression subset: names, integer constants, + - * / and unary minus,
comparisons, and/or/not, conditional expressions, `frac(a, b)`, `min/max`, `round(x, k)` (the rounding function then is a
parameter of the leaf), and function bodies made of
`if …: return …` / `return …` / simple assignments; of an assignment whose value is a comprehension or
`sum(generator)` the element expression can be taken (`assign(…, elt=True)`), and a module-level integer
constant can be read (`const`).  Sub-expressions that stand for model quantities
(`int(project in ballot)`, `project.cost`, `supporter.budget`, …) are replaced by parameters through a
per-leaf table of source snippets.  Anything else raises TranslationError: the leaf is then rendered as an
unusable placeholder, so that its bridge theorem fails and the obligation is reported as broken.
"""
from __future__ import annotations

import ast
import os
import re

from . import core

GEN_DIR = os.path.join(core.LEAN_DIR, "Gen")


class TranslationError(Exception):
    pass


def _norm(src: str) -> str:
    return ast.unparse(ast.parse(src, mode="eval").body)


def _norm_stmt(src: str) -> str:
    return ast.unparse(ast.parse(src))


class Tr:
    def __init__(self, env, bools=()):
        # env: python snippet -> lean term; bools: lean names that are Bool-valued
        self.env = {_norm(k): v for k, v in env.items()}
        self.bools = set(bools)
        # python targets holding an optional number: "none" = Python's None (a comparison with it is never true),
        # "inf" = `float("inf")` is rendered as `none` (everything is below it).  Used by the loop translator.
        self.kinds = {}
        # python callables that stand for a function parameter of the leaf: source text of the callee -> Lean function name
        self.funcs = {}

    # expressions -------------------------------------------------------------------------
    def expr(self, n) -> str:
        key = ast.unparse(n)
        if key in self.env:
            return self.env[key]
        if isinstance(n, ast.Constant):
            if isinstance(n.value, bool):
                return "true" if n.value else "false"
            if isinstance(n.value, int):
                return f"({n.value} : Rat)"
            raise TranslationError(f"constant {n.value!r}")
        if isinstance(n, ast.Name):
            raise TranslationError(f"unbound name {n.id}")
        if isinstance(n, ast.BinOp):
            op = {ast.Add: "+", ast.Sub: "-", ast.Mult: "*", ast.Div: "/"}.get(type(n.op))
            if op is None:
                raise TranslationError(f"operator {type(n.op).__name__}")
            return f"({self.expr(n.left)} {op} {self.expr(n.right)})"
        if isinstance(n, ast.UnaryOp):
            if isinstance(n.op, ast.USub):
                return f"(-{self.expr(n.operand)})"
            if isinstance(n.op, ast.Not):
                return f"(!{self.cond(n.operand)})"
            raise TranslationError("unary operator")
        if isinstance(n, ast.Call) and ast.unparse(n.func) in self.funcs and not n.keywords:
            return "(" + " ".join([self.funcs[ast.unparse(n.func)]] + [self.expr(a) for a in n.args]) + ")"
        if isinstance(n, ast.Call):
            f = ast.unparse(n.func)
            if f == "frac" and len(n.args) == 2:
                return f"({self.expr(n.args[0])} / {self.expr(n.args[1])})"
            if f == "frac" and len(n.args) == 1:
                return self.expr(n.args[0])
            if f in ("min", "max") and len(n.args) == 2:
                return f"({f} {self.expr(n.args[0])} {self.expr(n.args[1])})"
            if f == "float" and len(n.args) == 1 and isinstance(n.args[0], ast.Constant) and n.args[0].value == "inf":
                return "none"  # +infinity of an optional number (`kinds`: "inf")
            if f == "float" and len(n.args) == 1:
                return self.expr(n.args[0])
            if f == "round" and len(n.args) == 2 and not n.keywords and "round" in self.env:
                # `round(x, ndigits)`: the rounding function is a parameter of the leaf (a function `Rat → Rat → Rat`),
                # applied to the translated arguments in the source's order
                return f"({self.env['round']} {self.expr(n.args[0])} {self.expr(n.args[1])})"
            raise TranslationError(f"call {f}")
        if isinstance(n, ast.List):
            return "[" + ", ".join(self.expr(e) for e in n.elts) + "]"
        if isinstance(n, ast.Tuple) and len(n.elts) >= 2:
            return "(" + ", ".join(self.expr(e) for e in n.elts) + ")"  # a Lean tuple: the arity and the order are part of the leaf
        if isinstance(n, ast.IfExp):
            return f"(if {self.cond(n.test)} then {self.expr(n.body)} else {self.expr(n.orelse)})"
        if isinstance(n, (ast.Compare, ast.BoolOp)):
            return self.cond(n)
        raise TranslationError(f"expression {type(n).__name__}: {key}")

    def cond(self, n) -> str:
        """a Bool-valued Lean term"""
        key = ast.unparse(n)
        if key in self.env:
            v = self.env[key]
            if v in self.bools:
                return v
            return f"(decide ({v} ≠ 0))"  # truthiness of a number
        if isinstance(n, ast.Call) and ast.unparse(n.func) in ("any", "all") and len(n.args) == 1 and not n.keywords \
                and isinstance(n.args[0], ast.GeneratorExp) and len(n.args[0].generators) == 1 and not n.args[0].generators[0].ifs \
                and isinstance(n.args[0].generators[0].target, ast.Name):
            g = n.args[0].generators[0]
            var = g.target.id
            sub = Tr({}, self.bools)
            sub.env, sub.kinds, sub.funcs = dict(self.env), dict(self.kinds), dict(self.funcs)
            sub.env[var] = var
            return f"(({self.expr(g.iter)}).{ast.unparse(n.func)} (fun {var} => {sub.cond(n.args[0].elt)}))"
        if isinstance(n, ast.Call) and ast.unparse(n.func) in self.funcs and not n.keywords:
            return self.expr(n)  # a Bool-valued function parameter
        if isinstance(n, ast.Compare) and len(n.ops) == 1 and self.kinds:
            left, right = n.left, n.comparators[0]
            if isinstance(n.ops[0], ast.Is) and isinstance(right, ast.Constant) and right.value is None \
                    and self.kinds.get(ast.unparse(left)) == "none":
                return f"({self.expr(left)}).isNone"
            if isinstance(n.ops[0], ast.Is) and isinstance(right, ast.Constant) and right.value is None \
                    and self.kinds.get(ast.unparse(left)) == "none-inf":
                return f"({self.expr(left)}).isNone"
            kind = self.kinds.get(ast.unparse(right))
            lkind = self.kinds.get(ast.unparse(left))
            if kind == "none-inf" and lkind == "inf":
                # a possibly infinite number against a running extremum that is None before the first element
                fn = {ast.Lt: "ltOptE", ast.Eq: "eqOptE"}.get(type(n.ops[0]))
                if fn is None:
                    raise TranslationError("comparison with an optional extremum")
                return f"({fn} {self.expr(left)} {self.expr(right)})"
            if lkind == "none-inf" and kind == "inf" and isinstance(n.ops[0], ast.Eq):
                return f"(eqOptE {self.expr(right)} {self.expr(left)})"  # `==` is symmetric
            if kind in ("none", "inf") and lkind is None:
                fn = {"none": {ast.Lt: "ltOpt", ast.Gt: "gtOpt", ast.Eq: "eqOpt"},
                      "inf": {ast.Lt: "ltInf", ast.Gt: "gtInf", ast.Eq: "eqInf"}}[kind].get(type(n.ops[0]))
                if fn is None:
                    raise TranslationError(f"comparison {type(n.ops[0]).__name__} with an optional number")
                return f"({fn} {self.expr(left)} {self.expr(right)})"
        if isinstance(n, ast.Compare):
            if len(n.ops) != 1:
                raise TranslationError("chained comparison")
            op = {ast.LtE: "≤", ast.Lt: "<", ast.GtE: "≥", ast.Gt: ">", ast.Eq: "=", ast.NotEq: "≠"}.get(type(n.ops[0]))
            if op is None:
                raise TranslationError(f"comparison {type(n.ops[0]).__name__}")
            return f"(decide ({self.expr(n.left)} {op} {self.expr(n.comparators[0])}))"
        if isinstance(n, ast.BoolOp):
            op = "&&" if isinstance(n.op, ast.And) else "||"
            return "(" + f" {op} ".join(self.cond(v) for v in n.values) + ")"
        if isinstance(n, ast.UnaryOp) and isinstance(n.op, ast.Not):
            return f"(!{self.cond(n.operand)})"
        if isinstance(n, ast.Call) and isinstance(n.func, ast.Attribute) and len(n.args) == 1 and not n.keywords:
            # explicit comparison methods: `a.__lt__(b)` is `a < b`
            op = {"__lt__": "<", "__le__": "≤", "__gt__": ">", "__ge__": "≥", "__eq__": "=", "__ne__": "≠"}.get(n.func.attr)
            if op is not None:
                return f"(decide ({self.expr(n.func.value)} {op} {self.expr(n.args[0])}))"
        if isinstance(n, ast.Constant) and isinstance(n.value, bool):
            return "true" if n.value else "false"
        raise TranslationError(f"condition {key}")

    # statement lists -> one expression ------------------------------------------------------
    def body(self, stmts, ret_bool=False) -> str:
        stmts = [s for s in stmts if not (isinstance(s, ast.Expr) and isinstance(s.value, ast.Constant))]  # docstrings
        if not stmts:
            raise TranslationError("function falls off its end")
        s, rest = stmts[0], stmts[1:]
        if isinstance(s, ast.Return):
            return (self.cond if ret_bool else self.expr)(s.value)
        if isinstance(s, ast.If):
            then = self.body(s.body, ret_bool)
            if s.orelse:
                other = self.body(s.orelse + rest if not _returns(s.orelse) else s.orelse, ret_bool)
            else:
                other = self.body(rest, ret_bool)
            return f"(if {self.cond(s.test)} then {then} else {other})"
        if isinstance(s, ast.Assign) and len(s.targets) == 1 and isinstance(s.targets[0], ast.Name):
            name = s.targets[0].id
            val = self.expr(s.value)
            sub = Tr({}, self.bools)
            sub.env = dict(self.env)
            sub.env[name] = val
            return sub.body(rest, ret_bool)
        raise TranslationError(f"statement {type(s).__name__}")


def _returns(stmts):
    return bool(stmts) and isinstance(stmts[-1], ast.Return)


# ----------------------------------------------------------------------------------------------
# locating code


TOUCHED = []  # (relpath, first line, last line) of every source node a leaf was rendered from (tools/leafcoverage.py)


class Src:
    def __init__(self, relpath):
        self.rel = relpath
        self.path = os.path.join(core.REPO, relpath)
        self.tree = ast.parse(open(self.path).read())

    def touch(self, node):
        TOUCHED.append((self.rel, node.lineno, getattr(node, "end_lineno", node.lineno)))
        return node

    def func(self, qual):
        """function by dotted name: 'Class.method', 'outer.inner', 'f'"""
        node = self.tree
        for part in qual.split("."):
            found = None
            for n in ast.walk(node):
                if isinstance(n, (ast.FunctionDef, ast.ClassDef)) and n.name == part and n is not node:
                    found = n
                    break
            if found is None:
                raise TranslationError(f"no definition {qual} in {self.path}")
            node = found
        return node

    def assign(self, qual, target, k=0):
        """value of the k-th assignment (incl. augmented) to `target` inside function `qual`"""
        f = self.func(qual)
        hits = []
        for n in ast.walk(f):
            if isinstance(n, ast.Assign) and len(n.targets) == 1 and ast.unparse(n.targets[0]) == target:
                hits.append(("=", n.value))
            if isinstance(n, ast.AnnAssign) and n.value is not None and ast.unparse(n.target) == target:
                hits.append(("=", n.value))
            if isinstance(n, ast.AugAssign) and ast.unparse(n.target) == target:
                hits.append((type(n.op).__name__, n.value))
        if len(hits) <= k:
            raise TranslationError(f"no assignment #{k} to {target} in {qual}")
        self.touch(hits[k][1])
        return hits[k]

    def test(self, qual, contains, k=0):
        """test expression of the k-th if/while/ifexp/comprehension-if in `qual` whose source contains `contains`"""
        f = self.func(qual)
        hits = []
        for n in ast.walk(f):
            if isinstance(n, (ast.If, ast.While, ast.IfExp)) and contains in ast.unparse(n.test):
                hits.append(n.test)
            if isinstance(n, ast.comprehension):
                for c in n.ifs:
                    if contains in ast.unparse(c):
                        hits.append(c)
        if len(hits) <= k:
            raise TranslationError(f"no test containing {contains!r} (#{k}) in {qual}")
        return self.touch(hits[k])

    def expr_containing(self, qual, contains, k=0, kind=ast.Call):
        f = self.func(qual)
        hits = [n for n in ast.walk(f) if isinstance(n, kind) and contains in ast.unparse(n)]
        # smallest enclosing node first
        hits.sort(key=lambda n: len(ast.unparse(n)))
        if len(hits) <= k:
            raise TranslationError(f"no expression containing {contains!r} in {qual}")
        return self.touch(hits[k])

    def returns(self, qual):
        """values of the `return` statements of function `qual`, in source order (nested functions excluded)"""
        f = self.func(qual)
        out = []

        def walk(node):
            for ch in ast.iter_child_nodes(node):
                if isinstance(ch, (ast.FunctionDef, ast.Lambda, ast.ClassDef)):
                    continue
                if isinstance(ch, ast.Return) and ch.value is not None:
                    out.append(ch.value)
                walk(ch)
        walk(f)
        return out

    def module_lambda(self, var):
        for n in self.tree.body:
            if isinstance(n, ast.Assign) and ast.unparse(n.targets[0]) == var:
                for m in ast.walk(n.value):
                    if isinstance(m, ast.Lambda):
                        return self.touch(m.body)
        raise TranslationError(f"no lambda assigned to {var}")

    def module_const(self, var):
        for n in self.tree.body:
            if isinstance(n, ast.Assign) and ast.unparse(n.targets[0]) == var:
                return self.touch(n.value)
        raise TranslationError(f"no constant {var}")


# ----------------------------------------------------------------------------------------------
# the leaf table: (property, lean name, params, return type, producer)

SAT = "pabutools/election/satisfaction/additivesatisfaction.py"
POS = "pabutools/election/satisfaction/positionalsatisfaction.py"
INST = "pabutools/election/instance.py"
MES = "pabutools/rules/mes/mes_rule.py"
GRE = "pabutools/rules/greedywelfare/greedywelfare_rule.py"
PHR = "pabutools/rules/phragmen.py"
MAXW = "pabutools/rules/maxwelfare.py"
EXH = "pabutools/rules/exhaustion.py"
TIE = "pabutools/tiebreaking.py"
UTL = "pabutools/utils.py"
VSAT = "pabutools/analysis/votersatisfaction.py"
COH = "pabutools/analysis/cohesiveness.py"
JRP = "pabutools/analysis/justifiedrepresentation.py"
PRI = "pabutools/analysis/priceability.py"
COMP = "pabutools/rules/composition.py"
APR = "pabutools/election/profile/approvalprofile.py"
SATM = "pabutools/election/satisfaction/satisfactionmeasure.py"
SATP = "pabutools/election/satisfaction/satisfactionprofile.py"
PROF = "pabutools/election/profile/profile.py"
APB = "pabutools/election/ballot/approvalballot.py"
CDB = "pabutools/election/ballot/cardinalballot.py"
ODB = "pabutools/election/ballot/ordinalballot.py"

IN_B = {"int(project in ballot)": "inB", "project.cost": "cost"}


def whole(path, qual, env, bools=(), ret_bool=False):
    def go():
        src = Src(path)
        f = src.func(qual)
        for st in f.body:
            src.touch(st)
        return Tr(env, bools).body(f.body, ret_bool)
    return go


def assign(path, qual, target, env, k=0, bools=(), augment=None, elt=False):
    """`elt=True`: the assigned value is a comprehension / `sum(generator)`; translate its element expression"""

    def go():
        op, val = Src(path).assign(qual, target, k)
        if elt:
            if isinstance(val, ast.Call) and ast.unparse(val.func) == "sum" and len(val.args) == 1 and not val.keywords:
                val = val.args[0]
            if not isinstance(val, (ast.ListComp, ast.GeneratorExp, ast.SetComp)):
                raise TranslationError(f"assignment #{k} to {target} in {qual} is not a comprehension")
            val = val.elt
        t = Tr(env, bools).expr(val)
        if op == "=":
            return t
        cur = env.get(target)
        if cur is None:
            raise TranslationError(f"augmented assignment to {target} without a parameter for it")
        sym = {"Add": "+", "Sub": "-", "Mult": "*", "Div": "/"}[op]
        return f"({cur} {sym} {t})"
    return go


def test(path, qual, contains, env, k=0, bools=()):
    def go():
        return Tr(env, bools).cond(Src(path).test(qual, contains, k))
    return go


def ret(path, qual, k, env, n_returns=None, bools=()):
    """the value of the k-th `return` of `qual` as a condition; `n_returns`: the function must have exactly that many"""

    def go():
        src = Src(path)
        rs = src.returns(qual)
        if n_returns is not None and len(rs) != n_returns:
            raise TranslationError(f"{qual} has {len(rs)} return statements, {n_returns} expected")
        if len(rs) <= k:
            raise TranslationError(f"no return #{k} in {qual}")
        return Tr(env, bools).cond(src.touch(rs[k]))
    return go


def retexpr(path, qual, k, env, n_returns=None, bools=()):
    """the value of the k-th `return` of `qual` as an expression; `n_returns`: the function must have exactly that many"""

    def go():
        src = Src(path)
        rs = src.returns(qual)
        if n_returns is not None and len(rs) != n_returns:
            raise TranslationError(f"{qual} has {len(rs)} return statements, {n_returns} expected")
        if len(rs) <= k:
            raise TranslationError(f"no return #{k} in {qual}")
        return Tr(env, bools).expr(src.touch(rs[k]))
    return go


def lam(path, var, env):
    def go():
        return Tr(env).expr(Src(path).module_lambda(var))
    return go


def const(path, var):
    """a module-level integer constant"""

    def go():
        return Tr({}).expr(Src(path).module_const(var))
    return go


def exprc(path, qual, contains, env, k=0, bools=(), kind=ast.Call):
    def go():
        return Tr(env, bools).expr(Src(path).expr_containing(qual, contains, k, kind))
    return go


class RawDef:
    """a producer's result that is a complete Lean definition (rendered verbatim)"""

    def __init__(self, text):
        self.text = text


class _LoopTr:
    """
    One `for` loop of the library as a structurally recursive Lean function (statement-level leaf).

        def NAME params : T1 → … → Tn → List Elem → R
          | v1, …, vn, [] => END
          | v1, …, vn, x :: xs => BODY

    The state variables v1 … vn are the Python targets the loop body assigns (names, attributes, `l.append(e)` on a list).
    BODY is the loop body in continuation form: every path through it ends in the recursive call on `xs` with the updated state
    (end of the body, `continue`), in the tuple of the current state (`break`), or in `some e` (`return e`; the loop then answers
    `Option`-wrapped: `none` = ran to the end).  Blocks guarded by one of the `skip` tests (`verbose`, `analytics`) are left out
    after checking that they assign no state variable and contain no `break` / `continue` / `return`; anything else the subset
    does not cover raises TranslationError.
    """

    def __init__(self, name, params, state, elem_var, env, bools, skip, ret, wraps, kinds=None):
        self.name, self.params = name, params
        self.kinds = kinds or {}
        self.state = state                      # [(python target text, lean variable, lean type)]
        self.targets = {_norm(py): lv for py, lv, _ in state}
        self.elem_var = elem_var
        self.env, self.bools, self.skip, self.ret = env, bools, set(skip), ret
        self.wraps = wraps or {}                # python target -> format applied to an assigned value (e.g. "(some {})")
        self.inner_vars = ()                    # loop variables of inner `for y in ys: if c: return e` loops this leaf allows

    def tr(self, local):
        t = Tr({}, self.bools)
        t.env = {_norm(k): v for k, v in self.env.items()}
        t.env.update(local)
        t.kinds = dict(self.kinds)
        return t

    def tuple_of(self, cur):
        vals = [cur[_norm(py)] for py, _, _ in self.state]
        if self.ret is not None:
            vals = ["none"] + vals
        return vals[0] if len(vals) == 1 else "(" + ", ".join(vals) + ")"

    def ret_tuple(self, cur, value):
        vals = [f"(some {value})"] + [cur[_norm(py)] for py, _, _ in self.state]
        return vals[0] if len(vals) == 1 else "(" + ", ".join(vals) + ")"

    def recurse(self, cur):
        args = " ".join(f"({cur[_norm(py)]})" if " " in cur[_norm(py)] else cur[_norm(py)] for py, _, _ in self.state)
        call = f"{self.name} {self.param_names} {args} xs" if self.param_names else f"{self.name} {args} xs"
        return "(" + " ".join(call.split()) + ")"

    def check_skipped(self, stmts):
        for st in stmts:
            for n in ast.walk(st):
                if isinstance(n, (ast.Break, ast.Continue, ast.Return)):
                    raise TranslationError("control flow inside a skipped (reporting-only) block")
                tgt = None
                if isinstance(n, ast.Assign):
                    tgt = [ast.unparse(t) for t in n.targets]
                if isinstance(n, (ast.AugAssign, ast.AnnAssign)):
                    tgt = [ast.unparse(n.target)]
                if isinstance(n, ast.Call) and isinstance(n.func, ast.Attribute) and n.func.attr in (
                        "append", "extend", "remove", "pop", "clear", "add", "discard", "update", "insert", "sort"):
                    tgt = [ast.unparse(n.func.value)]
                for t in tgt or []:
                    if _norm(t) in self.targets or t == self.elem_var:
                        raise TranslationError(f"a skipped (reporting-only) block writes the loop state {t}")

    def seq(self, stmts, cur, local):
        """continuation form of a statement list; `cur`: state target -> current term; `local`: local name -> term"""
        stmts = [x for x in stmts if not (isinstance(x, ast.Expr) and isinstance(x.value, ast.Constant))]
        if not stmts:
            return self.recurse(cur)
        st, rest = stmts[0], stmts[1:]
        env_now = {**local, **{k: v for k, v in cur.items()}}
        t = self.tr(env_now)
        if isinstance(st, ast.Break):
            return self.tuple_of(cur)
        if isinstance(st, ast.Continue):
            return self.recurse(cur)
        if isinstance(st, ast.Return):
            if self.ret is None or st.value is None:
                raise TranslationError("return inside a loop that is not declared to return")
            return self.ret_tuple(cur, (t.cond if self.ret == "Bool" else t.expr)(st.value))
        if isinstance(st, ast.If):
            test_src = _norm(ast.unparse(st.test))
            if test_src in self.skip:
                self.check_skipped(st.body + st.orelse)
                return self.seq(rest, cur, local)
            c = t.cond(st.test)
            return f"(if {c} then {self.seq(st.body + rest, dict(cur), dict(local))} else {self.seq(st.orelse + rest, dict(cur), dict(local))})"
        if isinstance(st, ast.For):
            # an inner loop whose whole body is `if c: return e` (no state): "some element of the inner collection meets c".
            # The inner collection and the test are given through `env` as terms over `x` (the outer element) and `y` (the inner one).
            b = st.body
            if st.orelse or len(b) != 1 or not isinstance(b[0], ast.If) or b[0].orelse or len(b[0].body) != 1 \
                    or not isinstance(b[0].body[0], ast.Return) or b[0].body[0].value is None or self.ret is None:
                raise TranslationError("inner loop outside the subset (only `for y in ys: if c: return e`)")
            if ast.unparse(st.target) not in self.inner_vars:
                raise TranslationError(f"inner loop variable {ast.unparse(st.target)} not declared for this leaf")
            it = t.expr(st.iter)
            c = t.cond(b[0].test)
            val = (t.cond if self.ret == "Bool" else t.expr)(b[0].body[0].value)
            return f"(if ({it}).any (fun y => {c}) then {self.ret_tuple(cur, val)} else {self.seq(rest, cur, local)})"
        if isinstance(st, ast.Raise):
            raise TranslationError("raise inside a translated loop")
        target = value = op = None
        if isinstance(st, ast.Assign) and len(st.targets) == 1:
            target, value, op = ast.unparse(st.targets[0]), st.value, "="
        elif isinstance(st, ast.AnnAssign) and st.value is not None:
            target, value, op = ast.unparse(st.target), st.value, "="
        elif isinstance(st, ast.AugAssign):
            target, value = ast.unparse(st.target), st.value
            op = {ast.Add: "+", ast.Sub: "-", ast.Mult: "*", ast.Div: "/"}.get(type(st.op))
            if op is None:
                raise TranslationError("augmented operator")
        elif isinstance(st, ast.Expr) and isinstance(st.value, ast.Call) and isinstance(st.value.func, ast.Attribute) \
                and st.value.func.attr == "append" and len(st.value.args) == 1 and not st.value.keywords:
            target = ast.unparse(st.value.func.value)
            if _norm(target) not in self.targets:
                raise TranslationError(f"append to {target}, which is not a state variable of the loop")
            new = f"({cur[_norm(target)]} ++ [{t.expr(st.value.args[0])}])"
            cur = dict(cur)
            cur[_norm(target)] = new
            return self.seq(rest, cur, local)
        if target is None:
            raise TranslationError(f"statement {type(st).__name__}: {ast.unparse(st)[:60]}")
        key = _norm(target)
        if key in self.targets:
            v = t.expr(value)
            if op != "=":
                v = f"({cur[key]} {op} {v})"
            elif key in self.wraps:
                v = self.wraps[key].format(v)
            cur = dict(cur)
            cur[key] = v
            return self.seq(rest, cur, local)
        if isinstance(st, (ast.Assign, ast.AnnAssign)) and re.fullmatch(r"[A-Za-z_][A-Za-z_0-9]*", target):
            local = dict(local)
            v = t.expr(value)
            if key in self.wraps and v != "none":
                v = self.wraps[key].format(v)
            local[target] = v
            return self.seq(rest, cur, local)
        raise TranslationError(f"assignment to {target}, which is neither a state variable of the loop nor a local name")

    def render(self, body):
        self.param_names = " ".join(re.findall(r"\((\w[\w ]*?) :", self.params)) if self.params else ""
        cur0 = {_norm(py): lv for py, lv, _ in self.state}
        types = [ty for _, _, ty in self.state]
        res = list(types)
        if self.ret is not None:
            res = [f"Option {self.ret}"] + res
        res_ty = res[0] if len(res) == 1 else " × ".join(f"({t})" if " " in t else t for t in res)
        sig = " → ".join([f"({t})" if " " in t else t for t in types] + [f"List ({self.elem_ty})", f"({res_ty})" if " " in res_ty else res_ty])
        pats = ", ".join(lv for _, lv, _ in self.state)
        pre = (pats + ", ") if pats else ""
        lines = [f"def {self.name} {self.params} : {sig}".replace("  ", " "),
                 f"  | {pre}[] => {self.tuple_of(cur0)}",
                 f"  | {pre}x :: xs => {self.seq(body, cur0, {})}"]
        return "\n".join(lines)


OPT_PRELUDE = """/-- comparisons with an optional number.  `…Opt`: `none` is Python's `None` (the code never compares with it: the test
    `x is None or …` comes first), so every comparison with it is false; `…Inf`: `none` is `float("inf")`. -/
def ltOpt (a : Rat) : Option Rat → Bool
  | none => false
  | some b => decide (a < b)
def gtOpt (a : Rat) : Option Rat → Bool
  | none => false
  | some b => decide (a > b)
def eqOpt (a : Rat) : Option Rat → Bool
  | none => false
  | some b => decide (a = b)
def ltInf (a : Rat) : Option Rat → Bool
  | none => true
  | some b => decide (a < b)
def gtInf (a : Rat) : Option Rat → Bool
  | none => false
  | some b => decide (a > b)
def eqInf (a : Rat) : Option Rat → Bool
  | none => false
  | some b => decide (a = b)
/-- a possibly infinite number (`none` = `float("inf")`) against another one, and against a running extremum that is `None` before the
    first element -/
def ltE : Option Rat → Option Rat → Bool
  | some a, some b => decide (a < b)
  | some _, none => true
  | none, _ => false
def ltOptE (a : Option Rat) : Option (Option Rat) → Bool
  | none => false
  | some b => ltE a b
def eqOptE (a : Option Rat) : Option (Option Rat) → Bool
  | none => false
  | some b => a == b"""


def raw(text):
    return lambda: RawDef(text)


def loop(path, qual, contains, name, params, state, elem, env, k=0, bools=(), skip=("verbose", "analytics"), ret=None, wraps=None,
         kinds=None):
    """the k-th `for` loop of `qual` whose iterable (source text) contains `contains`, as a recursive Lean function;
    `elem = (python loop target text, Lean element type)`; element fields are mapped through `env` (snippet -> term over `x`)"""

    def go():
        src = Src(path)
        f = src.func(qual)
        hits = [n for n in ast.walk(f) if isinstance(n, ast.For) and contains in ast.unparse(n.iter)]
        if len(hits) <= k:
            raise TranslationError(f"no for-loop over {contains!r} (#{k}) in {qual}")
        node = hits[k]
        if ast.unparse(node.target) != elem[0]:
            raise TranslationError(f"the loop variable of the loop over {contains!r} is {ast.unparse(node.target)}, {elem[0]} expected")
        if node.orelse:
            raise TranslationError("for … else")
        src.touch(node)
        lt = _LoopTr(name, params, state, elem[0], env, bools, skip, ret, wraps, kinds)
        lt.elem_ty = elem[1]
        return RawDef(lt.render(node.body))
    return go


def whileloop(path, qual, name, params, state, env, funcs, assume, ret_ty, fuel_out, bools=()):
    """
    The single `while` loop of `qual` as a Lean function with a fuel argument (statement-level leaf):

        def NAME params : Nat → T1 → … → Tn → R
          | 0, v1, …, vn => <fuel_out>
          | fuel + 1, v1, …, vn => if TEST then BODY else POST

    BODY in continuation form: `return e` ends with `e`, the end of the body re-enters the loop with the updated state.  POST is the
    `return` that follows the loop.  `assume` fixes the truth value of tests the leaf is specialised to (e.g. `resoluteness`): only that
    branch of an `if` on such a test is rendered.  `funcs`: callables that are function parameters of the leaf.
    """

    def go():
        src = Src(path)
        f = src.func(qual)
        loops = [n for n in ast.walk(f) if isinstance(n, ast.While)]
        if len(loops) != 1 or loops[0].orelse:
            raise TranslationError(f"{qual}: exactly one `while` loop expected")
        w = loops[0]
        src.touch(w)
        body_list = f.body
        idx = [i for i, st in enumerate(body_list) if st is w]
        if not idx or len(body_list) != idx[0] + 2 or not isinstance(body_list[-1], ast.Return) or body_list[-1].value is None:
            raise TranslationError(f"{qual}: the loop must be followed by exactly one `return` at the top level of the function")
        src.touch(body_list[-1])
        targets = [(_norm(py), lv) for py, lv, _ in state]
        pn = " ".join(re.findall(r"\((\w[\w ]*?) :", params))
        assume_n = {_norm(k): v for k, v in assume.items()}

        def tr(cur, local):
            t = Tr({}, bools)
            t.env = {_norm(k): v for k, v in env.items()}
            t.env.update(local)
            t.env.update(cur)
            t.funcs = dict(funcs)
            return t

        def recurse(cur):
            args = " ".join(f"({cur[k]})" if " " in cur[k] else cur[k] for k, _ in targets)
            return "(" + " ".join(f"{name} {pn} fuel {args}".split()) + ")"

        def seq(stmts, cur, local):
            stmts = [x for x in stmts if not (isinstance(x, ast.Expr) and isinstance(x.value, ast.Constant))]
            if not stmts:
                return recurse(cur)
            st, rest = stmts[0], stmts[1:]
            t = tr(cur, local)
            if isinstance(st, ast.Return):
                if st.value is None:
                    raise TranslationError("bare return")
                return t.expr(st.value)
            if isinstance(st, ast.If):
                key = _norm(ast.unparse(st.test))
                if key in assume_n:
                    return seq((st.body if assume_n[key] else st.orelse) + rest, cur, local)
                return f"(if {t.cond(st.test)} then {seq(st.body + rest, dict(cur), dict(local))} else {seq(st.orelse + rest, dict(cur), dict(local))})"
            tgt = val = op = None
            if isinstance(st, ast.Assign) and len(st.targets) == 1:
                tgt, val, op = ast.unparse(st.targets[0]), st.value, "="
            elif isinstance(st, ast.AugAssign):
                tgt, val = ast.unparse(st.target), st.value
                op = {ast.Add: "+", ast.Sub: "-", ast.Mult: "*", ast.Div: "/"}.get(type(st.op))
            if tgt is None or op is None:
                raise TranslationError(f"statement in the while loop outside the subset: {ast.unparse(st)[:60]}")
            key = _norm(tgt)
            v = t.expr(val)
            if key in dict(targets):
                cur = dict(cur)
                cur[key] = v if op == "=" else f"({cur[key]} {op} {v})"
                return seq(rest, cur, local)
            if op == "=" and re.fullmatch(r"[A-Za-z_][A-Za-z_0-9]*", tgt):
                local = dict(local)
                local[tgt] = v
                return seq(rest, cur, local)
            raise TranslationError(f"assignment to {tgt} in the while loop")

        cur0 = {k: lv for k, lv in targets}
        t0 = tr(cur0, {})
        test = t0.cond(w.test)
        post = t0.expr(body_list[-1].value)
        types = [ty for _, _, ty in state]
        sig = " → ".join(["Nat"] + [f"({t})" if " " in t else t for t in types] + [f"({ret_ty})" if " " in ret_ty else ret_ty])
        pats = ", ".join(lv for _, lv in targets)
        text = "\n".join([f"def {name} {params} : {sig}",
                          f"  | 0, {pats} => {fuel_out}",
                          f"  | fuel + 1, {pats} => if {test} then {seq(w.body, cur0, {})} else {post}"])
        return RawDef(text)
    return go


def funloop(path, qual, contains, name, params, state, elem, env, pre=(), fn_ret="Rat", k=0, bools=(), skip=("verbose", "analytics"),
            ret=None, wraps=None, kinds=None, ret_bool=False, inner=()):
    """
    A WHOLE function whose body is: initialisations, one `for` loop, a final `return` — nothing else.  Renders the loop
    (`<name>Loop`, as `loop` does) and `<name>` itself: the loop started from the initial values the source assigns, then the
    returned expression.  Statements before the loop must be assignments to state variables (their values become the initial
    state) or appear verbatim in `pre` (source text -> what they stand for in the model: a parameter of the leaf); any other
    statement, before or after the loop, raises TranslationError — so a shortcut, an early return or an extra step added to the
    function breaks the leaf.
    """

    def go():
        src = Src(path)
        f = src.func(qual)
        body = [x for x in f.body if not (isinstance(x, ast.Expr) and isinstance(x.value, ast.Constant))]
        pre_norm = {_norm_stmt(t) for t in pre}
        lt = _LoopTr(name + "Loop", params, state, elem[0], env, bools, skip, ret, wraps, kinds)
        lt.elem_ty = elem[1]
        lt.inner_vars = tuple(inner)
        targets = {_norm(py): i for i, (py, _, _) in enumerate(state)}
        init = {}
        loop_node = None
        post = []
        guards = []  # `if c: return e` statements before the loop, in order
        for st in body:
            src.touch(st)
            if loop_node is None:
                if isinstance(st, ast.For):
                    if contains not in ast.unparse(st.iter) or ast.unparse(st.target) != elem[0] or st.orelse:
                        raise TranslationError(f"{qual}: the loop is not the expected one ({ast.unparse(st.iter)[:40]})")
                    loop_node = st
                    continue
                if _norm_stmt(ast.unparse(st)) in pre_norm:
                    continue
                if isinstance(st, ast.If) and not st.orelse and len(st.body) == 1 and isinstance(st.body[0], ast.Return) \
                        and st.body[0].value is not None and not init:
                    tg = Tr(env, bools)
                    guards.append((tg.cond(st.test), (tg.cond if ret_bool else tg.expr)(st.body[0].value)))
                    continue
                tgt = val = None
                if isinstance(st, ast.Assign) and len(st.targets) == 1:
                    tgt, val = ast.unparse(st.targets[0]), st.value
                if isinstance(st, ast.AnnAssign) and st.value is not None:
                    tgt, val = ast.unparse(st.target), st.value
                if tgt is None or _norm(tgt) not in targets:
                    raise TranslationError(f"{qual}: statement before the loop outside the subset: {ast.unparse(st)[:70]}")
                t = Tr(env, bools)
                v = "none" if (isinstance(val, ast.Constant) and val.value is None) or ast.unparse(val) == "float('inf')" else t.expr(val)
                init[_norm(tgt)] = v
            else:
                post.append(st)
        if loop_node is None:
            raise TranslationError(f"{qual}: no loop")
        missing = [py for py, _, _ in state if _norm(py) not in init]
        if missing:
            raise TranslationError(f"{qual}: no initial value for {missing}")
        if len(post) != 1 or not isinstance(post[0], ast.Return) or post[0].value is None:
            raise TranslationError(f"{qual}: after the loop there must be exactly one `return`")
        loop_text = lt.render(loop_node.body)
        pn = lt.param_names
        args = " ".join(f"({init[_norm(py)]})" if " " in init[_norm(py)] else init[_norm(py)] for py, _, _ in state)
        call = " ".join(f"{name}Loop {pn} {args} xs".split())
        n_comp = len(state) + (1 if ret is not None else 0)

        def proj(i):
            if n_comp == 1:
                return "r"
            return "r." + ".".join(["2"] * i + (["1"] if i < n_comp - 1 else []))
        off = 1 if ret is not None else 0
        env2 = dict(env)
        for i, (py, _, _) in enumerate(state):
            env2[py] = proj(i + off)
        t2 = Tr(env2, bools)
        final = (t2.cond if ret_bool else t2.expr)(post[0].value)
        if ret is not None:
            final = f"(Option.getD {proj(0)} {final})"  # the value of the early `return`, else what the function returns after the loop
        ptxt = (params + " " if params else "")
        body_txt = f"(fun r => {final}) ({call})"
        for gc, gv in reversed(guards):
            body_txt = f"if {gc} then {gv} else {body_txt}"
        fn = f"def {name} {ptxt}(xs : List ({elem[1]})) : {fn_ret} :=\n  {body_txt}"
        return RawDef(loop_text + "\n\n" + fn)
    return go


PV = lambda key: f'precomputed_values["{key}"]'  # noqa: E731
RCMP = lambda a, b: f"round_cmp({a}, {b}, CHECK_ROUND_PRECISION)"  # noqa: E731
LARGE = lambda group, projects: (  # noqa: E731
    f"is_large_enough(sum((profile.multiplicity(b) for b in {group})), profile.num_ballots(), total_cost({projects}), instance.budget_limit)"
)
JR_ENV = {"sat.sat(budget_allocation)": "satW", "surplus": "surplus", "sat.sat(project_set)": "satT", "threshold": "threshold"}

LEAVES = [
    # ---- C10: satisfaction measures (per-project values)
    ("C10", "cardinalitySat", "(inB : Rat)", "Rat", whole(SAT, "cardinality_sat_func", IN_B)),
    ("C10", "costSat", "(inB cost : Rat)", "Rat", whole(SAT, "cost_sat_func", IN_B)),
    ("C10", "relCardinalitySat", "(inB norm : Rat)", "Rat", whole(SAT, "relative_cardinality_sat_func", {**IN_B, PV("max_budget_allocation_card"): "norm"})),
    ("C10", "relCostSat", "(inB cost norm : Rat)", "Rat", whole(SAT, "relative_cost_sat_func", {**IN_B, PV("max_budget_allocation_cost"): "norm"})),
    ("C10", "relCostApproxSat", "(inB cost norm : Rat)", "Rat", whole(SAT, "relative_cost_approx_normaliser_sat_func", {**IN_B, PV("normalizer"): "norm"})),
    ("C10", "relCostApproxNormaliser", "(ballotCost budget : Rat)", "Rat",
     exprc(SAT, "Relative_Cost_Approx_Normaliser_Sat.preprocessing", "min(", {"total_cost([p for p in ballot])": "ballotCost", "instance.budget_limit": "budget"})),
    ("C10", "effortSat", "(inB cost den : Rat)", "Rat",
     whole(SAT, "effort_sat_func", {**IN_B, "sum((profile.multiplicity(b) for b in profile if project in b))": "den"})),
    ("C10", "addCardinalSat", "(score : Rat)", "Rat", whole(SAT, "additive_card_sat_func", {"ballot.get(project, 0)": "score"})),
    ("C10", "addCardinalRelSat", "(score norm : Rat)", "Rat",
     whole(SAT, "additive_card_relative_sat_func", {"ballot.get(project, 0)": "score", PV("max_budget_allocation_score"): "norm"})),
    ("C10", "bordaSat", "(inBallot : Bool) (len pos : Rat)", "Rat",
     whole(POS, "borda_sat_func", {"project in ballot": "inBallot", "len(ballot)": "len", "ballot.position(project)": "pos"}, bools=("inBallot",))),
    # ---- C16: what a frozen ballot is made of, and what it hashes (shape leaves: every function is ONE return of exactly this form)
    ("C16", "approvalFrozenItems", "(sortedApproved : List Nat)", "List Nat",
     retexpr(APB, "FrozenApprovalBallot.__new__", 0, {"tuple.__new__(cls, sorted(approved))": "sortedApproved"}, n_returns=1)),
    ("C16", "approvalHash", "(hashOfTheTuple : Nat)", "Nat", retexpr(APB, "FrozenApprovalBallot.__hash__", 0, {"tuple.__hash__(self)": "hashOfTheTuple"}, n_returns=1)),
    ("C16", "approvalFrozen", "(frozenFromSelfNameMeta : Nat)", "Nat",
     retexpr(APB, "ApprovalBallot.frozen", 0, {"FrozenApprovalBallot(self, name=self.name, meta=self.meta)": "frozenFromSelfNameMeta"}, n_returns=1)),
    ("C16", "cardinalHash", "(hashOfTheItemSet : Nat)", "Nat", retexpr(CDB, "FrozenCardinalBallot.__hash__", 0, {"hash(frozenset(self.items()))": "hashOfTheItemSet"}, n_returns=1)),
    ("C16", "cardinalFrozen", "(frozenFromSelf : Nat)", "Nat", retexpr(CDB, "CardinalBallot.frozen", 0, {"FrozenCardinalBallot(self)": "frozenFromSelf"}, n_returns=1)),
    ("C16", "ordinalHash", "(hashOfTheTuple : Nat)", "Nat", retexpr(ODB, "FrozenOrdinalBallot.__hash__", 0, {"tuple.__hash__(self)": "hashOfTheTuple"}, n_returns=1)),
    ("C16", "ordinalFrozen", "(frozenFromSelf : Nat)", "Nat", retexpr(ODB, "OrdinalBallot.frozen", 0, {"FrozenOrdinalBallot(self)": "frozenFromSelf"}, n_returns=1)),
    # ---- C15: instance predicates
    # whole functions (initialisation, loop, return): a statement added anywhere in them breaks the leaf
    ("C15", "isExhaustiveFn", None, None,
     funloop(INST, "Instance.is_exhaustive", "available_projects", "isExhaustiveFn", "(cost budget : Rat)", [], ("p", "Bool × Rat"),
             {"p not in projects": "(!x.1)", "p.cost": "x.2", "cost": "cost", "self.budget_limit": "budget"}, bools=("(!x.1)",), ret="Bool",
             pre=("if available_projects is None:\n    available_projects = self", "cost = total_cost(projects)"), fn_ret="Bool", ret_bool=True)),
    ("C15", "maxCardFn", None, None,
     funloop(INST, "max_budget_allocation_cardinality", "projects_sorted", "maxCardFn", "(budget : Rat)",
             [("cost", "acc", "Rat"), ("selected", "selected", "Rat")], ("p", "Rat"), {"p.cost": "x", "budget_limit": "budget"},
             pre=("projects_sorted = sorted(projects, key=lambda proj: proj.cost)",))),
    ("C15", "isFeasible", "(total budget : Rat)", "Bool", whole(INST, "Instance.is_feasible", {"total_cost(projects)": "total", "self.budget_limit": "budget"}, ret_bool=True)),
    ("C15", "isTrivial", "(total budget : Rat) (noneFits : Bool)", "Bool",
     whole(INST, "Instance.is_trivial", {"total_cost(self)": "total", "self.budget_limit": "budget",
                                         "all((self.budget_limit < p.cost for p in self))": "noneFits"}, bools=("noneFits",), ret_bool=True)),
    ("C15", "singleDoesNotFit", "(budget c : Rat)", "Bool",
     exprc(INST, "Instance.is_trivial", "self.budget_limit < p.cost", {"self.budget_limit": "budget", "p.cost": "c"}, kind=ast.Compare)),
    ("C15", "fitsOnTop", "(inW : Bool) (c cost budget : Rat)", "Bool",
     test(INST, "Instance.is_exhaustive", "p.cost + cost", {"p not in projects": "(!inW)", "p.cost": "c", "cost": "cost", "self.budget_limit": "budget"}, bools=("(!inW)",))),
    ("C15", "cheapestOvershoots", "(c acc budget : Rat)", "Bool",
     test(INST, "max_budget_allocation_cardinality", "new_total_cost", {"new_total_cost": "(c + acc)", "budget_limit": "budget"})),
    ("C15", "cheapestNewTotal", "(c acc : Rat)", "Rat", assign(INST, "max_budget_allocation_cardinality", "new_total_cost", {"p.cost": "c", "cost": "acc"})),
    # ---- C14: cohesiveness size test
    ("C14", "isLargeEnough", "(groupSize numVoters projectsCost budget : Rat)", "Bool",
     whole(COH, "is_large_enough", {"group_size": "groupSize", "num_voters": "numVoters", "projects_cost": "projectsCost", "budget_limit": "budget"}, ret_bool=True)),
    ("C14", "missing", "(inW : Bool)", "Bool", test(JRP, "is_in_core", "p not in budget_allocation", {"p not in budget_allocation": "(!inW)"}, bools=("(!inW)",))),
    ("C14", "noSurplus", "", "Rat", assign(JRP, "is_in_core", "surplus", {}, k=0)),
    ("C14", "coreSizeTest", "(large : Bool)", "Bool", test(JRP, "is_in_core", "is_large_enough", {LARGE("group", "project_set"): "large"}, bools=("large",))),
    ("C14", "coreGroupNonEmpty", "(groupLen : Rat)", "Bool", test(JRP, "is_in_core", "len(group)", {"len(group)": "groupLen"})),
    ("C14", "coreVoterOk", "(satW surplus satT : Rat)", "Bool", test(JRP, "is_in_core", "sat.sat(budget_allocation) + surplus", JR_ENV)),
    ("C14", "strongEJRApprovalFails", "(satW satT : Rat)", "Bool", test(JRP, "is_strong_EJR_approval", "sat.sat(budget_allocation)", JR_ENV)),
    ("C14", "ejrApprovalOk", "(satW surplus satT : Rat)", "Bool", test(JRP, "is_EJR_approval", "sat.sat(budget_allocation) + surplus", JR_ENV)),
    ("C14", "cardThresholdSummand", "(minScore : Rat)", "Rat", assign(JRP, "is_EJR_cardinal", "threshold", {"min((b[p] for b in group))": "minScore"}, elt=True)),
    ("C14", "strongEJRCardinalFails", "(satW threshold : Rat)", "Bool", test(JRP, "is_strong_EJR_cardinal", "sat.sat(budget_allocation)", JR_ENV)),
    ("C14", "ejrCardinalOk", "(satW surplus threshold : Rat)", "Bool", test(JRP, "is_EJR_cardinal", "sat.sat(budget_allocation) + surplus", JR_ENV)),
    ("C14", "pjrApprovalThreshold", "(satT : Rat)", "Rat", assign(JRP, "is_PJR_approval", "threshold", JR_ENV)),
    ("C14", "pjrApprovalGroupSat", "(satApproved surplus : Rat)", "Rat", assign(JRP, "is_PJR_approval", "group_sat", {"sat.sat(group_approved)": "satApproved", "surplus": "surplus"})),
    ("C14", "pjrGroupApproves", "(someoneApproves : Bool)", "Bool",
     test(JRP, "is_PJR_approval", "any(", {"any((p in b for b in group))": "someoneApproves"}, bools=("someoneApproves",))),
    ("C14", "pjrApprovalFails", "(groupSat threshold : Rat)", "Bool", test(JRP, "is_PJR_approval", "group_sat", {"group_sat": "groupSat", "threshold": "threshold"})),
    ("C14", "pjrCardinalGroupSummand", "(maxScore : Rat)", "Rat", assign(JRP, "is_PJR_cardinal", "group_sat", {"max((b[p] for b in group))": "maxScore"}, elt=True)),
    ("C14", "pjrCardinalFails", "(groupSat surplus threshold : Rat)", "Bool",
     test(JRP, "is_PJR_cardinal", "group_sat + surplus", {"group_sat": "groupSat", "surplus": "surplus", "threshold": "threshold"})),
    *[("C14", f"upTo{which.capitalize()}{kind}{fam.capitalize()}", "(bound : Rat)", "Rat",
       exprc(JRP, f"is_{kind}_{which}_{fam}", f"{fn}(x, default=0)", {f"{fn}(x, default=0)": "bound"}))
      for kind in ("EJR", "PJR") for fam in ("approval", "cardinal") for which, fn in (("any", "min"), ("one", "max"))],
    # `is_cohesive_approval` / `is_cohesive_cardinal` as WHOLE functions (statement-level leaves): the two guards, the double loop with its
    # early `return False`, the final `return True`; `x` = one ballot of the group as the list of its answers for the projects of the set
    ("C14", "isCohesiveApprovalFn", None, None,
     funloop(COH, "is_cohesive_approval", "ballots", "isCohesiveApprovalFn", "(large : Bool) (numBallots numProjects : Rat)", [], ("ballot", "List Bool"),
             {LARGE("ballots", "projects"): "large", "len(ballots)": "numBallots", "len(projects)": "numProjects", "projects": "x", "p not in ballot": "(!y)"},
             bools=("large", "(!y)"), ret="Bool", fn_ret="Bool", ret_bool=True, inner=("p",))),
    ("C14", "isCohesiveCardinalFn", None, None,
     funloop(COH, "is_cohesive_cardinal", "ballots", "isCohesiveCardinalFn", "(large : Bool) (numBallots numProjects : Rat)", [], ("ballot", "List (Rat × Rat)"),
             {LARGE("ballots", "projects"): "large", "len(ballots)": "numBallots", "len(projects)": "numProjects", "projects": "x", "ballot[p]": "y.1", "alpha[p]": "y.2"},
             bools=("large",), ret="Bool", fn_ret="Bool", ret_bool=True, inner=("p",))),
    ("C14", "cohApprovalTooSmall", "(large : Bool)", "Bool", test(COH, "is_cohesive_approval", "is_large_enough", {LARGE("ballots", "projects"): "large"}, bools=("large",))),
    ("C14", "cohApprovalEmpty", "(numBallots numProjects : Rat)", "Bool",
     test(COH, "is_cohesive_approval", "len(ballots)", {"len(ballots)": "numBallots", "len(projects)": "numProjects"})),
    ("C14", "cohApprovalPairFails", "(inBallot : Bool)", "Bool", test(COH, "is_cohesive_approval", "p not in ballot", {"p not in ballot": "(!inBallot)"}, bools=("(!inBallot)",))),
    ("C14", "cohCardinalTooSmall", "(large : Bool)", "Bool", test(COH, "is_cohesive_cardinal", "is_large_enough", {LARGE("ballots", "projects"): "large"}, bools=("large",))),
    ("C14", "cohCardinalEmpty", "(numBallots numProjects : Rat)", "Bool",
     test(COH, "is_cohesive_cardinal", "len(ballots)", {"len(ballots)": "numBallots", "len(projects)": "numProjects"})),
    ("C14", "cohCardinalPairFails", "(score alpha : Rat)", "Bool", test(COH, "is_cohesive_cardinal", "alpha[p]", {"ballot[p]": "score", "alpha[p]": "alpha"})),
    ("C14", "cohGroupNonEmpty", "(groupLen : Rat)", "Bool", test(COH, "cohesive_groups", "len(group)", {"len(group)": "groupLen"})),
    ("C14", "cohSetNonEmpty", "(setLen : Rat)", "Bool", test(COH, "cohesive_groups", "len(project_set)", {"len(project_set)": "setLen"})),
    ("C14", "cohAlphaMin", "(minScore : Rat)", "Rat", exprc(COH, "cohesive_groups", "min((b[p]", {"min((b[p] for b in group))": "minScore"})),
    # ---- C12: the price-system validator
    ("C12", "checkRoundPrecision", "", "Rat", const(PRI, "CHECK_ROUND_PRECISION")),
    # `round` is a parameter, so the leaf shows WHAT is rounded: `round(a - b, precision)` (the difference), not two rounded numbers
    ("C12", "roundCmp", "(round : Rat → Rat → Rat) (a b precision : Rat)", "Rat",
     whole(UTL, "round_cmp", {"round": "round", "a": "a", "b": "b", "precision": "precision"})),
    ("C12", "notSelected", "(inW : Bool)", "Bool", test(PRI, "validate_price_system", "c not in W", {"c not in W": "(!inW)"}, bools=("(!inW)",))),
    ("C12", "spent", "(paySum : Rat)", "Rat", assign(PRI, "validate_price_system", "spent", {"sum((pf[idx][c] for c in C))": "paySum"}, elt=True)),
    ("C12", "leftover", "(b spent : Rat)", "Rat", assign(PRI, "validate_price_system", "leftover", {"b": "b", "spent[idx]": "spent"}, elt=True)),
    ("C12", "maxPayment", "(maxOrZero : Rat)", "Rat", assign(PRI, "validate_price_system", "max_payment", {"max((pf[idx][c] for c in C), default=0)": "maxOrZero"}, elt=True)),
    ("C12", "c0aFails", "(total budget : Rat)", "Bool", test(PRI, "validate_price_system", "instance.budget_limit", {"total": "total", "instance.budget_limit": "budget"}, k=0)),
    ("C12", "checksExhaustive", "(exhaustive : Bool)", "Bool", test(PRI, "validate_price_system", "exhaustive", {"exhaustive": "exhaustive"}, bools=("exhaustive",))),
    ("C12", "c0bFails", "(total cost budget : Rat)", "Bool",
     test(PRI, "validate_price_system", "total + c.cost", {"total": "total", "c.cost": "cost", "instance.budget_limit": "budget"})),
    ("C12", "c1Fails", "(approves : Bool) (pay : Rat)", "Bool",
     test(PRI, "validate_price_system", "c not in i", {"c not in i": "(!approves)", "pf[idx][c]": "pay"}, bools=("(!approves)",))),
    ("C12", "negFails", "(cmp : Rat)", "Bool", test(PRI, "validate_price_system", RCMP("pf[idx][c]", "0"), {RCMP("pf[idx][c]", "0"): "cmp"})),
    ("C12", "c2Fails", "(cmp : Rat)", "Bool", test(PRI, "validate_price_system", RCMP("spent[idx]", "b"), {RCMP("spent[idx]", "b"): "cmp"})),
    ("C12", "paidFor", "(pay : Rat)", "Rat", assign(PRI, "validate_price_system", "s", {"pf[idx][c]": "pay"}, k=0, elt=True)),
    ("C12", "c3Fails", "(cmp : Rat)", "Bool", test(PRI, "validate_price_system", RCMP("s", "c.cost"), {RCMP("s", "c.cost"): "cmp"}, k=0)),
    ("C12", "paidForUnselected", "(pay : Rat)", "Rat", assign(PRI, "validate_price_system", "s", {"pf[idx][c]": "pay"}, k=1, elt=True)),
    ("C12", "c4Fails", "(cmp : Rat)", "Bool", test(PRI, "validate_price_system", RCMP("s", "0"), {RCMP("s", "0"): "cmp"})),
    ("C12", "plainBranch", "(stable : Bool)", "Bool", test(PRI, "validate_price_system", "not stable", {"stable": "stable"}, bools=("stable",))),
    ("C12", "c5Supporter", "(approves : Bool)", "Bool", test(PRI, "validate_price_system", "c in i", {"c in i": "approves"}, k=0, bools=("approves",))),
    ("C12", "c5Summand", "(leftover : Rat)", "Rat", assign(PRI, "validate_price_system", "s", {"leftover[idx]": "leftover"}, k=2, elt=True)),
    ("C12", "c5Fails", "(cmp : Rat)", "Bool", test(PRI, "validate_price_system", RCMP("s", "c.cost"), {RCMP("s", "c.cost"): "cmp"}, k=1)),
    ("C12", "s5Supporter", "(approves : Bool)", "Bool", test(PRI, "validate_price_system", "c in i", {"c in i": "approves"}, k=1, bools=("approves",))),
    ("C12", "s5Summand", "(maxPayment leftover : Rat)", "Rat",
     assign(PRI, "validate_price_system", "s", {"max_payment[idx]": "maxPayment", "leftover[idx]": "leftover"}, k=3, elt=True)),
    ("C12", "s5Cost", "(noRelaxation : Bool) (cost relaxed : Rat)", "Rat",
     assign(PRI, "validate_price_system", "cost", {"relaxation is None": "noRelaxation", "c.cost": "cost", "relaxation.get_relaxed_cost(c)": "relaxed"}, bools=("noRelaxation",))),
    ("C12", "s5Fails", "(cmp : Rat)", "Bool", test(PRI, "validate_price_system", RCMP("s", "cost"), {RCMP("s", "cost"): "cmp"})),
    ("C12", "accepts", "(noErrors : Bool)", "Bool", exprc(PRI, "validate_price_system", "not errors", {"not errors": "noErrors"}, kind=ast.UnaryOp, bools=("noErrors",))),
    # ---- C19: rule comparison
    *[("C19", name, params, "Bool", prod) for fn, suffix in (("social_welfare_comparison", ""), ("popularity_comparison", "Popularity")) for name, params, prod in (
        (f"isNew{suffix}", "(differsFromAll : Bool)", test(COMP, fn, "results", {"all((set(res) != set(other) for other in results))": "differsFromAll"}, bools=("differsFromAll",))),
        (f"differs{suffix}", "(same : Bool)", exprc(COMP, fn, "set(res)", {"set(res) != set(other)": "(!same)"}, kind=ast.Compare, bools=("(!same)",))),
    )],
    ("C19", "optPrelude", None, None, raw(OPT_PRELUDE)),
    # the arg-max loop of the welfare comparison as a whole (statement-level leaf); `x` = (index of the outcome, its total satisfaction)
    ("C19", "welfareLoop", None, None,
     loop(COMP, "social_welfare_comparison", "results", "welfareLoop", "",
          [("max_social_welfare", "best", "Option Rat"), ("argmax_social_welfare", "arg", "List Nat")], ("result", "Nat × Rat"),
          {"sat_profile.total_satisfaction(result)": "x.2", "result": "x.1"},
          wraps={"max_social_welfare": "(some {})"}, kinds={"max_social_welfare": "none"})),
    # the per-voter arg-max loop of the popularity comparison (statement-level leaf); `x` = (index of the outcome, the voter's satisfaction)
    ("C19", "voterLoop", None, None,
     loop(COMP, "popularity_comparison", "enumerate(sats)", "voterLoop", "",
          [("max_sat", "best", "Option Rat"), ("arg_max_sat", "arg", "List Nat")], ("(i, s)", "Nat × Rat"),
          {"s": "x.2", "i": "x.1"}, wraps={"max_sat": "(some {})"}, kinds={"max_sat": "none"})),
    ("C19", "welfareImproves", "(first : Bool) (welfare best : Rat)", "Bool",
     test(COMP, "social_welfare_comparison", "max_social_welfare",
          {"max_social_welfare is None": "first", "social_welfare": "welfare", "max_social_welfare": "best"}, k=0, bools=("first",))),
    ("C19", "welfareTies", "(welfare best : Rat)", "Bool",
     test(COMP, "social_welfare_comparison", "max_social_welfare", {"social_welfare": "welfare", "max_social_welfare": "best"}, k=1)),
    ("C19", "voterImproves", "(first : Bool) (s best : Rat)", "Bool",
     test(COMP, "popularity_comparison", "max_sat", {"max_sat is None": "first", "s": "s", "max_sat": "best"}, k=0, bools=("first",))),
    ("C19", "voterTies", "(s best : Rat)", "Bool", test(COMP, "popularity_comparison", "max_sat", {"s": "s", "max_sat": "best"}, k=1)),
    ("C19", "supportUpdate", "(support m : Rat)", "Rat",
     assign(COMP, "popularity_comparison", "result_support[i]", {"result_support[i]": "support", "sat_profile.multiplicity(sat)": "m"})),
    ("C19", "maxSupport", "(maxOfSupports : Rat)", "Rat", assign(COMP, "popularity_comparison", "max_support", {"max(result_support)": "maxOfSupports"})),
    ("C19", "isMostSupported", "(s maxSupport : Rat)", "Bool", test(COMP, "popularity_comparison", "max_support", {"s": "s", "max_support": "maxSupport"})),
    # ---- C06 / C18: multiplicities (profile vs multiprofile), approval score, total satisfaction
    ("C06", "listMultiplicity", "", "Rat", whole(PROF, "Profile.multiplicity", {})),
    ("C06", "multiMultiplicity", "(count : Rat)", "Rat", whole(PROF, "MultiProfile.multiplicity", {"self[ballot]": "count"})),
    ("C06", "satListMultiplicity", "", "Rat", whole(SATP, "SatisfactionProfile.multiplicity", {})),
    ("C06", "satMultiMultiplicity", "(count : Rat)", "Rat", whole(SATP, "SatisfactionMultiProfile.multiplicity", {"self[sat]": "count"})),
    # `approval_score` as a whole (statement-level leaf): start at 0, add the multiplicity of every ballot holding the project, return
    ("C06", "approvalScoreFn", None, None,
     funloop(APR, "AbstractApprovalProfile.approval_score", "self", "approvalScoreFn", "", [("approval_score", "score", "Rat")], ("ballot", "Bool × Rat"),
             {"project in ballot": "x.1", "self.multiplicity(ballot)": "x.2"}, bools=("x.1",))),
    ("C06", "approvalScoreInit", "", "Rat", assign(APR, "AbstractApprovalProfile.approval_score", "approval_score", {}, k=0)),
    ("C06", "approves", "(inBallot : Bool)", "Bool",
     test(APR, "AbstractApprovalProfile.approval_score", "project in ballot", {"project in ballot": "inBallot"}, bools=("inBallot",))),
    ("C06", "approvalScoreUpdate", "(score m : Rat)", "Rat",
     assign(APR, "AbstractApprovalProfile.approval_score", "approval_score", {"approval_score": "score", "self.multiplicity(ballot)": "m"}, k=1)),
    ("C06", "totalSatSummand", "(s m : Rat)", "Rat",
     exprc(SATM, "GroupSatisfactionMeasure.total_satisfaction", "sat.sat(projects) *", {"sat.sat(projects)": "s", "self.multiplicity(sat)": "m"}, kind=ast.BinOp)),
    ("C06", "totalSatProjectSummand", "(s m : Rat)", "Rat",
     exprc(SATM, "GroupSatisfactionMeasure.total_satisfaction_project", "sat.sat_project(project) *",
           {"sat.sat_project(project)": "s", "self.multiplicity(sat)": "m"}, kind=ast.BinOp)),
    # ---- C02 / C07: Equal Shares
    ("C02", "voterShare", "(budget n : Rat)", "Rat", exprc(MES, "method_of_equal_shares", "frac(instance.budget_limit", {"instance.budget_limit": "budget", "profile.num_ballots()": "n"})),
    ("C02", "totalBudget", "(m b : Rat)", "Rat", whole(MES, "MESVoter.total_budget", {"self.multiplicity": "m", "self.budget": "b"})),
    ("C02", "totalSatProject", "(m u : Rat)", "Rat", whole(MES, "MESVoter.total_sat_project", {"self.multiplicity": "m", "self.sat.sat_project(proj)": "u"})),
    ("C02", "budgetOverSat", "(b u : Rat)", "Rat", assign(MES, "MESVoter.budget_over_sat_project", "res", {"self.budget": "b", "self.sat.sat_project(proj)": "u"}, k=1)),
    # the memo of MESVoter.budget_over_sat_project: looked up and stored under the SAME key, which holds BOTH arguments of the cached value
    ("C02", "cacheLookupKey", "(proj budget : Rat)", "Rat × Rat", exprc(MES, "MESVoter.budget_over_sat_project", "proj, self.budget", {"proj": "proj", "self.budget": "budget"}, k=0, kind=ast.Tuple)),
    ("C02", "cacheStoreKey", "(proj budget : Rat)", "Rat × Rat", exprc(MES, "MESVoter.budget_over_sat_project", "proj, self.budget", {"proj": "proj", "self.budget": "budget"}, k=1, kind=ast.Tuple)),
    ("C02", "initialAffordability", "(cost totalSat : Rat)", "Rat", assign(MES, "method_of_equal_shares_scheme", "afford", {"p.cost": "cost", "total_sat": "totalSat"})),
    ("C02", "isSupporter", "(u : Rat)", "Bool", test(MES, "method_of_equal_shares_scheme", "indiv_sat > 0", {"indiv_sat": "u"})),
    ("C02", "isSupported", "(totalSat : Rat)", "Bool", test(MES, "method_of_equal_shares_scheme", "total_sat > 0", {"total_sat": "totalSat"})),
    ("C02", "hasPositiveCost", "(cost : Rat)", "Bool", test(MES, "method_of_equal_shares_scheme", "p.cost > 0", {"p.cost": "cost"})),
    ("C02", "unaffordable", "(available cost : Rat)", "Bool", test(MES, "mes_inner_algo", "available_budget <", {"available_budget": "available", "project.cost": "cost"})),
    ("C02", "optPrelude", None, None, raw(OPT_PRELUDE)),
    # the supporter sweep as a whole (statement-level leaf): the price test comes BEFORE the supporter's money and utility leave the
    # running totals, the first supporter who can pay ends the sweep, and only then are the round's best price and tied list updated
    ("C02", "sweepLoop", None, None,
     loop(MES, "mes_inner_algo", "project.supporter_indices", "sweepLoop", "(cost : Rat) (p : Nat)",
          [("current_contribution", "contribution", "Rat"), ("denominator", "denominator", "Rat"), ("project.affordability", "aff", "Rat"),
           ("best_afford", "best", "Option Rat"), ("tied_projects", "tied", "List Nat")],
          ("i", "Rat × Rat × Rat"),
          {"voters[i]": "x", "supporter.budget": "x.1", "project.supporters_sat(supporter)": "x.2.1", "supporter.multiplicity": "x.2.2",
           "supporter.total_budget()": "(x.2.2 * x.1)", "project.cost": "cost", "project": "p"},
          wraps={"best_afford": "(some {})"}, kinds={"best_afford": "inf"})),
    ("C02", "affordFactor", "(cost contribution denominator : Rat)", "Rat",
     assign(MES, "mes_inner_algo", "afford_factor", {"project.cost": "cost", "current_contribution": "contribution", "denominator": "denominator"})),
    ("C02", "canPay", "(factor u b : Rat)", "Bool",
     test(MES, "mes_inner_algo", "afford_factor * project.supporters_sat", {"afford_factor": "factor", "project.supporters_sat(supporter)": "u", "supporter.budget": "b"})),
    ("C02", "nextContribution", "(contribution mb : Rat)", "Rat", assign(MES, "mes_inner_algo", "current_contribution", {"current_contribution": "contribution", "supporter.total_budget()": "mb"}, k=1)),
    ("C02", "nextDenominator", "(denominator m u : Rat)", "Rat",
     assign(MES, "mes_inner_algo", "denominator", {"denominator": "denominator", "supporter.multiplicity": "m", "project.supporters_sat(supporter)": "u"}, k=1)),
    ("C02", "improvesBest", "(factor best : Rat)", "Bool", test(MES, "mes_inner_algo", "afford_factor < best_afford", {"afford_factor": "factor", "best_afford": "best"})),
    ("C02", "tiesBest", "(factor best : Rat)", "Bool", test(MES, "mes_inner_algo", "afford_factor == best_afford", {"afford_factor": "factor", "best_afford": "best"})),
    ("C02", "payment", "(b rho u : Rat)", "Rat",
     exprc(MES, "mes_inner_algo", "min(supporter.budget", {"supporter.budget": "b", "best_afford": "rho", "selected_project.supporters_sat(supporter)": "u"})),
    # ---- C03: greedy
    ("C03", "hasPositiveCost", "(cost : Rat)", "Bool", test(GRE, "greedy_utilitarian_scheme.aux", "project.cost > 0", {"project.cost": "cost"})),
    ("C03", "marginal", "(satNew satOld cost : Rat)", "Rat",
     assign(GRE, "greedy_utilitarian_scheme.aux", "total_marginal_score",
            {"sats.total_satisfaction(new_alloc)": "satNew", "sats.total_satisfaction(alloc)": "satOld", "project.cost": "cost"})),
    ("C03", "stillFits", "(isSelected : Bool) (newCost cost budget : Rat)", "Bool",
     test(GRE, "greedy_utilitarian_scheme.aux", "new_cost + project.cost",
          {"project != selected_project": "(!isSelected)", "new_cost": "newCost", "project.cost": "cost", "instance.budget_limit": "budget"}, bools=("(!isSelected)",))),
    ("C03", "initiallyFits", "(inInit : Bool) (initCost cost budget : Rat)", "Bool",
     test(GRE, "greedy_utilitarian_scheme", "initial_cost + p.cost",
          {"p not in initial_budget_allocation": "(!inInit)", "initial_cost": "initCost", "p.cost": "cost", "instance.budget_limit": "budget"}, bools=("(!inInit)",))),
    ("C03", "densitySupported", "(totalSat : Rat)", "Bool", test(GRE, "greedy_utilitarian_scheme_additive.satisfaction_density", "total_sat > 0", {"total_sat": "totalSat"})),
    ("C03", "densityValue", "(totalSat cost : Rat)", "Rat",
     exprc(GRE, "greedy_utilitarian_scheme_additive.satisfaction_density", "frac(total_sat", {"total_sat": "totalSat", "proj.cost": "cost"})),
    # the general path's loop that keeps the projects still fitting after a purchase (statement-level leaf): it is a filter
    ("C03", "stillFitsLoop", None, None,
     loop(GRE, "greedy_utilitarian_scheme.aux", "feasible", "stillFitsLoop", "(selected : Nat) (newCost budget : Rat)",
          [("new_feasible", "kept", "List Nat")], ("project", "Nat × Rat"),
          {"project != selected_project": "(x.1 != selected)", "new_cost": "newCost", "project.cost": "x.2", "instance.budget_limit": "budget", "project": "x.1"},
          k=1, bools=("(x.1 != selected)",))),
    # the selection loop of the fast path as a whole (statement-level leaf): order of the test, the append and the update
    ("C03", "passLoop", None, None,
     loop(GRE, "greedy_utilitarian_scheme_additive", "ordered_projects", "passLoop", "",
          [("selection", "sel", "List Nat"), ("remaining_budget", "remaining", "Rat")], ("project", "Nat × Rat"),
          {"project.cost": "x.2", "project": "x.1"})),
    ("C03", "passFits", "(cost remaining : Rat)", "Bool", test(GRE, "greedy_utilitarian_scheme_additive", "project.cost <= remaining_budget", {"project.cost": "cost", "remaining_budget": "remaining"})),
    ("C03", "passRemaining", "(remaining cost : Rat)", "Rat", assign(GRE, "greedy_utilitarian_scheme_additive", "remaining_budget", {"remaining_budget": "remaining", "project.cost": "cost"}, k=1)),
    ("C03", "passInitialRemaining", "(budget initCost : Rat)", "Rat",
     assign(GRE, "greedy_utilitarian_scheme_additive", "remaining_budget", {"instance.budget_limit": "budget", "total_cost(budget_allocation)": "initCost"}, k=0)),
    # ---- C05: Phragmén
    ("C05", "optPrelude", None, None, raw(OPT_PRELUDE)),
    # the arg-min loop of a Phragmen round as a whole (statement-level leaf): the new maximum load of every project (`inf` without supporters),
    # the running minimum and the projects tied at it; `x` = (project, approval score, summed loads of its supporters, cost)
    ("C05", "argminLoop", None, None,
     loop(PHR, "sequential_phragmen.aux", "projects", "argminLoop", "",
          [("min_new_maxload", "best", "Option (Option Rat)"), ("arg_min_new_maxload", "arg", "List Nat")], ("project", "Nat × Rat × Rat × Rat"),
          {"approval_scores[project]": "x.2.1", "sum((voters[i].total_load() for i in supporters[project]))": "x.2.2.1", "project.cost": "x.2.2.2", "project": "x.1"},
          wraps={"min_new_maxload": "(some {})", "new_maxload": "(some {})"}, kinds={"min_new_maxload": "none-inf", "new_maxload": "inf"})),
    ("C05", "totalLoad", "(m load : Rat)", "Rat", whole(PHR, "PhragmenVoter.total_load", {"self.multiplicity": "m", "self.load": "load"})),
    ("C05", "unsupported", "(score : Rat)", "Bool", test(PHR, "sequential_phragmen.aux", "approval_scores[project] == 0", {"approval_scores[project]": "score"})),
    ("C05", "newMaxLoad", "(loadSum cost score : Rat)", "Rat",
     assign(PHR, "sequential_phragmen.aux", "new_maxload",
            {"sum((voters[i].total_load() for i in supporters[project]))": "loadSum", "project.cost": "cost", "approval_scores[project]": "score"}, k=1)),
    ("C05", "overshoots", "(spent cost budget : Rat)", "Bool",
     exprc(PHR, "sequential_phragmen.aux", "cost + project.cost >", {"cost": "spent", "project.cost": "cost", "inst.budget_limit": "budget"}, kind=ast.Compare)),
    ("C05", "isCandidate", "(inInit : Bool) (cost budget : Rat)", "Bool",
     test(PHR, "sequential_phragmen", "p.cost <= instance.budget_limit",
          {"p not in initial_budget_allocation": "(!inInit)", "p.cost": "cost", "instance.budget_limit": "budget"}, bools=("(!inInit)",))),
    # ---- C04: primal/dual knapsack
    ("C04", "efficiency", "(profit weight : Rat)", "Rat", whole(MAXW, "KnapsackItem.efficiency", {"self.profit": "profit", "self.weight": "weight"})),
    ("C04", "withinCapacity", "(weightSum capacity : Rat)", "Bool", test(MAXW, "primal_dual_branch_impl", "weight_sum <= capacity", {"weight_sum": "weightSum", "capacity": "capacity"})),
    ("C04", "improves", "(profitSum lower : Rat)", "Bool", test(MAXW, "primal_dual_branch_impl", "profit_sum > lower_bound[0]", {"profit_sum": "profitSum", "lower_bound[0]": "lower"})),
    ("C04", "upperBoundRight", "(capacity weightSum eff : Rat)", "Rat",
     assign(MAXW, "primal_dual_branch_impl", "upper_bound", {"capacity": "capacity", "weight_sum": "weightSum", "items[b].efficiency": "eff"}, k=0)),
    ("C04", "upperBoundLeft", "(capacity weightSum eff : Rat)", "Rat",
     assign(MAXW, "primal_dual_branch_impl", "upper_bound", {"capacity": "capacity", "weight_sum": "weightSum", "items[a].efficiency": "eff"}, k=1)),
    ("C04", "prunes", "(profitSum upper lower : Rat)", "Bool",
     test(MAXW, "primal_dual_branch_impl", "profit_sum + upper_bound", {"profit_sum": "profitSum", "upper_bound": "upper", "lower_bound[0]": "lower"})),
    ("C04", "prunesLeft", "(profitSum upper lower : Rat)", "Bool",
     test(MAXW, "primal_dual_branch_impl", "profit_sum + upper_bound", {"profit_sum": "profitSum", "upper_bound": "upper", "lower_bound[0]": "lower"}, k=1)),
    ("C04", "zeroCost", "(cost : Rat)", "Bool", test(MAXW, "max_additive_utilitarian_welfare_primal_dual_scheme", "p.cost == 0", {"p.cost": "cost"})),
    ("C04", "zeroCostTaken", "(profit : Rat)", "Bool", test(MAXW, "max_additive_utilitarian_welfare_primal_dual_scheme", "profit > 0", {"profit": "profit"})),
    ("C04", "knapsackItem", "(profit : Rat)", "Bool", test(MAXW, "max_additive_utilitarian_welfare_primal_dual_scheme", "profit >= 0", {"profit": "profit"})),
    # ---- C09: exhaustion wrappers
    # the `while` loop of exhaustion_by_budget_increase as a whole, once per branch of `if resoluteness:` (statement-level leaves; fuel = number of
    # budgets that may still be tried; `rule b` = the outcome of the base rule at budget b)
    ("C09", "budgetIncreaseWhile", None, None,
     whileloop(EXH, "exhaustion_by_budget_increase", "budgetIncreaseWhile",
               "(rule : Rat → List Nat) (feasible exhaustive : List Nat → Bool) (exhaustiveStop : Bool) (step bound : Rat)",
               [("current_instance.budget_limit", "cur", "Rat"), ("previous_outcome", "prev", "List Nat")],
               {"rule(current_instance, profile, **rule_params)": "(rule cur)", "budget_bound": "bound", "budget_step": "step", "exhaustive_stop": "exhaustiveStop"},
               {"instance.is_feasible": "feasible", "instance.is_exhaustive": "exhaustive"}, {"resoluteness": True}, "List Nat", "prev", bools=("exhaustiveStop",))),
    ("C09", "budgetIncreaseAllWhile", None, None,
     whileloop(EXH, "exhaustion_by_budget_increase", "budgetIncreaseAllWhile",
               "(rule : Rat → List (List Nat)) (feasible exhaustive : List Nat → Bool) (exhaustiveStop : Bool) (step bound : Rat)",
               [("current_instance.budget_limit", "cur", "Rat"), ("previous_outcome", "prev", "List (List Nat)")],
               {"rule(current_instance, profile, **rule_params)": "(rule cur)", "budget_bound": "bound", "budget_step": "step", "exhaustive_stop": "exhaustiveStop"},
               {"instance.is_feasible": "feasible", "instance.is_exhaustive": "exhaustive"}, {"resoluteness": False}, "List (List Nat)", "prev", bools=("exhaustiveStop",))),
    ("C09", "defaultStep", "(budget : Rat)", "Rat", assign(EXH, "exhaustion_by_budget_increase", "budget_step", {"instance.budget_limit": "budget"})),
    ("C09", "defaultBound", "(budget n : Rat)", "Rat", assign(EXH, "exhaustion_by_budget_increase", "budget_bound", {"instance.budget_limit": "budget", "profile.num_ballots()": "n"})),
    ("C09", "withinBound", "(cur bound : Rat)", "Bool", test(EXH, "exhaustion_by_budget_increase", "budget_bound", {"current_instance.budget_limit": "cur", "budget_bound": "bound"}, k=1)),
    ("C09", "nextBudget", "(cur step : Rat)", "Rat", assign(EXH, "exhaustion_by_budget_increase", "current_instance.budget_limit", {"current_instance.budget_limit": "cur", "budget_step": "step"})),
    ("C09", "nextBudgetAll", "(cur step : Rat)", "Rat", assign(EXH, "exhaustion_by_budget_increase", "current_instance.budget_limit", {"current_instance.budget_limit": "cur", "budget_step": "step"}, k=1)),
    # ---- C13: tie-breaking keys
    ("C13", "lexicoKey", "(name : Rat)", "Rat", lam(TIE, "lexico_tie_breaking", {"proj.name": "name"})),
    ("C13", "appScoreKey", "(score : Rat)", "Rat", lam(TIE, "app_score_tie_breaking", {"prof.approval_score(proj)": "score"})),
    ("C13", "minCostKey", "(cost : Rat)", "Rat", lam(TIE, "min_cost_tie_breaking", {"proj.cost": "cost"})),
    ("C13", "maxCostKey", "(cost : Rat)", "Rat", lam(TIE, "max_cost_tie_breaking", {"proj.cost": "cost"})),
    # the order and the identity of projects (what `sorted(projects)`, the pre-sort of every tie-breaking rule, and set membership use):
    # comparing a project with a project (first return) and with a name (second return) compares the NAMES
    ("C13", "projectLt", "(a b : Rat)", "Bool", ret(INST, "Project.__lt__", 0, {"self.name": "a", "other.name": "b"}, n_returns=2)),
    ("C13", "projectLtName", "(a b : Rat)", "Bool", ret(INST, "Project.__lt__", 1, {"self.name": "a", "other": "b"}, n_returns=2)),
    ("C13", "projectLe", "(a b : Rat)", "Bool", ret(INST, "Project.__le__", 0, {"self.name": "a", "other.name": "b"}, n_returns=2)),
    ("C13", "projectLeName", "(a b : Rat)", "Bool", ret(INST, "Project.__le__", 1, {"self.name": "a", "other": "b"}, n_returns=2)),
    ("C13", "projectEq", "(a b : Rat)", "Bool", ret(INST, "Project.__eq__", 0, {"self.name": "a", "other.name": "b"}, n_returns=3)),
    ("C13", "projectEqName", "(a b : Rat)", "Bool", ret(INST, "Project.__eq__", 1, {"self.name": "a", "other": "b"}, n_returns=3)),
    ("C13", "projectEqOther", "", "Bool", ret(INST, "Project.__eq__", 2, {}, n_returns=3)),
    ("C13", "projectHash", "(h : Rat → Rat) (a : Rat)", "Rat", whole(INST, "Project.__hash__", {"hash(self.name)": "(h a)"})),
    # ---- C18: statistics
    ("C18", "meanUpdate", "(mean value n : Rat)", "Rat", assign(UTL, "mean_generator", "mean", {"mean": "mean", "value": "value", "n": "n"}, k=1)),
    ("C18", "giniFormula", "(num cum total : Rat)", "Rat",
     exprc(UTL, "gini_coefficient", "frac(num_values + 1", {"num_values": "num", "total_cum_sum": "cum", "sum(values)": "total"})),
    # the cumulative loop of `gini_coefficient` (statement-level leaf); `x` = (rank i of the value in the sorted list, the value)
    ("C18", "giniCumLoop", None, None,
     loop(UTL, "gini_coefficient", "enumerate(sorted_values)", "giniCumLoop", "(num : Rat)", [("total_cum_sum", "cum", "Rat")], ("(i, v)", "Rat × Rat"),
          {"v": "x.2", "i": "x.1", "num_values": "num"})),
    ("C18", "giniTerm", "(v num i : Rat)", "Rat", assign(UTL, "gini_coefficient", "total_cum_sum", {"total_cum_sum": "(0 : Rat)", "v": "v", "num_values": "num", "i": "i"}, k=1)),
    ("C18", "histTop", "(s mx : Rat)", "Bool", test(VSAT, "satisfaction_histogram", "satisfaction >= max_satisfaction", {"satisfaction": "s", "max_satisfaction": "mx"})),
    ("C18", "histArg", "(s bins mx : Rat)", "Rat",
     exprc(VSAT, "satisfaction_histogram", "satisfaction * (num_bins - 1)", {"satisfaction": "s", "num_bins": "bins", "max_satisfaction": "mx"}, kind=ast.BinOp, k=1)),
]


def render(prop):
    out = [
        "/-",
        f"  Gen.{prop} — REGENERATED from the current source of /repo by harness/translate.py on every check run.",
        "  Do not edit: the bridge theorems in PabuProofs/Bridge re-prove these definitions equal to the model's formulas.",
        "-/",
        f"namespace Gen.{prop}",
        "",
    ]
    problems = []
    for p, name, params, ret, producer in LEAVES:
        if p != prop:
            continue
        try:
            body = producer()
            if isinstance(body, RawDef):
                out.append(body.text)
            else:
                out.append(f"def {name} {params} : {ret} := {body}")
        except (TranslationError, SyntaxError, FileNotFoundError, KeyError) as e:
            problems.append(f"{prop}.{name}: {e}")
            # placeholder of a different type: the bridge theorem for this leaf cannot check
            out.append(f"/-- translation failed: {str(e)[:200].replace('-/', '- /')} -/")
            out.append(f"def {name} : Unit := ()")
        out.append("")
    out.append(f"end Gen.{prop}")
    return "\n".join(out) + "\n", problems


def props_with_leaves():
    seen = []
    for p, *_ in LEAVES:
        if p not in seen:
            seen.append(p)
    return seen


# a property's obligations may also rest on the leaf layer of other properties
DEPENDS = {"C01": ["C02", "C03", "C04", "C05"], "C07": ["C02", "C12"], "C08": ["C13"], "C18": ["C06"], "C16": ["C13"]}


def regenerate(only=None):
    """rewrite lean/Gen/<Prop>.lean from /repo; returns the list of translation problems"""
    os.makedirs(GEN_DIR, exist_ok=True)
    problems = []
    if only is not None and only in DEPENDS:
        for dep in DEPENDS[only]:
            problems += regenerate(only=dep)
    # table generators (container op tables for C17, write summaries for C20)
    if only in (None, "C17"):
        try:
            from . import translate_containers

            translate_containers.regenerate(core.REPO, core.LEAN_DIR)
        except Exception as e:  # noqa: BLE001
            problems.append("C17.containers: %r" % (e,))
    if only in (None, "C20"):
        try:
            from . import translate_effects

            translate_effects.regenerate(core.REPO, core.LEAN_DIR)
        except Exception as e:  # noqa: BLE001
            problems.append("C20.effects: %r" % (e,))
    if only in (None, "C13", "C20"):
        # static footprint of state that survives a call (module/class-level containers, memo decorators, lazy caches)
        try:
            from . import translate_state

            translate_state.regenerate(core.REPO, core.LEAN_DIR)
        except Exception as e:  # noqa: BLE001
            problems.append("state footprint: %r" % (e,))
    for prop in props_with_leaves():
        if only is not None and prop != only:
            continue
        text, pr = render(prop)
        problems += pr
        path = os.path.join(GEN_DIR, f"{prop}.lean")
        old = open(path).read() if os.path.exists(path) else None
        if old != text:
            with open(path, "w") as f:
                f.write(text)
    return problems


if __name__ == "__main__":
    for p in regenerate():
        print("PROBLEM", p)
    print("regenerated", props_with_leaves())
