"""translator placeholder: regenerate() rewrites lean/Gen/*.lean from /repo (filled in later)."""


def regenerate():
    return None
