"""
Independent reference definitions (fractions.Fraction only, no pabutools import): satisfaction
formulas, tie-breaking, textbook Equal Shares / greedy / Phragmén, brute-force optima.
These are the property predicates evaluated on the implementation's own outputs.
"""
from __future__ import annotations

import itertools
from fractions import Fraction as F

INF = float("inf")


# ----------------------------------------------------------------------------------------------
# elections in plain form: names, cost dict, budget, voters = list of ballots (expanded)


def ballot_has(btype, b, p):
    return p in b


def subsets(xs):
    xs = list(xs)
    for r in range(len(xs) + 1):
        for c in itertools.combinations(xs, r):
            yield list(c)


def max_card(cost, ps, budget):
    best = 0
    for s in subsets(ps):
        if sum((cost[p] for p in s), F(0)) <= budget:
            best = max(best, len(s))
    return best


def max_cost(cost, ps, budget):
    best = F(0)
    for s in subsets(ps):
        c = sum((cost[p] for p in s), F(0))
        if c <= budget:
            best = max(best, c)
    return best


def max_score(cost, score, ps, budget):
    best = F(0)
    for s in subsets(ps):
        if sum((cost[p] for p in s), F(0)) <= budget:
            best = max(best, sum((F(score.get(p, 0)) for p in s), F(0)))
    return best


def total(cost, S):
    return sum((cost[p] for p in S), F(0))


def feasible(cost, S, budget):
    return total(cost, S) <= budget


def exhaustive(cost, S, avail, budget):
    """no available project outside S fits on top of S"""
    c = total(cost, S)
    return not any(p not in S and c + cost[p] <= budget for p in avail)


def trivial(cost, ps, budget):
    """everything fits, or nothing does (no non-empty subset is feasible)"""
    if total(cost, ps) <= budget:
        return True
    return not any(len(s) > 0 and total(cost, s) <= budget for s in subsets(ps))


def sublists_model(xs):
    """the enumeration order of the Lean model's `sublists` (without head first, then with head)"""
    xs = list(xs)
    if not xs:
        return [[]]
    r = sublists_model(xs[1:])
    return r + [[xs[0]] + l for l in r]


FLOAT_MEASURES = ("Cost_Sqrt_Sat", "Cost_Log_Sat", "Additive_Cost_Sqrt_Sat", "Additive_Cost_Log_Sat")


def sat_float(measure, case, ballot, S):
    """documented value of the float-based measures (math.sqrt / math.log of the exact argument)"""
    import math

    S = [p for p in S if p in ballot]
    if measure == "Cost_Sqrt_Sat":
        return math.sqrt(total(case.cost, S))
    if measure == "Cost_Log_Sat":
        return math.log(1 + total(case.cost, S))
    if measure == "Additive_Cost_Sqrt_Sat":
        return math.fsum(math.sqrt(case.cost[p]) for p in S)
    if measure == "Additive_Cost_Log_Sat":
        return math.fsum(math.log(1 + case.cost[p]) for p in S)
    raise KeyError(measure)


def sat_project(measure, case, ballot, p, voters=None):
    """documented per-project value of an additive measure, for one voter's ballot"""
    cost, budget, btype = case.cost, case.budget, case.btype
    inb = 1 if p in ballot else 0
    ps = list(ballot.keys()) if isinstance(ballot, dict) else list(ballot)
    if measure == "Cardinality_Sat":
        return F(inb)
    if measure == "Cost_Sat":
        return F(inb) * cost[p]
    if measure == "Relative_Cardinality_Sat":
        n = max_card(cost, ps, budget)
        return F(0) if n == 0 else F(inb, n)
    if measure == "Relative_Cost_Sat":
        n = max_cost(cost, ps, budget)
        return F(0) if n == 0 else F(inb) * cost[p] / n
    if measure == "Relative_Cost_Approx_Normaliser_Sat":
        n = min(sum((cost[x] for x in ps), F(0)), budget)
        return F(0) if n == 0 else F(inb) * cost[p] / n
    if measure == "Effort_Sat":
        voters = case.ballots if voters is None else voters
        d = sum(1 for b in voters if p in b)
        return F(0) if d == 0 else F(inb) * cost[p] / d
    if measure == "Additive_Cardinal_Sat":
        return F(ballot.get(p, 0))
    if measure == "Additive_Cardinal_Relative_Sat":
        n = max_score(cost, ballot, case.names, budget)
        return F(0) if n == 0 else F(ballot.get(p, 0)) / n
    if measure == "Additive_Borda_Sat":
        if p in ballot:
            return F(len(ballot) - list(ballot).index(p) - 1)
        return F(0)
    raise KeyError(measure)


def sat_set(measure, case, ballot, S, voters=None):
    S = list(dict.fromkeys(S))
    if measure == "CC_Sat":
        if isinstance(ballot, dict):
            return max([F(ballot[p]) for p in S if p in ballot and ballot[p] > 0] + [F(0)])
        return F(1 if any(p in ballot for p in S) else 0)
    return sum((sat_project(measure, case, ballot, p, voters) for p in S), F(0))


def utilities(measure, case):
    """u[v][name] for every voter (expanded list)"""
    return [{p: sat_project(measure, case, b, p) for p in case.names} for b in case.ballots]


# ----------------------------------------------------------------------------------------------
# tie-breaking: strict order = (key, name)


def tie_key(tie, case):
    if tie == "lexico":
        return lambda p: (0, p)
    if tie == "app_score":
        return lambda p: (-sum(1 for b in case.ballots if p in b), p)
    if tie == "min_cost":
        return lambda p: (case.cost[p], p)
    if tie == "max_cost":
        return lambda p: (-case.cost[p], p)
    if tie.startswith("perm:"):
        order = [int(x) for x in tie[5:].split(".") if x != ""]
        pos = {case.names[i]: k for k, i in enumerate(order)}
        return lambda p: (pos.get(p, len(pos)), p)
    raise KeyError(tie)


# ----------------------------------------------------------------------------------------------
# Equal Shares, textbook: rho by the rich/poor fixed point on the expanded voter list


def mes_rho(cost_c, supporters, money, u):
    """least rho with sum_i min(money_i, rho*u_i) >= cost, or None if unaffordable.
    rich/poor fixed point (a different algorithm from the implementation's sorted sweep)"""
    if sum((money[i] for i in supporters), F(0)) < cost_c:
        return None
    rich = set(supporters)
    poor = set()
    while rich:
        num = cost_c - sum((money[i] for i in poor), F(0))
        den = sum((u[i] for i in rich), F(0))
        rho = num / den
        newpoor = {i for i in rich if money[i] < rho * u[i]}
        if not newpoor:
            return rho
        rich -= newpoor
        poor |= newpoor
    return None


def mes(case, U, tie="lexico", init=(), b0=None, branch=False):
    """textbook Equal Shares on expanded voters; U[v][p] utilities.
    returns purchase list (resolute) or set of frozensets (branch=True: all tie orders)"""
    n = len(case.ballots)
    b0 = case.budget / n if b0 is None else b0
    key = tie_key(tie, case) if not branch else None
    init = list(init)
    supp = {p: [v for v in range(n) if U[v][p] > 0] for p in case.names}
    zero = [p for p in case.names if p not in init and supp[p] and case.cost[p] == 0]
    pool0 = [p for p in case.names if p not in init and supp[p] and case.cost[p] > 0]

    def step(money, pool):
        rhos = {}
        for p in pool:
            r = mes_rho(case.cost[p], supp[p], money, [U[v][p] for v in range(n)])
            if r is not None:
                rhos[p] = r
        if not rhos:
            return None, None
        best = min(rhos.values())
        return best, [p for p in pool if p in rhos and rhos[p] == best]

    def pay(money, p, rho):
        m2 = list(money)
        for v in supp[p]:
            m2[v] = money[v] - min(money[v], rho * U[v][p])
        return m2

    if not branch:
        money = [b0] * n
        pool = list(pool0)
        bought = []
        mes.last_had_tie = False  # did some round of this run have more than one project at the least price (read by C02's refuse stream)
        while True:
            rho, tied = step(money, pool)
            if rho is None:
                break
            if len(tied) > 1:
                mes.last_had_tie = True
            sel = min(tied, key=key)
            money = pay(money, sel, rho)
            pool.remove(sel)
            bought.append(sel)
        return init + zero + bought, money
    results = set()

    def rec(money, pool, bought):
        rho, tied = step(money, pool)
        if rho is None:
            results.add(frozenset(init + zero + bought))
            return
        for sel in tied:
            rec(pay(money, sel, rho), [q for q in pool if q != sel], bought + [sel])

    rec([b0] * n, list(pool0), [])
    return results


def mes_iterated(case, U, inc, tie="lexico", branch=False, max_tries=2000):
    """iterated Equal Shares from its stopping rule, on top of the textbook procedure above (no library code): the voters
    start with budget/n each, then budget/n + inc, budget/n + 2 inc, ...; the answer is the outcome at the first voter
    budget whose outcome is exhaustive — judged over the projects the rule can buy at all (supported, positive cost) — or
    else the outcome of the last try before the first one whose outcome costs more than the budget limit.  Every try runs
    over ALL supported projects, also those dearer than the whole budget limit: inflated voter budgets can pay for them,
    and the try that does is the infeasible one that ends the iteration.
    -> (list of outcomes (lists of names; one if not branch), tries, why, outcomes of the last try) with why in
       {"exhaustive", "infeasible"}; (None, tries, "bound", None) if max_tries is reached"""
    n = len(case.ballots)
    names = case.names
    supported = [p for p in names if any(U[v][p] > 0 for v in range(n))]
    buyable = [p for p in supported if case.cost[p] > 0]
    B = case.budget
    b = B / n
    prev = [[p for p in supported if case.cost[p] == 0]]  # before any try: the free supported projects
    for tries in range(1, max_tries + 1):
        if branch:
            outs = [sorted(W) for W in mes(case, U, b0=b, branch=True)]
        else:
            outs = [list(mes(case, U, tie=tie, b0=b)[0])]
        if any(total(case.cost, W) > B for W in outs):
            return prev, tries, "infeasible", outs
        if any(exhaustive(case.cost, W, buyable, B) for W in outs):
            return outs, tries, "exhaustive", outs
        b += inc
        prev = outs
    return None, max_tries, "bound", None


# ----------------------------------------------------------------------------------------------
# greedy, textbook: round by round, any set function


def greedy(case, tsat, tie="lexico", init=(), branch=False):
    """tsat(list of names) -> total satisfaction.  Returns list (resolute) or set of frozensets."""
    key = tie_key(tie, case) if not branch else None
    B = case.budget

    def cands(alloc):
        c = sum((case.cost[p] for p in alloc), F(0))
        return [p for p in case.names if p not in alloc and c + case.cost[p] <= B]

    def argmax(alloc, cs):
        base = tsat(alloc)
        best, arg = None, []
        for p in cs:
            if case.cost[p] > 0:
                sc = (tsat(alloc + [p]) - base) / case.cost[p]
            else:
                sc = INF
            if best is None or sc > best:
                best, arg = sc, [p]
            elif sc == best:
                arg.append(p)
        return arg

    if not branch:
        alloc = list(init)
        while True:
            cs = cands(alloc)
            if not cs:
                return alloc
            alloc = alloc + [min(argmax(alloc, cs), key=key)]
    results = set()

    def rec(alloc):
        cs = cands(alloc)
        if not cs:
            results.add(frozenset(alloc))
            return
        for p in argmax(alloc, cs):
            rec(alloc + [p])

    rec(list(init))
    return results


# ----------------------------------------------------------------------------------------------
# sequential Phragmén, as a money process on the expanded voter list


def phragmen(case, tie="lexico", init=(), loads=None, branch=False):
    """continuous-money process: voter v has balance t - load_v at time t.  A project is purchasable at the
    first instant its supporters' balances sum to its cost; conventions of the implementation as given:
    projects costing more than the budget are ignored, stop when any project purchasable at the next
    instant would overshoot, unsupported projects are appended in tie order while they fit."""
    n = len(case.ballots)
    loads = [F(0)] * n if loads is None else [F(x) for x in loads]
    key = tie_key(tie, case) if not branch else None
    B = case.budget
    supp = {p: [v for v in range(n) if p in case.ballots[v]] for p in case.names}
    pool0 = [p for p in case.names if p not in init and case.cost[p] <= B]

    def instant(load, p):
        s = supp[p]
        if not s:
            return INF
        # sum_{v in s} (t - load_v) = cost  =>  t = (cost + sum load) / |s|
        return (case.cost[p] + sum((load[v] for v in s), F(0))) / len(s)

    def step(load, pool, spent):
        if not pool:
            return None, None
        ts = {p: instant(load, p) for p in pool}
        t = min(ts.values())
        tied = [p for p in pool if ts[p] == t]
        if any(spent + case.cost[p] > B for p in tied):
            return None, None
        return t, tied

    def buy(load, p, t):
        l2 = list(load)
        for v in supp[p]:
            l2[v] = t  # balance reset to zero at time t
        return l2

    if not branch:
        load, pool, alloc = list(loads), list(pool0), list(init)
        spent = sum((case.cost[p] for p in alloc), F(0))
        while True:
            t, tied = step(load, pool, spent)
            if t is None:
                return alloc
            sel = min(tied, key=key)
            load = buy(load, sel, t)
            pool.remove(sel)
            alloc.append(sel)
            spent += case.cost[sel]
    results = set()

    def rec(load, pool, alloc, spent):
        t, tied = step(load, pool, spent)
        if t is None:
            results.add(frozenset(alloc))
            return
        for sel in tied:
            rec(buy(load, sel, t), [q for q in pool if q != sel], alloc + [sel], spent + case.cost[sel])

    rec(list(loads), list(pool0), list(init), sum((case.cost[p] for p in init), F(0)))
    return results


# ----------------------------------------------------------------------------------------------
# welfare optimum by brute force


def welfare_opt(case, profit, init=()):
    init = list(init)
    rest = [p for p in case.names if p not in init]
    base = sum((case.cost[p] for p in init), F(0))
    best, arg = None, []
    for s in subsets(rest):
        if base + sum((case.cost[p] for p in s), F(0)) <= case.budget:
            v = sum((profit[p] for p in init + s), F(0))
            if best is None or v > best:
                best, arg = v, [frozenset(init + s)]
            elif v == best:
                arg.append(frozenset(init + s))
    return best, arg
