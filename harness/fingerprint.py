"""
fingerprint — has the library's source changed since the checks were last validated against it?

`tools/fingerprints.json` holds, for every module under pabutools/, a hash of its syntax tree (comments, blank lines and
formatting do not count; docstrings are dropped).  A check that finds the CURRENT tree different does not conclude anything
from that — a changed source is neither a broken obligation nor a violation — it only spends more effort where there is
something new to look at: in the quick tier every stream is drawn `BOOST` times as long (capped by the thorough size).
Regenerate with `/venv/bin/python tools/mkfingerprints.py` after every commit to /repo.
"""
from __future__ import annotations

import ast
import hashlib
import json
import os

from . import core

BOOST = 3
PATH = os.path.join(core.VERIF, "tools", "fingerprints.json")


def _strip_docstrings(tree):
    for node in ast.walk(tree):
        if isinstance(node, (ast.Module, ast.FunctionDef, ast.AsyncFunctionDef, ast.ClassDef)) and node.body:
            first = node.body[0]
            if isinstance(first, ast.Expr) and isinstance(first.value, ast.Constant) and isinstance(first.value.value, str):
                node.body = node.body[1:] or [ast.Pass()]
    return tree


def of_file(path):
    try:
        tree = _strip_docstrings(ast.parse(open(path, encoding="utf-8").read()))
        return hashlib.sha1(ast.dump(tree, include_attributes=False).encode()).hexdigest()
    except SyntaxError:
        return "syntax-error"


def scan(repo):
    import sys

    out = {"#python": "%d.%d" % sys.version_info[:2]}  # ast.dump is only comparable within one minor version
    root = os.path.join(repo, "pabutools")
    for d, _dirs, files in os.walk(root):
        for f in sorted(files):
            if f.endswith(".py"):
                p = os.path.join(d, f)
                out[os.path.relpath(p, repo)] = of_file(p)
    return out


def changed(repo=None):
    """modules whose syntax tree differs from the recorded one (added and removed modules included); [] if no record"""
    try:
        want = json.load(open(PATH))
    except (OSError, ValueError):
        return []
    have = scan(repo or core.REPO)
    if want.get("#python") != have.get("#python"):
        return []  # recorded by another interpreter: nothing can be said
    return sorted(k for k in set(want) | set(have) if want.get(k) != have.get(k))
