"""
solverbox — run calls that reach the CBC solver in a worker subprocess.

The bundled CBC build can abort the whole process or return an answer that is invalid for the model
it was given.  The harness therefore never calls the solver in-process:

    box = Box()                          # spawns `python -m harness.pricebox` (same interpreter, same PABU_REPO)
    ans = box.call({"op": "priceable", "case": case.to_json(), "W": [...]|None, "stable": b, "exhaustive": b})
    ans is None                          # worker died / timed out -> solver fault (box.faults += 1), worker restarted
    ans = {"status": "OPTIMAL"|"FEASIBLE"|"INFEASIBLE"|..., "alloc": [names], "b": float, "pf": [[float per name]],
           "validate": bool}             # `validate` = the library's own validate_price_system on the returned system
    ans = box.call({"op": "relax", "case": ..., "W": [...]|None, "kind": "mul"|"add"|"vec"|"vecpos"|"off", "exhaustive": b})
                                         # priceable(..., stable=True, relaxation=R(inst, prof)); the answer additionally has
                                         # "beta" (the objective value: beta / sum of beta_c / beta_global), "beta_global",
                                         # "betav" (beta_c per name), "rc" (R.get_relaxed_cost per name) and `validate` is
                                         # validate_price_system(..., stable=True, relaxation=<the same R with its saved beta>)
    ans = {"error": "<exception class>: message"}   # Python exception inside the library call

Protocol: one JSON object per line on the worker's stdin; answers on a dedicated pipe (fd passed with
--fd) because CBC writes to the C-level stdout.
"""
from __future__ import annotations

import json
import os
import select
import subprocess
import sys


class Box:
    def __init__(self, timeout=60):
        self.timeout = timeout
        self.faults = 0
        self.fault_kinds = {}
        self.p = None
        self._spawn()

    def _spawn(self):
        r, w = os.pipe()
        env = dict(os.environ)
        here = os.path.dirname(os.path.dirname(os.path.abspath(__file__)))
        env["PYTHONPATH"] = here + os.pathsep + env.get("PYTHONPATH", "")
        self.p = subprocess.Popen(
            [sys.executable, "-m", "harness.pricebox", "--fd", str(w)],
            stdin=subprocess.PIPE, stdout=subprocess.DEVNULL, stderr=subprocess.DEVNULL, pass_fds=(w,), env=env, cwd=here,
        )
        os.close(w)
        self.r = r
        self.buf = b""

    def _readline(self, timeout):
        while b"\n" not in self.buf:
            ready, _, _ = select.select([self.r], [], [], timeout)
            if not ready:
                return None, "timeout"
            chunk = os.read(self.r, 65536)
            if not chunk:
                return None, "abort"
            self.buf += chunk
        line, self.buf = self.buf.split(b"\n", 1)
        return line, None

    def _fault(self, kind):
        self.faults += 1
        self.fault_kinds[kind] = self.fault_kinds.get(kind, 0) + 1
        try:
            self.p.kill()
            self.p.wait(timeout=10)
        except Exception:  # noqa: BLE001
            pass
        try:
            os.close(self.r)
        except OSError:
            pass
        self._spawn()

    def call(self, job):
        try:
            self.p.stdin.write((json.dumps(job) + "\n").encode())
            self.p.stdin.flush()
        except (BrokenPipeError, OSError):
            self._fault("abort")
            return None
        line, why = self._readline(self.timeout)
        if line is None:
            self._fault(why)
            return None
        try:
            return json.loads(line)
        except ValueError:
            self._fault("garbled")
            return None

    def close(self):
        try:
            self.p.stdin.close()
            self.p.wait(timeout=10)
        except Exception:  # noqa: BLE001
            try:
                self.p.kill()
            except Exception:  # noqa: BLE001
                pass
        try:
            os.close(self.r)
        except OSError:
            pass


# ----------------------------------------------------------------------------------------------
# worker side


def _priceable(job):
    from . import core
    from .core import Case
    from pabutools.analysis.priceability import priceable, validate_price_system

    case = Case.from_json(job["case"])
    inst, projs = core.build_instance(case)
    prof = core.build_profile(case, inst, projs, multi=False)
    W = job.get("W")
    alloc = None if W is None else [projs[n] for n in W]
    res = priceable(inst, prof, alloc, stable=bool(job.get("stable")), exhaustive=bool(job.get("exhaustive")),
                    max_seconds=int(job.get("max_seconds", 30)))
    out = {"status": res.status.name}
    if res.validate():
        out["alloc"] = sorted(p.name for p in res.allocation)
        out["b"] = float(res.voter_budget)
        out["pf"] = [[float(pf[projs[n]]) for n in case.names] for pf in res.payment_functions]
        out["validate"] = bool(validate_price_system(inst, prof, res.allocation, res.voter_budget, res.payment_functions,
                                                     stable=bool(job.get("stable")), exhaustive=bool(job.get("exhaustive"))))
        if job.get("feedback"):
            # the price system just found, handed back as the caller's own (allocation, voter budget, payment functions): a price
            # system exists, so the call must succeed (round 7, C12-r7A: a shortcut for fully specified calls that dropped `exhaustive`)
            try:
                res2 = priceable(inst, prof, list(res.allocation), voter_budget=res.voter_budget, payment_functions=res.payment_functions,
                                 stable=bool(job.get("stable")), exhaustive=bool(job.get("exhaustive")), max_seconds=int(job.get("max_seconds", 30)))
                out["feedback"] = {"status": res2.status.name, "validate": bool(res2.validate())}
            except Exception as e:  # noqa: BLE001
                out["feedback"] = {"status": "raised " + type(e).__name__ + ": " + str(e)[:120], "validate": False}
            # … and the same system with ONE recorded payment deleted, in the sparse shape the search itself returns (absent = 0): if
            # the validator rejects it, the fully specified call must not report success (round 8, C12-r8B: only recorded entries fixed)
            try:
                import copy as _copy

                pf2 = [_copy.copy(pf) for pf in res.payment_functions]
                hit = None
                for i, pf in enumerate(pf2):
                    for c in list(pf):
                        if pf[c] > 1e-6:
                            hit = (i, c)
                            break
                    if hit:
                        break
                if hit is not None:
                    del pf2[hit[0]][hit[1]]
                    pf3 = [_copy.copy(pf) for pf in pf2]
                    res3 = priceable(inst, prof, list(res.allocation), voter_budget=res.voter_budget, payment_functions=pf2,
                                     stable=bool(job.get("stable")), exhaustive=bool(job.get("exhaustive")), max_seconds=int(job.get("max_seconds", 30)))
                    ok3 = bool(validate_price_system(inst, prof, list(res.allocation), res.voter_budget, pf3,
                                                     stable=bool(job.get("stable")), exhaustive=bool(job.get("exhaustive"))))
                    out["feedback_corrupt"] = {"validator": ok3, "search": bool(res3.validate()), "deleted": [hit[0], hit[1].name]}
            except Exception as e:  # noqa: BLE001
                out["feedback_corrupt"] = {"error": type(e).__name__ + ": " + str(e)[:120]}
    return out


RELAX_CLASSES = {"mul": "MinMul", "add": "MinAdd", "vec": "MinAddVector", "vecpos": "MinAddVectorPositive", "off": "MinAddOffset"}


def _relax(job):
    from . import core
    from .core import Case
    from pabutools.analysis.priceability import priceable, validate_price_system
    import pabutools.analysis.priceability_relaxation as rel

    case = Case.from_json(job["case"])
    inst, projs = core.build_instance(case)
    prof = core.build_profile(case, inst, projs, multi=False)
    W = job.get("W")
    alloc = None if W is None else [projs[n] for n in W]
    R = getattr(rel, RELAX_CLASSES[job["kind"]])(inst, prof)
    if job.get("W_prior") is not None:
        # the caller's relaxation object has been through another search before (round 7, C12-r7B: per-project values of the earlier
        # search surviving in the object): the answer of THIS call is judged like any other
        try:
            priceable(inst, prof, [projs[n] for n in job["W_prior"]], stable=True, exhaustive=False, relaxation=R, max_seconds=int(job.get("max_seconds", 30)))
        except Exception:  # noqa: BLE001
            pass
    res = priceable(inst, prof, alloc, stable=True, exhaustive=bool(job.get("exhaustive")), relaxation=R,
                    max_seconds=int(job.get("max_seconds", 30)))
    out = {"status": res.status.name}
    if res.validate():
        out["alloc"] = sorted(p.name for p in res.allocation)
        out["b"] = float(res.voter_budget)
        out["pf"] = [[float(pf[projs[n]]) for n in case.names] for pf in res.payment_functions]
        beta = res.relaxation_beta
        if isinstance(beta, dict):
            out["betav"] = [float(beta["beta"].get(projs[n], 0)) for n in case.names]
            out["beta_global"] = float(beta["beta_global"]) if "beta_global" in beta else None
            out["beta"] = float(beta["beta_global"]) if "beta_global" in beta else float(beta["sum"])
            out["sum"] = float(beta["sum"])
        else:
            out["betav"] = None
            out["beta_global"] = float(beta)
            out["beta"] = float(beta)
        out["rc"] = [float(R.get_relaxed_cost(projs[n])) for n in case.names]
        out["validate"] = bool(validate_price_system(inst, prof, res.allocation, res.voter_budget, res.payment_functions,
                                                     stable=True, exhaustive=bool(job.get("exhaustive")), relaxation=R))
    return out


OPS = {"priceable": _priceable, "relax": _relax}


def _worker(fd):
    out = os.fdopen(fd, "w")
    devnull = os.open(os.devnull, os.O_WRONLY)
    os.dup2(devnull, 1)
    os.dup2(devnull, 2)
    for line in sys.stdin:
        line = line.strip()
        if not line:
            continue
        job = json.loads(line)
        try:
            ans = OPS[job["op"]](job)
        except Exception as e:  # noqa: BLE001
            ans = {"error": f"{type(e).__name__}: {e}"}
        out.write(json.dumps(ans) + "\n")
        out.flush()


if __name__ == "__main__":
    _worker(int(sys.argv[sys.argv.index("--fd") + 1]))
