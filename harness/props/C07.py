"""C07 — the recorded Equal Shares run (analytics) is an exact, valid price system."""
from __future__ import annotations

import json
from fractions import Fraction as F

from .. import core, oracle, rulegen, rules, ruleprops
from ..core import Case, toF
from ..ruleprops import violation
from . import C02, C07_analytics

RULE = ("seeded elections x additive measures x tie rules x Profile/MultiProfile x plain/iterated; Equal Shares is run with analytics=True and "
        "every clause is re-checked on details.iterations with Fractions (equal start, conservation, only supporters pay, no overdraft, "
        "common rho, exact cover, chaining, terminal unaffordability, outcome unchanged by analytics, validator accepts the payments); the "
        "iterations are diffed field by field with the Lean model's trace; non-trivial = >=2 selecting iterations and >=1 capped payment")
ASSUMPTIONS = ["additive measures", "validator clause on approval ballots (the validator is defined for approval profiles)"]


def check_details(case, cfg, built, out, out_plain):
    """returns (violations, stats)"""
    vs = []
    sig = {"rule": "mes", "sat": cfg["sat"], "multi": bool(cfg.get("multi")), "iterated": cfg.get("inc") is not None}
    names = case.names
    det = out.details
    mult = list(det.voter_multiplicity)
    entries = built.entries()
    if cfg.get("sp_repr") == "other":
        entries = rules.Built(case, multi=not built.multi).entries()  # the voters are those of the satisfaction profile handed over
    elif cfg.get("sp_repr") == "direct-multi":
        entries = rules.Built(case, multi=True).entries()
    its = det.iterations
    if sorted(p.name for p in out) != sorted(p.name for p in out_plain):
        vs.append(violation("requesting run details changes the outcome", case, cfg, impl=sorted(p.name for p in out), expected=sorted(p.name for p in out_plain), sig=dict(sig, clause="neutral")))
    if not its:
        vs.append(violation("no iteration recorded", case, cfg, sig=dict(sig, clause="shape")))
        return vs, {}
    # utilities per entry (independent formulas on the expanded list; entries are distinct ballots)
    class _It:
        pass
    it = _It(); it.case = case; it.cfg = cfg
    Uexp = C02.utilities_for(it)
    key2idx = {}
    for v, b in enumerate(case.ballots):
        key2idx.setdefault(case.ballot_key(b), v)
    U = [Uexp[key2idx[case.ballot_key(b)]] for b, _ in entries]
    if [m for _, m in entries] != mult:
        vs.append(violation("voter_multiplicity does not match the profile", case, cfg, impl=mult, sig=dict(sig, clause="shape")))
        return vs, {}
    k = len(entries)
    start = [toF(x) for x in its[0].voters_budget]
    if len(set(start)) > 1:
        vs.append(violation("voters do not start with the same amount", case, cfg, impl=[core.q2s(x) for x in start], sig=dict(sig, clause="start")))
    total0 = sum((start[i] * mult[i] for i in range(k)), F(0))
    if toF(det.get_final_budget()) != total0:
        vs.append(violation("get_final_budget disagrees with the first iteration", case, cfg, sig=dict(sig, clause="start")))
    if cfg.get("inc") is None:
        if total0 != case.budget:
            vs.append(violation(f"initial money {total0} does not add up to the budget {case.budget}", case, cfg, sig=dict(sig, clause="start")))
    elif total0 < case.budget:
        vs.append(violation(f"iterated run reports less money {total0} than the budget {case.budget}", case, cfg, sig=dict(sig, clause="start")))
    capped = False
    selecting = 0
    payments = [dict() for _ in range(k)]
    cur = start
    bought = []
    for idx, itn in enumerate(its):
        before = [toF(x) for x in itn.voters_budget]
        if before != cur:
            vs.append(violation(f"iteration {idx} does not start from the budgets the previous one ended with", case, cfg, sig=dict(sig, clause="chain")))
        sel = itn.selected_project
        if sel is None:
            if idx != len(its) - 1:
                vs.append(violation("an iteration without selection is not the last one", case, cfg, sig=dict(sig, clause="shape")))
            continue
        selecting += 1
        p = sel.name
        bought.append(p)
        after = [toF(x) for x in itn.voters_budget_after_selection]
        pay = [before[i] - after[i] for i in range(k)]
        rho_vals = set()
        for i in range(k):
            u = U[i][p]
            if pay[i] != 0 and u <= 0:
                vs.append(violation(f"a non-supporter pays for {p}", case, cfg, sig=dict(sig, clause="supporters")))
            if pay[i] < 0 or pay[i] > before[i]:
                vs.append(violation(f"voter entry {i} pays {pay[i]} while holding {before[i]}", case, cfg, sig=dict(sig, clause="overdraft")))
            if u > 0:
                if pay[i] < before[i]:
                    rho_vals.add(pay[i] / u)
                else:
                    capped = capped or True
        if len(rho_vals) > 1:
            vs.append(violation(f"payments for {p} are not min(money, rho*utility) for one common rho", case, cfg, sig=dict(sig, clause="rho")))
        elif len(rho_vals) == 1:
            rho = next(iter(rho_vals))
            for i in range(k):
                u = U[i][p]
                if u > 0 and pay[i] != min(before[i], rho * u):
                    vs.append(violation(f"payment of entry {i} for {p} is not min(money, rho*utility)", case, cfg, sig=dict(sig, clause="rho")))
                    break
        tot = sum((pay[i] * mult[i] for i in range(k)), F(0))
        if tot != case.cost[p]:
            vs.append(violation(f"payments for {p} add up to {tot}, not to its cost {case.cost[p]}", case, cfg, sig=dict(sig, clause="exact")))
        for i in range(k):
            if pay[i] != 0:
                payments[i][p] = payments[i].get(p, F(0)) + pay[i]
        cur = after
    if its[-1].selected_project is not None:
        vs.append(violation("the recorded run does not end with an iteration that selects nothing", case, cfg, sig=dict(sig, clause="shape")))
    # terminal: no remaining supported positive-cost project is affordable
    for p in names:
        if p in bought or case.cost[p] <= 0 or p in [q.name for q in out]:
            continue
        supp = [i for i in range(k) if U[i][p] > 0]
        if supp and sum((cur[i] * mult[i] for i in supp), F(0)) >= case.cost[p]:
            vs.append(violation(f"after the last round the supporters of {p} can still pay for it", case, cfg, sig=dict(sig, clause="terminal")))
    # bought projects are exactly the positive-cost part of the outcome, in order
    pos_out = [q.name for q in out if case.cost[q.name] > 0]
    if pos_out != bought:
        vs.append(violation("selected projects of the iterations differ from the outcome", case, cfg, impl=bought, expected=pos_out, sig=dict(sig, clause="shape")))
    # the library's validator accepts the payments (approval ballots, plain variant)
    if case.btype == "app" and cfg.get("inc") is None and not vs:
        from pabutools.analysis.priceability import validate_price_system

        inst0, projs0 = core.build_instance(case)
        # one payment function per voter: expand entries by multiplicity, in entry order
        exp_ballots, pfs = [], []
        for i, (b, m) in enumerate(entries):
            for _ in range(m):
                exp_ballots.append(b)
                pfs.append({projs0[n]: core.to_num(payments[i].get(n, F(0))) for n in names})
        prof0 = core.build_profile(case, inst0, projs0, ballots=exp_ballots)
        W = [projs0[q.name] for q in out]
        ok = validate_price_system(inst0, prof0, W, core.to_num(start[0]), pfs, stable=False, exhaustive=False)
        if not ok:
            zero_unsel = [n for n in names if case.cost[n] == 0 and n not in [q.name for q in out] and any(n in b for b in case.ballots)]
            reason = "approved_zero_cost_project_with_zero_utility" if zero_unsel else "other"
            vs.append(violation("validate_price_system rejects the payments of the recorded run", case, cfg, sig=dict(sig, clause="validator", reason=reason)))
    # project loss on the selecting iterations (as the visualisation module calls it)
    try:
        from pabutools.analysis.mesanalytics import calculate_project_loss
        import copy as _copy

        d2 = _copy.copy(det)
        d2.iterations = [x for x in its if x.selected_project is not None]
        losses = calculate_project_loss(d2) if d2.iterations else []
        cur2 = start
        li = 0
        for itn in d2.iterations:
            p = itn.selected_project.name
            exp_sb = sum((toF(itn.voters_budget[i]) * mult[i] for i in range(k) if U[i][p] > 0), F(0))
            cand = [l for l in losses if l.name == p]
            if not cand or toF(cand[0].supporters_budget) != exp_sb:
                vs.append(violation(f"calculate_project_loss reports a wrong supporters' budget for {p}", case, cfg, sig=dict(sig, clause="loss")))
                break
    except Exception as e:  # noqa: BLE001
        vs.append(violation(f"calculate_project_loss raised {e!r} on the selecting iterations", case, cfg, sig=dict(sig, clause="loss")))
    return vs, {"capped": capped, "selecting": selecting}


def trace_string(case, out):
    parts = []
    for itn in out.details.iterations:
        before = ",".join(core.q2s(x) for x in itn.voters_budget)
        if itn.selected_project is None:
            parts.append(f"{before};-;-;")
        else:
            after = ",".join(core.q2s(x) for x in itn.voters_budget_after_selection)
            parts.append(f"{before};{case.rank[itn.selected_project.name]};*;{after}")
    return "ok " + " ".join(parts)


def pairs(ctx, n):
    rng = ctx.rng
    for _ in range(n):
        case = core.gen_election(rng, btypes=("app", "app", "app", "card", "cum", "ord"), m_lo=1, m_hi=6)
        if rng.random() < 0.25:
            case = core.gen_big_election(rng, btypes=("app", "app", "card", "ord"))
        cfg = rulegen.gen_rule_cfg(rng, case, rules=("mes",), allow_refuse=False)
        cfg["res"] = True
        cfg["analytics"] = True
        if rng.random() < 0.3:
            cfg["inc"] = F(rng.choice([1, F(1, 2), 2, F(1, 3)]))
        if rng.random() < 0.12:
            # the two representations mixed in one call (round 7, C07-r7A): the record is about the voters of the satisfaction profile
            cfg.update(sp_sat=cfg["sat"], sp_repr=rng.choice(["other", "direct-multi"]), sp_only=True)
        yield case, cfg


def neartie_pairs(ctx, n):
    """prices per unit of utility that are close (1e-7 .. 1e-32 apart) but not equal, and huge magnitudes: the common rho of a round
    is an exact number, a tie between projects is an exact equality"""
    rng = ctx.rng
    for _ in range(n):
        case = core.gen_neartie_election(rng) if rng.random() < 0.7 else core.gen_huge_election(rng)
        cfg = rulegen.gen_rule_cfg(rng, case, rules=("mes",), allow_refuse=False)
        cfg["res"] = True
        cfg["analytics"] = True
        if rng.random() < 0.2 and max(case.cost.values()) <= 100:
            cfg["inc"] = F(rng.choice([1, F(1, 2)]))  # (the iterated rule adds `inc` per voter and round: only where costs are small)
        ctx.count("stream", "near-tied prices")
        yield case, cfg


def negscore_pairs(ctx, n):
    """cardinal / cumulative ballots with negative and zero scores (only voters with positive utility are supporters and pay)"""
    from . import C04

    rng = ctx.rng
    for _ in range(n):
        case = C04.gen_negscore_election(rng, 5)
        cfg = rulegen.gen_rule_cfg(rng, case, rules=("mes",), allow_refuse=False)
        cfg["res"] = True
        cfg["analytics"] = True
        if rng.random() < 0.3:
            cfg["inc"] = F(rng.choice([1, F(1, 2), F(1, 3)]))
        ctx.count("stream", "negative-and-zero-scores")
        yield case, cfg


def run_one(case, cfg):
    built = rules.Built(case, multi=cfg.get("multi", False))
    try:
        out = rules.call_rule(built, cfg)
        out_plain = rules.call_rule(built, dict(cfg, analytics=False))
    except Exception as e:  # noqa: BLE001
        return built, None, [violation(f"Equal Shares with analytics raised {e!r}", case, cfg, sig={"rule": "mes", "sat": cfg["sat"], "err": core.err_enum(e)})], {}
    vs, st = check_details(case, cfg, built, out, out_plain)
    return built, out, vs, st


def run(ctx, n=None, compare=True):
    ctx.rule = RULE
    n = n or ctx.scale(1500, 12000)
    lines, info = [], []
    import itertools

    for case, cfg in itertools.chain(pairs(ctx, n), neartie_pairs(ctx, max(1, n // 5)), negscore_pairs(ctx, max(1, n // 5))):
        if ctx.budget_s is not None and ctx.elapsed() > ctx.budget_s:
            break
        built, out, vs, st = run_one(case, cfg)
        ctx.evaluations += 1
        ctx.count("sat", cfg["sat"])
        ctx.count("multi", str(bool(cfg.get("multi"))))
        ctx.count("iterated", str(cfg.get("inc") is not None))
        ctx.count("tie", cfg.get("tie", "lexico"))
        ctx.violations.extend(vs)
        if st.get("selecting", 0) >= 2 and st.get("capped"):
            ctx.nontrivial.add(case.key() + json.dumps(ruleprops.cfg_json(cfg), sort_keys=True))
        if compare and out is not None and not cfg.get("sp_repr"):
            b0 = toF(out.details.iterations[0].voters_budget[0]) if out.details.iterations and len(out.details.iterations[0].voters_budget) else F(0)
            line = "mestrace " + case.enc_common(built.entries(), built.enum()) + f" tie={cfg.get('tie', 'lexico')} init= b0={core.q2s(b0)} " + rules.sat_tokens(built, cfg)
            lines.append(line)
            info.append((trace_string(case, out), case, cfg))
    if compare and lines:
        outs = core.run_driver(lines)
        for line, o, (impl_s, case, cfg) in zip(lines, outs, info):
            # the model prints rho in the third field; the implementation does not record it
            ms = " ".join(";".join((f.split(";")[0], f.split(";")[1], "*" if f.split(";")[1] != "-" else "-", f.split(";")[3])) for f in o.strip()[3:].split(" ")) if o.startswith("ok") else o
            ms = "ok " + ms if o.startswith("ok") else ms
            if ms.strip() != impl_s.strip():
                ctx.disagreements.append({"line": line, "impl": impl_s, "model": o.strip(), "case": case.to_json(), "cfg": ruleprops.cfg_json(cfg)})
            ctx.sample(f"{line} -> impl: {impl_s} | model: {o.strip()}", cap=4)
    C07_analytics.run_analytics(ctx, compare=compare)  # project details, project loss, effective support
    # projects numbered 1 … 13 against '01' … '13': the same outcome and the same per-round record (round 7, drawn last)
    from .. import relabel

    relabel.run(ctx, min(2500, max(200, n // 6)), rules_=("mes",))


def search(ctx, disagreements):
    run(ctx, n=10000, compare=False)


def replay(payload):
    if payload.get("cfg", {}).get("relabel"):
        from .. import relabel

        return relabel.replay(payload)
    if payload.get("sig", {}).get("part") == C07_analytics.PART:
        return C07_analytics.replay(payload)
    case = Case.from_json(payload["case"])
    cfg = ruleprops.cfg_from_json(payload["cfg"])
    built, out, vs, st = run_one(case, cfg)
    want = payload.get("sig", {}).get("clause")
    vs2 = [v for v in vs if want is None or v["sig"].get("clause") == want]
    if vs2:
        return False, "still fails: " + vs2[0]["what"]
    return True, "property holds on the replayed input"
