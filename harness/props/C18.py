"""C18 — election and outcome statistics equal their textbook definitions.

Every public statistic of `pabutools.analysis` (statistics part) and the two helpers of
`pabutools.utils` (`mean_generator`, `gini_coefficient`) is run on the real library, compared with

  (a) the textbook formula over the EXPANDED voter list (each voter once), written here with
      `fractions.Fraction` only (satisfaction values come from `harness/oracle.py`), and
  (b) the compiled Lean model (`stats op=…`, lean/Driver/Stats.lean).

Float-valued statistics (`np.median`, `np.std`, `np.exp`, the float histogram, measures with sqrt/log)
are compared within 1e-9 relative error; everything else exactly.
"""
from __future__ import annotations

import math
import random
import warnings
from fractions import Fraction as F

from .. import core, oracle
from ..core import Case, q2s, toF

RULE = ("seeded structured elections (approval, cardinal, cumulative, ordinal) x Profile/MultiProfile x outcomes "
        "(all feasible allocations on small instances, a sample otherwise) x satisfaction measures x histogram bin counts "
        "2..25 with normalisers chosen so that satisfactions land exactly on bin boundaries; plus elections whose costs/scores have "
        "a large common offset and a small spread (10^3..10^13 +- a few units), very unequal magnitudes or one repeated large "
        "value; plus direct vectors for "
        "mean_generator / gini_coefficient and instances with categories; non-trivial = at least two voters with "
        "different values of the statistic's underlying quantity; distinct by (canonical case hash, profile kind, call)")
ASSUMPTIONS = [
    "exact-arithmetic mode (FRACTION = gmpy2)",
    ">= 1 voter, non-negative exact costs, non-negative scores, positive max_satisfaction, bins in 2..25",
    "measures that call the MIP solver (Relative_Cost_Sat, Additive_Cardinal_Relative_Sat) are not exercised here",
    "category_proportionality: approval profiles, project categories within the instance categories; allocations whose "
    "total cost is 0 (share 0/0) are outside the definition and skipped",
    "median/std of project costs need a non-empty instance; avg_project_cost of an empty instance must raise ZeroDivisionError",
    "voter_flow_matrix diagonal is taken as documented by the repository test: voters whose ballot is exactly that project",
]
TRUSTED = ["numpy median/std/exp and math.ceil on gmpy2.mpq (compared within 1e-9 relative against the exact rational core; the standard "
           "deviation additionally gets the absolute rounding slack of a correct two-pass computation, see std_slack)"]

TOL = 1e-9

EXACT_MEASURES = {
    "app": ["Cardinality_Sat", "Cost_Sat", "Relative_Cardinality_Sat", "Relative_Cost_Approx_Normaliser_Sat", "Effort_Sat", "CC_Sat"],
    # the approval-style measures only ask `project in ballot`, so they apply to every ballot type (C18-r7B: Effort_Sat counting the
    # supporters of a project on a cardinal / ordinal MULTIprofile)
    "card": ["Additive_Cardinal_Sat", "CC_Sat", "Effort_Sat", "Cost_Sat", "Cardinality_Sat"],
    "cum": ["Additive_Cardinal_Sat", "CC_Sat", "Effort_Sat", "Cost_Sat"],
    "ord": ["Additive_Borda_Sat", "Effort_Sat", "Cost_Sat", "Cardinality_Sat"],
}
FLOAT_MEASURES = {"app": ["Cost_Sqrt_Sat", "Cost_Log_Sat", "Additive_Cost_Sqrt_Sat", "Additive_Cost_Log_Sat"]}


# ----------------------------------------------------------------------------------------------
# textbook definitions (Fractions, expanded voter list)


def t_mean(vals):
    vals = list(vals)
    return sum(vals, F(0)) / len(vals) if vals else F(0)


def t_median(vals):
    s = sorted(vals)
    n = len(s)
    if n == 0:
        return F(0)
    if n % 2 == 1:
        return F(s[n // 2])
    return (F(s[n // 2 - 1]) + F(s[n // 2])) / 2


def t_gini(vals):
    vals = [F(v) for v in vals]
    n = len(vals)
    tot = sum(vals, F(0))
    if n == 0 or tot == 0:
        return F(0)
    return sum((abs(a - b) for a in vals for b in vals), F(0)) / (2 * n * tot)


def t_bin(s, mx, bins):
    """bin k holds the voters with (k-1)/(bins-1) < s/mx <= k/(bins-1); s >= mx goes to the last bin"""
    if s >= mx:
        return bins - 1
    for k in range(bins):
        if s * (bins - 1) <= k * mx:
            return k
    raise AssertionError("no bin")


def t_hist(vals, mx, bins):
    cnt = [0] * bins
    for s in vals:
        cnt[t_bin(s, mx, bins)] += 1
    return [F(c, len(vals)) for c in cnt]


def t_variance(vals):
    m = t_mean(vals)
    return sum(((v - m) ** 2 for v in vals), F(0)) / len(vals)


U53 = 2.0 ** -53


def std_slack(vals):
    """absolute slack granted to a binary64 standard deviation of the exact values `vals` ON TOP of the 1e-9 relative error
    of the statement: what a correctly rounded two-pass computation (mean first, then the mean of the squared deviations,
    as numpy.std does) can lose, and nothing more.
      (i)  a value that is not itself a binary64 number is rounded (or truncated, as GMP does) on entry: |X_i - x_i| <=
           2u|x_i|; the standard deviation is 1-Lipschitz for the root-mean-square norm, so this moves it by at most the
           root mean square of these entry errors (0 when every value is representable, e.g. integers below 2^53);
      (ii) the computed mean is off by |d| <= n*u*max|x_i|; deviations taken from a shifted centre give sqrt(s^2 + d^2)
           instead of s, i.e. at most min(d, d^2 / 2s) more (second order in d: this is what makes two-pass stable);
      (iii) the roundings of the deviations, squares, their sum, the division and the square root are RELATIVE errors of
           a few u and are covered by the relative tolerance.
    The bound is doubled.  A single-pass E[X^2]-E[X]^2 computation loses about u*mean^2/s instead and does not fit."""
    vals = [F(v) for v in vals]
    n = len(vals)
    if n == 0:
        return 0.0
    entry = math.sqrt(sum(((2 * U53 * float(abs(v))) ** 2 for v in vals if F(float(v)) != v), 0.0) / n)
    d = n * U53 * float(max(abs(v) for v in vals))
    s = math.sqrt(t_variance(vals)) - entry
    centre = d if s <= 0 else min(d, d * d / (2 * s))
    return 2 * (entry + centre)


def ballot_projects(case, b):
    return list(b.keys()) if isinstance(b, dict) else list(b)


def t_profile_stats(case):
    """textbook profile statistics over the expanded voter list"""
    voters = case.ballots
    lens = [F(len(ballot_projects(case, b))) for b in voters]
    costs = [sum((case.cost[p] for p in ballot_projects(case, b)), F(0)) for b in voters]
    out = {
        "avg_ballot_length": t_mean(lens),
        "median_ballot_length": t_median(lens),
        "avg_ballot_cost": t_mean(costs),
        "median_ballot_cost": t_median(costs),
    }
    if case.btype == "app":
        sc = {p: F(sum(1 for b in voters if p in b)) for p in case.names}
        out["approval_score"] = [sc[p] for p in case.names]
        out["avg_approval_score"] = t_mean(sc.values())
        out["median_approval_score"] = t_median(list(sc.values()))
        out["votes_count_by_project"] = {p: sc[p] for p in case.names if sc[p] > 0}
        flow = {}
        for a in case.names:
            flow[a] = {}
            for b2 in case.names:
                if a == b2:
                    flow[a][b2] = F(sum(1 for b in voters if list(b) == [a]))
                else:
                    flow[a][b2] = F(sum(1 for b in voters if a in b and b2 in b))
        out["voter_flow_matrix"] = flow
    if case.btype in ("card", "cum"):
        ts = {p: sum((F(b[p]) for b in voters if p in b), F(0)) for p in case.names}
        out["total_score"] = [ts[p] for p in case.names]
        out["avg_total_score"] = t_mean(ts.values())
        out["median_total_score"] = t_median(list(ts.values()))
    return out


def t_category(case, cats_of, ncat, W):
    """mean over categories of (share in the allocation - mean over voters of the share in the ballot)^2;
    None when undefined (0/0)"""
    costW = sum((case.cost[p] for p in W), F(0))
    if ncat == 0 or not W or costW == 0:
        return None
    n = len(case.ballots)
    acc = F(0)
    for c in range(ncat):
        a = sum((case.cost[p] for p in W if c in cats_of[p]), F(0)) / costW
        bs = F(0)
        for b in case.ballots:
            cb = sum((case.cost[p] for p in b), F(0))
            if cb == 0:
                return None
            bs += sum((case.cost[p] for p in b if c in cats_of[p]), F(0)) / cb
        acc += (a - bs / n) ** 2
    return acc / ncat


# ----------------------------------------------------------------------------------------------
# value normalisation / comparison


def is_floaty(v):
    import gmpy2
    import numpy as np

    return isinstance(v, (float, np.floating)) or isinstance(v, type(gmpy2.mpfr(0)))


def norm(v):
    """impl value -> ('x', Fraction) exact | ('f', float) | ('err', enum) | list | dict"""
    if isinstance(v, tuple) and len(v) == 2 and v[0] in ("x", "f", "err"):
        return v
    if isinstance(v, dict):
        return {str(k): norm(x) for k, x in v.items()}
    if isinstance(v, (list, tuple)):
        return [norm(x) for x in v]
    if isinstance(v, bool):
        return ("x", F(int(v)))
    if is_floaty(v):
        return ("f", float(v))
    import numpy as np

    if isinstance(v, np.integer):
        return ("x", F(int(v)))
    return ("x", toF(v))


def same(a, b, scale=0.0, atol=0.0):
    """a: normalised impl value, b: normalised reference (exact or float); float values agree when they are within TOL
    relative error of the reference (relative to max(|reference|, scale)) plus the absolute slack `atol`"""
    if isinstance(a, dict) or isinstance(b, dict):
        return isinstance(a, dict) and isinstance(b, dict) and set(a) == set(b) and all(same(a[k], b[k], scale, atol) for k in a)
    if isinstance(a, list) or isinstance(b, list):
        return isinstance(a, list) and isinstance(b, list) and len(a) == len(b) and all(same(x, y, scale, atol) for x, y in zip(a, b))
    if a[0] == "err" or b[0] == "err":
        return a[0] == b[0] and a[1] == b[1]
    if a[0] == "x" and b[0] == "x":
        return a[1] == b[1]
    fa, fb = float(a[1]), float(b[1])
    if math.isnan(fa) or math.isnan(fb):
        return False
    return abs(fa - fb) <= TOL * max(abs(fb), scale) + atol


def show(v):
    if isinstance(v, dict):
        return {k: show(x) for k, x in v.items()}
    if isinstance(v, list):
        return [show(x) for x in v]
    if v[0] == "x":
        return q2s(v[1])
    if v[0] == "f":
        return repr(v[1])
    return "err " + v[1]


def call(fn, *a, **k):
    try:
        with warnings.catch_warnings():
            warnings.simplefilter("ignore")
            return fn(*a, **k)
    except Exception as e:  # noqa: BLE001
        return ("err", core.err_enum(e))


def X(v):
    return ("x", F(v))


# ----------------------------------------------------------------------------------------------
# observations: one per (call, arguments); checked against the textbook value and the model


class Obs:
    __slots__ = ("call", "impl", "exp", "scale", "atol", "line", "mfun", "cfg", "case", "nontrivial")

    def __init__(self, case, cfg, call_name, impl, exp, line=None, mfun=None, scale=0.0, nontrivial=False, atol=0.0):
        self.case, self.cfg, self.call = case, dict(cfg, call=call_name), call_name
        self.impl = norm(impl)
        self.exp = None if exp is None else norm(exp)
        self.line, self.mfun, self.scale, self.nontrivial, self.atol = line, mfun, scale, nontrivial, atol


class Batch:
    """collects driver lines and observations; `finish` runs the driver and judges"""

    def __init__(self, ctx, compare=True):
        self.ctx, self.compare = ctx, compare
        self.lines, self.obs = [], []

    def add_line(self, line):
        self.lines.append(line)
        return len(self.lines) - 1

    def add(self, ob):
        self.obs.append(ob)

    def finish(self):
        ctx = self.ctx
        answers = core.run_driver(self.lines) if (self.compare and self.lines) else None
        for ob in self.obs:
            ctx.evaluations += 1
            ctx.count("call", ob.call)
            key = (ob.case.key() if ob.case is not None else repr(ob.cfg), ob.cfg.get("multi"), ob.call,
                   repr(ob.cfg.get("alloc")), ob.cfg.get("sat"), ob.cfg.get("bins"), ob.cfg.get("mx"))
            if ob.nontrivial:
                ctx.nontrivial.add(key)
            if ob.exp is not None and not same(ob.impl, ob.exp, ob.scale, ob.atol):
                ctx.violations.append({
                    "what": f"{ob.call}: library value differs from the textbook definition",
                    "case": ob.case.to_json() if ob.case is not None else None,
                    "cfg": ob.cfg, "impl": show(ob.impl), "expected": show(ob.exp),
                    "sig": {"call": ob.call, "multi": bool(ob.cfg.get("multi"))},
                })
            if answers is not None and ob.line is not None:
                raw = answers[ob.line]
                try:
                    mod = norm(ob.mfun(raw))
                except Exception as e:  # noqa: BLE001
                    mod = ("err", "unparsable:" + raw[:60] + ":" + repr(e)[:40])
                if not same(ob.impl, mod, ob.scale, ob.atol):
                    ctx.disagreements.append({"line": self.lines[ob.line], "call": ob.call, "impl": show(ob.impl), "model": show(mod),
                                              "case": ob.case.to_json() if ob.case is not None else None, "cfg": ob.cfg})
                seen = ctx.__dict__.setdefault("_c18_sampled", set())
                if ob.call not in seen and ob.nontrivial:
                    seen.add(ob.call)
                    ctx.sample(f"{self.lines[ob.line]} -> {ob.call}: impl {show(ob.impl)} | model {show(mod)}", cap=30)
        self.lines, self.obs = [], []


# ----------------------------------------------------------------------------------------------
# model answers


def m_tokens(raw):
    t = raw.strip().split(" ")
    if t[0] != "ok":
        raise ValueError(raw)
    return t[1:]


def m_rat(tok):
    if tok.startswith("err:"):
        return ("err", tok[4:])
    return ("x", F(tok))


def m_list(tok):
    return [] if tok == "-" else [("x", F(x)) for x in tok.split(",")]


# ----------------------------------------------------------------------------------------------
# builders


class Built:
    def __init__(self, case: Case, multi, cats=None):
        from pabutools.election import ApprovalBallot, ApprovalProfile, Instance, Project

        self.case, self.multi = case, multi
        if cats is None:
            self.inst, self.projs = core.build_instance(case)
            self.prof = core.build_profile(case, self.inst, self.projs, multi=multi)
        else:
            ncat, cats_of = cats
            self.projs = {n: Project(n, core.to_cost(c), categories={"c%d" % k for k in cats_of[n]}) for n, c in case.projects}
            self.inst = Instance([self.projs[n] for n, _ in case.projects], budget_limit=core.to_cost(case.budget),
                                 categories={"c%d" % k for k in range(ncat)})
            prof = ApprovalProfile([ApprovalBallot([self.projs[n] for n in b]) for b in case.ballots], instance=self.inst)
            self.prof = prof.as_multiprofile() if multi else prof

    def entries(self):
        return core.profile_entries(self.case, self.prof)

    def enum(self):
        return [p.name for p in self.inst]

    def common(self):
        return self.case.enc_common(self.entries(), self.enum())


def feasible_allocations(case):
    out = []
    for s in oracle.subsets(case.names):
        if sum((case.cost[p] for p in s), F(0)) <= case.budget:
            out.append(s)
    return out


def to_numeric(x: F):
    return core.to_cost(F(x))


# ----------------------------------------------------------------------------------------------
# checks


def check_instance(batch, case, cfg):
    import pabutools.analysis as an

    b = Built(case, False)
    costs = [c for _, c in case.projects]
    m = len(costs)
    line = batch.add_line("stats op=inst " + b.common())
    total = sum(costs, F(0))
    nt = len(set(costs)) >= 2

    def field(i, post=None):
        def f(raw):
            v = m_rat(m_tokens(raw)[i])
            return post(v) if post else v
        return f

    batch.add(Obs(case, cfg, "sum_project_cost", call(an.sum_project_cost, b.inst), X(total), line, field(0), nontrivial=nt))
    exp = X(total / case.budget) if case.budget > 0 else ("err", "value")
    batch.add(Obs(case, cfg, "funding_scarcity", call(an.funding_scarcity, b.inst), exp, line, field(1), nontrivial=nt))
    exp = X(total / m) if m else ("err", "zeroDiv")
    batch.add(Obs(case, cfg, "avg_project_cost", call(an.avg_project_cost, b.inst), exp, line, field(2), nontrivial=nt))
    if m:
        batch.add(Obs(case, cfg, "median_project_cost", call(an.median_project_cost, b.inst), X(t_median(costs)), line, field(3), nontrivial=nt))
        var = t_variance(costs)
        sq = lambda v: ("f", math.sqrt(float(v[1])))  # noqa: E731
        batch.add(Obs(case, cfg, "std_dev_project_cost", call(an.std_dev_project_cost, b.inst), ("f", math.sqrt(var)), line,
                      field(4, sq), atol=std_slack(costs), nontrivial=nt))


def check_profile(batch, case, cfg):
    import pabutools.analysis as an
    import pabutools.analysis.profileproperties as pp

    multi = cfg["multi"]
    b = Built(case, multi)
    T = t_profile_stats(case)
    line = batch.add_line("stats op=prof " + b.common())
    lens = {len(ballot_projects(case, x)) for x in case.ballots}
    nt = len(case.ballots) >= 2 and len(lens) >= 2

    def field(i):
        return lambda raw: m_rat(m_tokens(raw)[i])

    def lfield(i):
        return lambda raw: m_list(m_tokens(raw)[i])

    batch.add(Obs(case, cfg, "avg_ballot_length", call(an.avg_ballot_length, b.inst, b.prof), X(T["avg_ballot_length"]), line, field(0), nontrivial=nt))
    batch.add(Obs(case, cfg, "median_ballot_length", call(an.median_ballot_length, b.inst, b.prof), X(T["median_ballot_length"]), line, field(1), nontrivial=nt))
    batch.add(Obs(case, cfg, "avg_ballot_cost", call(an.avg_ballot_cost, b.inst, b.prof), X(T["avg_ballot_cost"]), line, field(2), nontrivial=nt))
    batch.add(Obs(case, cfg, "median_ballot_cost", call(an.median_ballot_cost, b.inst, b.prof), X(T["median_ballot_cost"]), line, field(3), nontrivial=nt))
    if case.btype == "app":
        impl_scores = call(lambda: [b.prof.approval_score(b.projs[n]) for n in case.names])
        batch.add(Obs(case, cfg, "approval_score", impl_scores, [X(v) for v in T["approval_score"]], line, lfield(8), nontrivial=nt))
        batch.add(Obs(case, cfg, "avg_approval_score", call(an.avg_approval_score, b.inst, b.prof), X(T["avg_approval_score"]), line, field(4), nontrivial=nt))
        batch.add(Obs(case, cfg, "median_approval_score", call(an.median_approval_score, b.inst, b.prof), X(T["median_approval_score"]), line, field(5), nontrivial=nt))

        def votes_model(raw):
            tok = m_tokens(raw)[10]
            return {} if tok == "-" else {case.names[int(kv.split(":")[0])]: ("x", F(kv.split(":")[1])) for kv in tok.split(",")}

        def flow_model(raw):
            tok = m_tokens(raw)[11]
            if tok == "-":
                return {}
            rows = [r.split(",") for r in tok.split("|")]
            return {case.names[i]: {case.names[j]: ("x", F(rows[i][j])) for j in range(len(rows))} for i in range(len(rows))}

        v = call(pp.votes_count_by_project, b.prof)
        if isinstance(v, dict):
            v = {p.name: c for p, c in v.items()}
        batch.add(Obs(case, cfg, "votes_count_by_project", v, {k: X(c) for k, c in T["votes_count_by_project"].items()}, line, votes_model, nontrivial=nt))
        fl = call(pp.voter_flow_matrix, b.inst, b.prof)
        batch.add(Obs(case, cfg, "voter_flow_matrix", fl, {a: {c: X(x) for c, x in row.items()} for a, row in T["voter_flow_matrix"].items()},
                      line, flow_model, nontrivial=nt))
    if case.btype in ("card", "cum"):
        impl_scores = call(lambda: [b.prof.total_score(b.projs[n]) for n in case.names])
        batch.add(Obs(case, cfg, "total_score", impl_scores, [X(v) for v in T["total_score"]], line, lfield(9), nontrivial=nt))
        batch.add(Obs(case, cfg, "avg_total_score", call(an.avg_total_score, b.inst, b.prof), X(T["avg_total_score"]), line, field(6), nontrivial=nt))
        batch.add(Obs(case, cfg, "median_total_score", call(an.median_total_score, b.inst, b.prof), X(T["median_total_score"]), line, field(7), nontrivial=nt))


def boundary_hits(vals, mx, bins):
    """voters strictly below the normaliser whose satisfaction sits exactly on a bin edge k/(bins-1), k >= 1"""
    return sum(1 for s in vals if 0 < s < mx and (s * (bins - 1) / mx).denominator == 1)


def near_edge(vals, mx, bins):
    for s in vals:
        q = s * (bins - 1) / mx
        if abs(q - round(q)) < F(1, 10**6) or abs(s - mx) < F(1, 10**6) * max(mx, 1):
            return True
    return False


def choose_mx(rng, vals, bins):
    pos = sorted({v for v in vals if v > 0})
    if not pos:
        return F(rng.choice([1, 2, 5]))
    r = rng.random()
    if r < 0.45:
        s = rng.choice(pos)
        k = rng.randint(1, bins - 1)
        return s * (bins - 1) / k  # s lands exactly on edge k (k = bins-1: s reaches the normaliser)
    if r < 0.6:
        return max(pos)
    if r < 0.7:
        return min(pos)
    if r < 0.8:
        return max(pos) + rng.choice([1, F(1, 2), F(1, 3)])
    if r < 0.9:
        return max(pos) * bins  # everybody in the lowest bins
    return F(rng.randint(1, 12), rng.randint(1, 4))


def check_sat(batch, case, cfg, bins_list, rng, fixed_mx=None):
    """cfg: multi, alloc (names), sat (measure)"""
    import pabutools.analysis.votersatisfaction as vs

    multi, W, mname = cfg["multi"], cfg["alloc"], cfg["sat"]
    b = Built(case, multi)
    detached = cfg.get("detached")
    if detached:
        # the profile is not attached to the instance the statistic is asked about (built without `instance=`, as the
        # repository's own tests do, or attached to an instance with another budget limit): the functions that take an
        # `instance` argument are specified on THAT instance
        from pabutools.election import Instance

        other = Instance() if detached == "none" else Instance(list(b.inst), budget_limit=b.inst.budget_limit * 3 + 1)
        b.prof = core.build_profile(case, other, b.projs, multi=multi)
    sc = core.sat_class(mname)
    alloc = [b.projs[n] for n in W]
    floaty = mname in FLOAT_MEASURES.get(case.btype, [])
    # satisfaction per entry as the library computes it (used for S= and for float measures)
    ents = b.entries()
    try:
        impl_sats = [toF(sc(b.inst, b.prof, bal).sat(alloc)) for bal in b.prof]
    except Exception as e:  # noqa: BLE001
        batch.ctx.violations.append({"what": f"satisfaction measure raised {e!r}", "case": case.to_json(), "cfg": dict(cfg, call="sat"),
                                     "impl": repr(e), "expected": None, "sig": {"call": "sat", "multi": multi, "sat": mname}})
        return
    if floaty:
        vals = [s for s, (_, m) in zip(impl_sats, ents) for _ in range(m)]  # library's own float values, each voter once
        stok = "S=" + ",".join(q2s(s) for s in impl_sats)
    else:
        vals = [oracle.sat_set(mname, case, bal, W) for bal in case.ballots]
        stok = "sat=" + mname
    wtok = "W=" + ".".join(str(i) for i in sorted(case.ids(W)))
    nt = len(set(vals)) >= 2
    n = len(vals)
    fl = (lambda v: ("f", float(v))) if floaty else X

    def sat_line(bins, mx):
        return batch.add_line(f"stats op=sat {b.common()} {wtok} {stok} mx={q2s(mx)} bins={bins}")

    line0 = sat_line(2, F(1))

    def field(i, post=None):
        def f(raw):
            v = m_rat(m_tokens(raw)[i])
            if floaty and v[0] == "x":
                v = ("f", float(v[1]))
            return post(v) if post else v
        return f

    sc_scale = float(max(vals)) if floaty and vals else 0.0
    batch.add(Obs(case, cfg, "avg_satisfaction", call(vs.avg_satisfaction, b.inst, b.prof, alloc, sc), fl(t_mean(vals)), line0, field(0), scale=sc_scale, nontrivial=nt))
    if not detached:  # takes no instance argument: it is about the profile's own instance
        batch.add(Obs(case, cfg, "percent_positive_satisfaction", call(vs.percent_positive_satisfaction, b.prof, alloc, sc),
                      X(F(sum(1 for v in vals if v > 0), n)), line0, lambda raw: m_rat(m_tokens(raw)[1]), nontrivial=nt))
    g = t_gini(vals)
    batch.add(Obs(case, cfg, "gini_coefficient_of_satisfaction", call(vs.gini_coefficient_of_satisfaction, b.inst, b.prof, alloc, sc), X(g), line0,
                  lambda raw: m_rat(m_tokens(raw)[2]), nontrivial=nt))
    inv = lambda v: (v[0], 1 - v[1]) if v[0] != "err" else v  # noqa: E731
    batch.add(Obs(case, dict(cfg, invert=True), "gini_coefficient_of_satisfaction",
                  call(vs.gini_coefficient_of_satisfaction, b.inst, b.prof, alloc, sc, invert=True), X(1 - g), line0,
                  lambda raw: inv(m_rat(m_tokens(raw)[2])), nontrivial=nt))
    if case.btype == "app" and mname == "CC_Sat":
        import pabutools.analysis as an

        share = F(sum(1 for bal in case.ballots if any(p in bal for p in W)), n)
        batch.add(Obs(case, cfg, "percent_non_empty_handed", call(an.percent_non_empty_handed, b.inst, b.prof, alloc), X(share), line0,
                      lambda raw: m_rat(m_tokens(raw)[0]), nontrivial=nt))
    for bins in bins_list:
        mx = fixed_mx if fixed_mx is not None else choose_mx(rng, vals, bins)
        if floaty and near_edge(vals, mx, bins):
            batch.ctx.count("hist_float_near_edge_skipped")
            continue
        hits = boundary_hits(vals, mx, bins)
        batch.ctx.count("hist_bins", str(bins))
        batch.ctx.count("hist_cases")
        if hits:
            batch.ctx.count("hist_cases_with_voter_on_bin_edge")
        if any(s >= mx for s in vals):
            batch.ctx.count("hist_cases_with_voter_at_or_above_max")
        c2 = dict(cfg, bins=bins, mx=q2s(mx))
        line = sat_line(bins, mx)
        impl = call(vs.satisfaction_histogram, b.inst, b.prof, alloc, sc, to_numeric(mx), bins)
        exp = [("f", float(x)) for x in t_hist(vals, mx, bins)]
        batch.add(Obs(case, c2, "satisfaction_histogram", impl, exp, line,
                      lambda raw: [("f", float(x[1])) for x in m_list(m_tokens(raw)[3])], nontrivial=nt and hits > 0))


def gen_cats(rng, case):
    ncat = rng.choice([0, 1, 2, 2, 3, 3, 4])
    cats_of = {n: sorted(k for k in range(ncat) if rng.random() < 0.5) for n in case.names}
    return ncat, cats_of


def check_category(batch, case, cfg):
    import pabutools.analysis as an

    ncat, cats_of, W, multi = cfg["ncat"], cfg["cats_of"], cfg["alloc"], cfg["multi"]
    if W and sum((case.cost[p] for p in W), F(0)) == 0:
        batch.ctx.count("cat_skipped_zero_cost_allocation")
        return
    b = Built(case, multi, cats=(ncat, cats_of))
    alloc = [b.projs[n] for n in W]
    ktok = ",".join(f"{case.rank[n]}:{'.'.join(str(k) for k in cats_of[n])}" for n in case.names)
    line = batch.add_line(f"stats op=cat {b.common()} W={'.'.join(str(i) for i in sorted(case.ids(W)))} C={ncat} K={ktok}")
    impl = call(an.category_proportionality, b.inst, b.prof, alloc)
    msd = t_category(case, cats_of, ncat, W)
    if ncat == 0:
        exp = ("err", "value")
    elif not W:
        exp = X(0)  # documented convention for the empty allocation
    elif msd is None:
        exp = None  # a voter with approved cost 0: share undefined; only the model comparison (ValueError) applies
    else:
        exp = ("f", math.exp(-float(msd)))

    def mfun(raw):
        t = raw.strip().split(" ")
        if t[0] == "err":
            return ("err", t[1])
        if t[1] == "zero":
            return X(0)
        return ("f", math.exp(-float(F(t[1]))))

    batch.add(Obs(case, cfg, "category_proportionality", impl, exp, line, mfun, nontrivial=msd is not None and msd > 0))


def check_utils(batch, cfg):
    """direct vectors for mean_generator / gini_coefficient"""
    from pabutools.utils import gini_coefficient, mean_generator

    kind = cfg["kind"]
    if kind == "mean":
        ents = [(F(v), int(m)) for v, m in cfg["entries"]]
        expd = [v for v, m in ents for _ in range(m)]
        if cfg.get("plain"):
            impl = call(mean_generator, [to_numeric(v) for v in expd])
            line = batch.add_line("stats op=mean X=" + ",".join(f"{q2s(v)}*1" for v in expd))
        else:
            impl = call(mean_generator, ((to_numeric(v), m) for v, m in ents))
            line = batch.add_line("stats op=mean X=" + ",".join(f"{q2s(v)}*{m}" for v, m in ents))
        batch.add(Obs(None, cfg, "mean_generator", impl, X(t_mean(expd)), line, lambda raw: m_rat(m_tokens(raw)[0]), nontrivial=len(set(expd)) >= 2))
    else:
        vals = [F(v) for v in cfg["values"]]
        impl = call(gini_coefficient, [to_numeric(v) for v in vals])
        line = batch.add_line("stats op=gini X=" + ",".join(q2s(v) for v in vals))
        exp = ("err", "value") if any(v < 0 for v in vals) else X(t_gini(vals))

        def mfun(raw):
            t = raw.strip().split(" ")
            return ("err", t[1]) if t[0] == "err" else ("x", F(t[1]))

        batch.add(Obs(None, cfg, "gini_coefficient", impl, exp, line, mfun, nontrivial=len(set(vals)) >= 2))


# ----------------------------------------------------------------------------------------------
# generation


def jsonable(cfg):
    out = {}
    for k, v in cfg.items():
        if isinstance(v, F):
            out[k] = q2s(v)
        elif k in ("entries",):
            out[k] = [[q2s(F(a)), int(m)] for a, m in v]
        elif k in ("values",):
            out[k] = [q2s(F(a)) for a in v]
        else:
            out[k] = v
    return out


class BinCycle:
    """hands out bin counts so that every value 2..25 is used equally often"""

    def __init__(self, rng):
        self.rng, self.pool = rng, []

    def take(self, k):
        out = []
        for _ in range(k):
            if not self.pool:
                self.pool = list(range(2, 26))
                self.rng.shuffle(self.pool)
            out.append(self.pool.pop())
        return out


def gen_vectors(rng):
    pools = [[0, 1, 2, 3], [F(1, 2), F(1, 3), 1, F(5, 2), 0], [0], [1], [2, 2, 2], [0, 0, 7], [F(1, 7), F(3, 11), 4, 9, 0, 1]]
    pool = rng.choice(pools)
    n = rng.randint(0, 8)
    return [F(rng.choice(pool)) for _ in range(n)]


def election_stream(ctx, n, compare=True):
    rng = ctx.rng
    bins = BinCycle(rng)
    batch = Batch(ctx, compare)
    detach_rng = random.Random(12345 + 7919 * int(getattr(ctx, "seed", 0) or 0))  # own stream: the draws above keep their seeds
    for i in range(n):
        case = core.gen_election(rng, m_hi=6, n_hi=7)
        if i % 9 == 0:
            # integer-valued "nice" election: many ties and many exact bin edges
            case = Case([(nm, F(rng.choice([1, 2, 3]))) for nm, _ in case.projects], F(rng.randint(1, 8)), case.btype, case.ballots, case.seed)
        ctx.count("btype", case.btype)
        ctx.count("voters", str(len(case.ballots)))
        ctx.count("projects", str(len(case.projects)))
        check_instance(batch, case, {"kind": "inst"})
        allocs = feasible_allocations(case)
        small = len(allocs) <= ctx.scale(8, 64)
        for multi in (False, True):
            ctx.count("profile_kind", "multi" if multi else "list")
            check_profile(batch, case, {"kind": "prof", "multi": multi})
            chosen = allocs if small else [allocs[0], max(allocs, key=len)] + rng.sample(allocs, 3)
            ctx.count("outcomes", "all_feasible" if small else "sample")
            measures = list(EXACT_MEASURES[case.btype])
            if rng.random() < 0.35:
                measures += FLOAT_MEASURES.get(case.btype, [])
            for W in chosen:
                for mname in rng.sample(measures, min(len(measures), 2)):
                    ctx.count("measure", mname)
                    cfg = {"kind": "sat", "multi": multi, "alloc": list(W), "sat": mname}
                    check_sat(batch, case, cfg, bins.take(2), rng)
                    if detach_rng.random() < 0.15:
                        how = detach_rng.choice(["none", "other"])
                        ctx.count("detached_profile", how)
                        check_sat(batch, case, dict(cfg, detached=how), [], rng)
        if len(batch.lines) > 4000:
            batch.finish()
    batch.finish()


def category_stream(ctx, n, compare=True):
    rng = ctx.rng
    batch = Batch(ctx, compare)
    for i in range(n):
        case = core.gen_election(rng, btypes=("app",), m_lo=1, m_hi=5, n_hi=6, allow_zero=(i % 4 == 0))
        if i % 3:
            # mostly non-empty ballots, otherwise the statistic is undefined
            fixed = [b if b else [rng.choice(case.names)] for b in case.ballots]
            case = Case(case.projects, case.budget, case.btype, fixed, case.seed)
        ncat, cats_of = gen_cats(rng, case)
        allocs = feasible_allocations(case)
        for W in (allocs if len(allocs) <= 6 else [allocs[0]] + rng.sample(allocs, 4)):
            for multi in (False, True):
                cfg = {"kind": "cat", "multi": multi, "alloc": list(W), "ncat": ncat, "cats_of": cats_of}
                check_category(batch, case, cfg)
    batch.finish()


def utils_stream(ctx, n, compare=True):
    rng = ctx.rng
    batch = Batch(ctx, compare)
    for i in range(n):
        vals = gen_vectors(rng)
        ents = [(v, rng.choice([0, 1, 1, 2, 3, 5])) for v in vals]
        check_utils(batch, jsonable({"kind": "mean", "entries": ents, "plain": False}))
        check_utils(batch, jsonable({"kind": "mean", "entries": [(v, 1) for v in vals], "plain": True}))
        gv = list(vals)
        if i % 10 == 0 and gv:
            gv[rng.randrange(len(gv))] = F(-1, 2)
        check_utils(batch, jsonable({"kind": "gini", "values": gv}))
    # zero budget: funding scarcity is undefined
    for _ in range(max(3, n // 20)):
        case = core.gen_election(rng, m_lo=1, m_hi=4)
        case = Case(case.projects, F(0), case.btype, case.ballots, case.seed)
        check_instance(batch, case, {"kind": "inst"})
    batch.finish()


MAGNITUDE_KINDS = ("offset_small_int_spread", "offset_small_int_spread", "offset_fractional_spread", "unequal_magnitudes",
                   "all_equal_large", "two_clusters", "one_outlier")


def gen_magnitude_costs(rng, m, kind):
    """cost vectors whose SIZE is unrelated to their SPREAD (money amounts are like that: 120000 +- 2): a large common
    offset with a spread of a few units, values of very unequal magnitude, one repeated large value"""
    off = F(rng.choice([1, 2, 3, 5, 7, 9, 12]) * 10 ** rng.randint(3, 13))
    if kind == "offset_small_int_spread":
        w = rng.choice([1, 2, 3, 10])
        return [off + rng.randint(-w, w) for _ in range(m)]
    if kind == "offset_fractional_spread":
        den = rng.choice([2, 3, 4, 7, 10, 100])
        return [off + F(rng.randint(0, 3 * den), den) for _ in range(m)]
    if kind == "unequal_magnitudes":
        return [F(rng.randint(1, 9) * 10 ** rng.randint(0, 13)) + rng.choice([0, 0, 1, F(1, 2), F(1, 3)]) for _ in range(m)]
    if kind == "all_equal_large":
        c = off + rng.choice([0, 1, F(1, 3), F(1, 10)])
        return [c] * m
    if kind == "two_clusters":
        lo = F(rng.randint(1, 20))
        return [rng.choice([lo, off]) + rng.randint(0, 2) for _ in range(m)]
    costs = [off + rng.randint(0, 2) for _ in range(m)]  # one_outlier
    costs[rng.randrange(m)] = F(rng.choice([0, 1, 5]))
    return costs


def magnitude_stream(ctx, n, compare=True):
    """the statistics on elections whose costs (and scores) are large compared with their spread or differ by many orders
    of magnitude: float-valued statistics must still be within 1e-9 RELATIVE error of the exact value (see std_slack)"""
    rng = ctx.rng
    batch = Batch(ctx, compare)
    for _ in range(n):
        base = core.gen_election(rng, m_lo=1, m_hi=7, n_hi=6)
        kind = rng.choice(MAGNITUDE_KINDS)
        costs = gen_magnitude_costs(rng, len(base.projects), kind)
        ballots = base.ballots
        if base.btype == "card" and rng.random() < 0.5:
            so = F(10 ** rng.randint(3, 9))
            ballots = [{k: (so + v if v > 0 else v) for k, v in b.items()} for b in ballots]
        total = sum(costs, F(0))
        budget = rng.choice([total, total / 2, max(costs), max(costs) + min(costs), F(1)])
        case = Case([(nm, c) for (nm, _), c in zip(base.projects, costs)], budget if budget > 0 else F(1), base.btype, ballots, base.seed)
        ctx.count("magnitude_kind", kind)
        sd = math.sqrt(t_variance(costs))
        if sd > 0:
            ctx.count("magnitude_mean_over_std", "1e%d" % int(math.log10(max(1.0, float(total / len(costs)) / sd))))
        check_instance(batch, case, {"kind": "inst"})
        allocs = [[]] + [[nm] for nm in case.names if case.cost[nm] <= case.budget]
        for multi in (False, True):
            check_profile(batch, case, {"kind": "prof", "multi": multi})
            mname = rng.choice(EXACT_MEASURES[case.btype])
            cfg = {"kind": "sat", "multi": multi, "alloc": list(rng.choice(allocs)), "sat": mname}
            check_sat(batch, case, cfg, [rng.randint(2, 25)], rng)
        if len(batch.lines) > 4000:
            batch.finish()
    batch.finish()


def history_stream(ctx, n):
    """statistics recomputed on a profile object that was EDITED in place between two calls (same number of voters): the second
    answer must be the one a freshly built profile with the edited ballots gives (nothing remembered from the first call)"""
    import pabutools.analysis as A
    import pabutools.analysis.votersatisfaction as VS

    rng = ctx.rng
    for _ in range(n):
        case = core.gen_election(rng, btypes=("app", "app", "card", "ord"), m_lo=2, m_hi=5, n_hi=6)
        if len(case.ballots) < 2:
            continue
        names = [nm for nm, _ in case.projects]
        new_ballot = core.gen_ballots(rng, case.btype, names, 1, 1)[0]
        i = rng.randrange(len(case.ballots))
        # half of the histories edit the BALLOT OBJECT of voter i in place (remove one project through an operation of the ballot's
        # base class) instead of replacing it: what the ballot remembers about itself must follow (C18-r7A: stored positions)
        inplace = None
        old = case.ballots[i]
        if rng.random() < 0.5 and len(old) >= 2:
            victim = rng.choice(list(old))
            inplace = (victim, rng.choice(["pop", "del"] if case.btype != "app" else ["discard", "remove"]))
            new_ballot = {k: v for k, v in old.items() if k != victim} if case.btype in ("card", "cum") else [x for x in old if x != victim]
        inst, projs = core.build_instance(case)
        P = core.build_profile(case, inst, projs)
        edited = list(case.ballots)
        edited[i] = new_ballot
        case2 = Case(case.projects, case.budget, case.btype, edited, case.seed)
        fresh = core.build_profile(case2, inst, projs)
        alloc = [projs[x] for x in core.gen_init(rng, case)]
        sat = core.sat_class(rng.choice(core.SAT_BY_TYPE[case.btype]))
        calls = [("avg_ballot_length", lambda p: A.avg_ballot_length(inst, p)), ("median_ballot_length", lambda p: A.median_ballot_length(inst, p)),
                 ("avg_ballot_cost", lambda p: A.avg_ballot_cost(inst, p)), ("median_ballot_cost", lambda p: A.median_ballot_cost(inst, p)),
                 ("avg_satisfaction", lambda p: A.avg_satisfaction(inst, p, alloc, sat)),
                 ("gini_coefficient_of_satisfaction", lambda p: A.gini_coefficient_of_satisfaction(inst, p, alloc, sat)),
                 ("percent_positive_satisfaction", lambda p: VS.percent_positive_satisfaction(p, alloc, sat))]
        if case.btype == "app":
            calls += [("avg_approval_score", lambda p: A.avg_approval_score(inst, p)), ("median_approval_score", lambda p: A.median_approval_score(inst, p))]
        if case.btype == "card":
            calls += [("avg_total_score", lambda p: A.avg_total_score(inst, p)), ("median_total_score", lambda p: A.median_total_score(inst, p))]
        try:
            first = {nm: f(P) for nm, f in calls}
            if inplace is None:
                P[i] = fresh[i]
            elif inplace[1] == "del":
                del P[i][projs[inplace[0]]]
            else:
                getattr(P[i], inplace[1])(projs[inplace[0]])
            second = {nm: f(P) for nm, f in calls}
            want = {nm: f(fresh) for nm, f in calls}
        except Exception as e:  # noqa: BLE001
            ctx.violations.append({"what": f"statistic raised {e!r} in an edit history", "case": case.to_json(), "cfg": {"kind": "history"}, "sig": {"call": "history", "err": type(e).__name__}})
            continue
        ctx.evaluations += 1
        ctx.count("history", case.btype)
        for nm in second:
            a, b = second[nm], want[nm]
            same = (abs(float(a) - float(b)) <= 1e-9 * max(1.0, abs(float(b)))) if isinstance(a, float) or isinstance(b, float) else core.toF(a) == core.toF(b)
            if not same:
                ctx.violations.append({"what": f"{nm} on a profile edited in place (voter {i} replaced) gives {a}, a freshly built profile with the same ballots gives {b}",
                                       "case": case2.to_json(), "cfg": {"kind": "history", "call": nm, "edited_voter": i, "original": case.to_json(), "inplace": inplace},
                                       "impl": str(a), "expected": str(b), "sig": {"call": nm, "history": True}})
        if any(str(first[k]) != str(second[k]) for k in first):
            ctx.nontrivial.add("hist" + case.key() + str(i))


def replay_history(payload):
    """first call on the original profile, edit voter i in place, second call; compared with a freshly built edited profile"""
    import pabutools.analysis as A

    cfg = payload["cfg"]
    case2 = Case.from_json(payload["case"])
    case = Case.from_json(cfg["original"])
    i = cfg["edited_voter"]
    inst, projs = core.build_instance(case)
    P = core.build_profile(case, inst, projs)
    fresh = core.build_profile(case2, inst, projs)
    nm = cfg["call"]
    f = getattr(A, nm, None)
    if f is None or nm in ("avg_satisfaction", "gini_coefficient_of_satisfaction"):
        return True, "replay of this statistic needs the allocation of the original run; not stored"
    f(inst, P)
    if cfg.get("inplace"):
        victim, op = cfg["inplace"]
        if op == "del":
            del P[i][projs[victim]]
        else:
            getattr(P[i], op)(projs[victim])
    else:
        P[i] = fresh[i]
    a, b = f(inst, P), f(inst, fresh)
    if str(a) != str(b):
        return False, f"still fails: {nm} gives {a} on the edited object and {b} on a fresh one"
    return True, "edited and fresh profiles agree"


def run(ctx):
    ctx.rule = RULE
    history_stream(ctx, ctx.scale(400, 3000))
    election_stream(ctx, ctx.scale(400, 4000))
    magnitude_stream(ctx, ctx.scale(300, 3000))
    category_stream(ctx, ctx.scale(250, 2500))
    utils_stream(ctx, ctx.scale(400, 4000))


def search(ctx, disagreements):
    ctx.rule = RULE
    election_stream(ctx, 1200, compare=False)
    magnitude_stream(ctx, 600, compare=False)
    category_stream(ctx, 600, compare=False)
    utils_stream(ctx, 1500, compare=False)


# ----------------------------------------------------------------------------------------------
# replay


class _ReplayCtx:
    def __init__(self):
        self.evaluations, self.nontrivial, self.violations, self.disagreements = 0, set(), [], []

    def count(self, *a, **k):
        pass

    def sample(self, *a, **k):
        pass


def replay(payload):
    cfg = dict(payload.get("cfg") or {})
    ctx = _ReplayCtx()
    batch = Batch(ctx, compare=False)
    case = Case.from_json(payload["case"]) if payload.get("case") else None
    kind = cfg.get("kind")
    if kind == "history":
        return replay_history(payload)
    if kind == "inst":
        check_instance(batch, case, {"kind": "inst"})
    elif kind == "prof":
        check_profile(batch, case, {"kind": "prof", "multi": cfg["multi"]})
    elif kind == "sat":
        base = {"kind": "sat", "multi": cfg["multi"], "alloc": cfg["alloc"], "sat": cfg["sat"]}
        if cfg.get("detached"):
            base["detached"] = cfg["detached"]
        if "bins" in cfg:
            check_sat(batch, case, base, [int(cfg["bins"])], random.Random(0), fixed_mx=F(cfg["mx"]))
        else:
            check_sat(batch, case, base, [], random.Random(0))
    elif kind == "cat":
        check_category(batch, case, {"kind": "cat", "multi": cfg["multi"], "alloc": cfg["alloc"], "ncat": cfg["ncat"],
                                     "cats_of": {k: list(v) for k, v in cfg["cats_of"].items()}})
    elif kind in ("mean", "gini"):
        check_utils(batch, cfg)
    else:
        return True, "nothing to replay (no failing input recorded in this file)"
    batch.finish()
    want = cfg.get("call")
    hits = [v for v in ctx.violations if want is None or v["sig"]["call"] == want]
    if hits:
        v = hits[0]
        return False, f"still fails: {v['what']}: impl {v['impl']} expected {v['expected']}"
    return True, "property holds on the replayed input"
