"""C10 — satisfaction measures compute their documented formulas exactly.

For a ballot of an election and every shipped measure applicable to its type: `sat_project(p)` for every project,
`sat(S)` for every subset S (as a list in name order, again in another order, and on a second fresh object that is
queried in the opposite order so the memo cache is filled differently), plus a few lists with repeated projects
(those are compared with the model only).  Predicate: the documented formula with brute-force normalisers
(`oracle.sat_project / sat_set`, fractions.Fraction).  Model: `sat` command.  The two measures whose normaliser is
a MIP run in the solver sandbox; the float-based measures (sqrt / log) are compared with math.sqrt / math.log of
the exact argument with relative tolerance 1e-9 and are not sent to the model.
"""
from __future__ import annotations

import math
import random
from fractions import Fraction as F

from .. import core, oracle
from .. import mipbox as solverbox
from ..core import Case, q2s
from . import C15

RULE = ("seeded elections (0..6 projects, integer / fractional costs with zero and equal costs, budget from 0 to beyond the "
        "total, approval / cardinal / cumulative / ordinal ballots, Profile or MultiProfile) x up to 2 ballots x every shipped "
        "measure of the ballot type x all subsets; non-trivial = at least 2 projects and a non-empty ballot, distinct by "
        "(election hash, ballot, measure)")
ASSUMPTIONS = ["exact-arithmetic mode (FRACTION = gmpy2)", "non-negative exact costs and scores, budget >= 0, <= 6 projects",
               "query collections without repeated projects are constrained; with repetitions only compared with the model"]
TRUSTED = ["Relative_Cost_Sat / Additive_Cardinal_Relative_Sat: CBC solution recorded in the worker and re-validated exactly; "
           "invalid solver solutions and worker crashes are discarded as solver faults",
           "float measures: numpy sqrt/log vs math.sqrt/log within 1e-9 relative"]

ALL_TYPES = ["Cardinality_Sat", "Cost_Sat", "Relative_Cardinality_Sat", "Relative_Cost_Approx_Normaliser_Sat", "Effort_Sat", "Relative_Cost_Sat"]
EXACT = {
    "app": ALL_TYPES + ["CC_Sat"],
    "card": ALL_TYPES + ["Additive_Cardinal_Sat", "CC_Sat", "Additive_Cardinal_Relative_Sat"],
    "cum": ALL_TYPES + ["Additive_Cardinal_Sat", "CC_Sat", "Additive_Cardinal_Relative_Sat"],
    "ord": ALL_TYPES + ["Additive_Borda_Sat"],
}
FLOAT = {"app": list(oracle.FLOAT_MEASURES)}
MIP = {"Relative_Cost_Sat", "Additive_Cardinal_Relative_Sat"}
NON_ADDITIVE = {"CC_Sat", "Cost_Sqrt_Sat", "Cost_Log_Sat"}
NORM_KEY = {
    "Relative_Cardinality_Sat": "max_budget_allocation_card",
    "Relative_Cost_Sat": "max_budget_allocation_cost",
    "Relative_Cost_Approx_Normaliser_Sat": "normalizer",
    "Additive_Cardinal_Relative_Sat": "max_budget_allocation_score",
}
PER_SIG_CAP = 3


# ----------------------------------------------------------------------------------------------
# generation


def gen_case(rng: random.Random):
    sub = rng.getrandbits(48)
    r = random.Random(sub)
    case = core.gen_election(r, m_hi=6, n_hi=5)
    budget = case.budget
    if r.random() < 0.5:
        budget = C15.gen_budget(r, [c for _, c in case.projects])
    multi = r.random() < 0.4
    ballots = case.ballots
    if case.btype == "card" and r.random() < 0.35:
        # scores with denominators that are not powers of two (a float round trip does not preserve them)
        ballots = [{k: F(r.randint(0, 9), r.choice([1, 3, 6, 7])) for k in b} for b in ballots]
    elif case.btype == "card" and r.random() < 0.3:
        # negative scores: the "largest score" normaliser must leave such projects out even when the whole ballot fits
        ballots = [{k: (F(-r.randint(1, 4)) if r.random() < 0.35 else v) for k, v in b.items()} for b in ballots]
        if r.random() < 0.5:
            budget = sum((c for _, c in case.projects), F(0)) + r.randint(0, 2)  # everything affordable
    return Case(case.projects, budget, case.btype, ballots, seed=sub, multi=multi)


def corner_cases():
    out = []
    P = [("a", F(1, 3)), ("b", F(1, 3)), ("c", F(1)), ("d", F(0))]
    out.append(Case(P, F(2, 3), "app", [["a", "b", "c"], ["a", "b"], ["d"], []], multi=False))
    out.append(Case(P, F(2, 3), "card", [{"a": F(1, 3), "b": F(1, 3), "c": F(2)}, {"d": F(0), "a": F(1)}], multi=False))
    out.append(Case(P, F(1), "ord", [["c", "a", "b"], ["d"]], multi=False))
    out.append(Case([("a", F(1, 10)), ("b", F(2, 10)), ("c", F(3, 10))], F(3, 10), "app", [["a", "b", "c"], ["a", "b", "c"], ["c"]], multi=True))
    out.append(Case([("a", F(0)), ("b", F(0))], F(0), "app", [["a", "b"]], multi=False))
    out.append(Case([], F(3), "app", [[]], multi=False))
    return out


def gen_queries(r: random.Random, names):
    """(lists without repetition, index of the base list of each of them, lists with repetitions)"""
    subs = list(oracle.subsets(names))
    plain, base = [], []
    for k, S in enumerate(subs):
        plain.append(S)
        base.append(k)
    for k, S in enumerate(subs):
        if len(S) >= 2:
            T = list(S)
            while T == S:
                r.shuffle(T)
            plain.append(T)
            base.append(k)
    dups = []
    if names:
        for _ in range(3):
            dups.append([r.choice(names) for _ in range(r.randint(2, len(names) + 2))])
    return plain, base, dups


# ----------------------------------------------------------------------------------------------
# reference values (documented formulas, brute-force normalisers)


def ref_norm(measure, case, ballot):
    ps = list(ballot.keys()) if isinstance(ballot, dict) else list(ballot)
    if measure == "Relative_Cardinality_Sat":
        return F(oracle.max_card(case.cost, ps, case.budget))
    if measure == "Relative_Cost_Sat":
        return oracle.max_cost(case.cost, ps, case.budget)
    if measure == "Relative_Cost_Approx_Normaliser_Sat":
        return min(oracle.total(case.cost, ps), case.budget)
    if measure == "Additive_Cardinal_Relative_Sat":
        return oracle.max_score(case.cost, ballot, case.names, case.budget)
    return None


def viol(what, case, measure, index, sig_extra=None, impl=None, expected=None):
    sig = {"call": "sat", "sat": measure}
    sig.update(sig_extra or {})
    j = case.to_json()
    cfg = dict(j["cfg"])
    cfg.update({"measure": measure, "index": index})
    return {"what": f"{measure}: {what}", "case": j, "cfg": cfg, "impl": impl, "expected": expected, "sig": sig}


def close(a, b):
    return math.isclose(a, b, rel_tol=1e-9, abs_tol=1e-12)


def check_exact(case, measure, index, ballot, plain, base, res):
    """the property predicate on the implementation's answers (exact measures)"""
    vs = []
    names = case.names
    proj = [F(x) for x in res["proj"]]
    sets = [F(x) for x in res["sets"]]
    if "float" in res.get("types", []) or any("float" in t for t in res.get("types", [])):
        vs.append(viol("a float was returned by an exact measure", case, measure, index, {"kind": "float"}, impl=res.get("types")))
    refp = {n: oracle.sat_project(measure, case, ballot, n) if measure != "CC_Sat" else oracle.sat_set(measure, case, ballot, [n]) for n in names}
    for k, n in enumerate(names):
        if proj[k] != refp[n]:
            vs.append(viol(f"sat_project({n}) = {q2s(proj[k])}, documented formula gives {q2s(refp[n])}", case, measure, index, {"kind": "project"},
                           impl=q2s(proj[k]), expected=q2s(refp[n])))
            break
    for k, S in enumerate(plain):
        want = oracle.sat_set(measure, case, ballot, S) if measure in NON_ADDITIVE else sum((refp[n] for n in S), F(0))
        if sets[k] != want:
            vs.append(viol(f"sat({S}) = {q2s(sets[k])}, documented formula gives {q2s(want)}", case, measure, index, {"kind": "set"}, impl=q2s(sets[k]), expected=q2s(want)))
            break
    if measure not in NON_ADDITIVE:
        pv = dict(zip(names, proj))
        for k, S in enumerate(plain):
            if sets[k] != sum((pv[n] for n in S), F(0)):
                vs.append(viol(f"sat({S}) = {q2s(sets[k])} is not the sum of sat_project over it", case, measure, index, {"kind": "additive"}, impl=q2s(sets[k])))
                break
    if sets[0] != 0:
        vs.append(viol(f"sat([]) = {q2s(sets[0])}", case, measure, index, {"kind": "empty"}, impl=q2s(sets[0])))
    for k, S in enumerate(plain):
        if sets[k] != sets[base[k]]:
            vs.append(viol(f"sat({S}) = {q2s(sets[k])} but sat({plain[base[k]]}) = {q2s(sets[base[k]])}", case, measure, index, {"kind": "order"}))
            break
    if res["sets2"] != res["sets"] or res["proj2"] != res["proj"]:
        vs.append(viol("a fresh object queried in another order gives different values (memoisation is not pure)", case, measure, index, {"kind": "memo"}))
    rn = ref_norm(measure, case, ballot)
    if rn is not None:
        got = res.get("norm", {}).get(NORM_KEY[measure])
        if got is None or F(got) != rn:
            vs.append(viol(f"normaliser {NORM_KEY[measure]} = {got}, brute-force optimum {q2s(rn)}", case, measure, index, {"kind": "normaliser"}, impl=got, expected=q2s(rn)))
    return vs


def check_float(case, measure, index, ballot, plain, base, res):
    vs = []
    names = case.names
    proj = [float(F(x)) for x in res["proj"]]
    sets = [float(F(x)) for x in res["sets"]]
    for k, n in enumerate(names):
        want = oracle.sat_float(measure, case, ballot, [n])
        if not close(proj[k], want):
            vs.append(viol(f"sat_project({n}) = {proj[k]!r}, documented formula gives {want!r}", case, measure, index, {"kind": "project"}))
            break
    for k, S in enumerate(plain):
        want = oracle.sat_float(measure, case, ballot, S)
        if not close(sets[k], want):
            vs.append(viol(f"sat({S}) = {sets[k]!r}, documented formula gives {want!r}", case, measure, index, {"kind": "set"}))
            break
        if not close(sets[k], sets[base[k]]):
            vs.append(viol(f"sat({S}) = {sets[k]!r} but sat({plain[base[k]]}) = {sets[base[k]]!r}", case, measure, index, {"kind": "order"}))
            break
        if measure not in NON_ADDITIVE and not close(sets[k], math.fsum(proj[names.index(n)] for n in S)):
            vs.append(viol(f"sat({S}) = {sets[k]!r} is not the sum of sat_project over it", case, measure, index, {"kind": "additive"}))
            break
    if not close(sets[0], 0.0):
        vs.append(viol(f"sat([]) = {sets[0]!r}", case, measure, index, {"kind": "empty"}))
    s2 = [float(F(x)) for x in res["sets2"]]
    p2 = [float(F(x)) for x in res["proj2"]]
    if not all(close(a, b) for a, b in zip(sets + proj, s2 + p2)):
        vs.append(viol("a fresh object queried in another order gives different values", case, measure, index, {"kind": "memo"}))
    return vs


def solver_fault(case, measure, ballot, res):
    """reason when a recorded MIP solution is not a valid optimal solution of the model it was given"""
    ps = list(ballot.keys()) if isinstance(ballot, dict) else list(ballot)
    for rec in res.get("models", []):
        if measure == "Relative_Cost_Sat":
            w = {n: case.cost[n] for n in ps}
            why = solverbox.validate_knapsack(rec, w, w, case.budget, oracle.max_cost(case.cost, ps, case.budget))
        else:
            w = {n: case.cost[n] for n in case.names}
            v = {n: F(ballot.get(n, 0)) for n in case.names}
            why = solverbox.validate_knapsack(rec, w, v, case.budget, oracle.max_score(case.cost, ballot, case.names, case.budget))
        if why is not None:
            return why
    return None


# ----------------------------------------------------------------------------------------------


def enc_list(case, S):
    return ".".join(str(case.rank[n]) for n in S) if S else "-"


def model_line(case, entries, measure, index, lists):
    return f"sat sat={measure} {case.enc_common(entries, enum=case.names)} i={index} S={'|'.join(enc_list(case, S) for S in lists)}"


def parse_model(line):
    if not line.startswith("ok "):
        return None
    d = {}
    for tok in line[3:].split(" "):
        k, _, v = tok.partition("=")
        d[k] = v
    return d


def diff(measure, res, mline):
    m = parse_model(mline)
    if m is None:
        return [("answer", "ok …", mline)]
    out = []
    if m.get("proj", "") != ",".join(res["proj"]):
        out.append(("proj", ",".join(res["proj"]), m.get("proj")))
    if m.get("sets", "") != ",".join(res["sets"]):
        out.append(("sets", ",".join(res["sets"])[:300], (m.get("sets") or "")[:300]))
    if measure in NORM_KEY:
        got = res.get("norm", {}).get(NORM_KEY[measure])
        if got != m.get("norm"):
            out.append(("norm", got, m.get("norm")))
    return out


def run_cases(ctx, cases, compare=True, ballots_per_case=2):
    per_sig = {}
    pending = []

    def record(vs):
        for v in vs:
            k = tuple(sorted((a, str(b)) for a, b in v["sig"].items()))
            per_sig[k] = per_sig.get(k, 0) + 1
            if per_sig[k] <= PER_SIG_CAP:
                ctx.violations.append(v)

    with solverbox.SolverBox() as box:
        for case in cases:
            if ctx.budget_s is not None and ctx.elapsed() > ctx.budget_s:
                break
            r = random.Random(case.seed ^ 0x5A7)
            multi = bool(case.cfg.get("multi"))
            inst, projs = core.build_instance(case)
            prof = core.build_profile(case, inst, projs, multi=multi)
            entries = core.profile_entries(case, prof)
            plain, base, dups = gen_queries(r, case.names)
            idxs = list(range(len(entries)))
            r.shuffle(idxs)
            for index in idxs[:ballots_per_case]:
                ballot = entries[index][0]
                for measure in EXACT[case.btype] + FLOAT.get(case.btype, []):
                    is_float = measure in oracle.FLOAT_MEASURES
                    queries = plain + ([] if is_float else dups)
                    if measure in MIP:
                        st, res = box.call("sat", {"case": case.to_json(), "multi": multi, "measure": measure, "index": index, "queries": queries})
                        if st == "fault" or solver_fault(case, measure, ballot, res) is not None:
                            ctx.solver_faults += 1
                            ctx.count("solver_faults", measure)
                            continue
                        if st == "err":
                            ctx.evaluations += 1
                            record([viol(f"raised {res.get('err')}: {res.get('msg')} (solver solution was valid)", case, measure, index, {"kind": "raise", "err": res.get("err")})])
                            continue
                    else:
                        try:
                            res = solverbox.sat_answers(case, inst, prof, projs, measure, index, queries)
                        except Exception as e:  # noqa: BLE001
                            ctx.evaluations += 1
                            record([viol(f"raised {type(e).__name__}: {e}", case, measure, index, {"kind": "raise", "err": core.err_enum(e)})])
                            continue
                    ctx.evaluations += 1
                    ctx.count("btype", case.btype)
                    ctx.count("measure", measure)
                    ctx.count("profile", "multi" if multi else "list")
                    if len(case.projects) >= 2 and len(ballot) > 0:
                        ctx.nontrivial.add((case.key(), index, measure))
                    if is_float:
                        record(check_float(case, measure, index, ballot, plain, base, res))
                        continue
                    cut = dict(res)
                    cut["sets"] = res["sets"][: len(plain)]
                    cut["sets2"] = res["sets2"][: len(plain)]
                    record(check_exact(case, measure, index, ballot, plain, base, cut))
                    if res["sets2"] != res["sets"]:
                        record([viol("a fresh object gives different values on lists with repeated projects", case, measure, index, {"kind": "memo"})])
                    if compare:
                        pending.append((case, measure, index, res, model_line(case, entries, measure, index, queries)))
    if compare and pending:
        outs = core.run_driver([p[4] for p in pending])
        for (case, measure, index, res, line), mline in zip(pending, outs):
            d = diff(measure, res, mline)
            if d:
                ctx.disagreements.append({"line": line, "fields": [list(map(str, x)) for x in d], "case": case.to_json(), "measure": measure, "index": index})
            if len(case.projects) in (2, 3):
                ctx.sample(f"{line} -> impl proj={','.join(res['proj'])} sets={','.join(res['sets'])} | model {mline}")
    ctx.extra["violations_per_call"] = {";".join(f"{a}={b}" for a, b in k): n for k, n in per_sig.items()}


def argtype_stream(ctx, n):
    """the queried collection as every argument type a caller may use (tuple, set, frozenset, dict keys, generator, iterator, map,
    filter, BudgetAllocation): `sat(collection)` must be the value of the same set given as a list (which the main stream judges
    against the documented formula).  Round 7 (C10-r7B): a rewrite that traverses the argument twice"""
    for _ in range(n):
        case = gen_case(ctx.rng)
        ctx.violations.extend(argtype_case(case, ctx)[:PER_SIG_CAP])


def argtype_case(case, ctx=None):
    from pabutools.rules import BudgetAllocation

    out = []
    for _ in range(1):
        if not case.projects or not case.ballots:
            continue
        r = random.Random(case.seed ^ 0xA51)
        multi = bool(case.cfg.get("multi"))
        inst, projs = core.build_instance(case)
        prof = core.build_profile(case, inst, projs, multi=multi)
        ballots = list(prof)
        ballot = r.choice(ballots)
        for measure in [m for m in EXACT[case.btype] + FLOAT.get(case.btype, []) if m not in MIP]:
            S = r.sample(case.names, r.randint(0, len(case.names)))
            try:
                want = core.sat_class(measure)(inst, prof, ballot).sat([projs[x] for x in S])
            except Exception:  # noqa: BLE001 - judged by the main stream
                continue
            for label, mk in core.collection_variants([projs[x] for x in S], alloc_cls=BudgetAllocation):
                if ctx is not None:
                    ctx.evaluations += 1
                    ctx.count("argtype", label)
                try:
                    got = core.sat_class(measure)(inst, prof, ballot).sat(mk())
                except Exception as e:  # noqa: BLE001
                    out.append(viol(f"sat({S} given as {label}) raised {type(e).__name__}: {e}; as a list it is {want}", case, measure, 0,
                                               {"kind": "argtype", "argtype": label, "err": core.err_enum(e)}))
                    continue
                if got != want:
                    out.append(viol(f"sat({S} given as {label}) = {got}, as a list {want}", case, measure, 0, {"kind": "argtype", "argtype": label},
                                    impl=str(got), expected=str(want)))
    return out


def ordinal_edit_stream(ctx, n):
    """Borda scores follow the ranking as it IS: an ordinal ballot is edited in place through every operation the class offers
    (`append`, `del b[p]`, `pop`, `|=`, `update`), with position look-ups in between, and after every step a FRESH measure must give
    `len(ballot) - position - 1` to every ranked project and 0 to the others.  Round 7 (C10-r7A, C18-r7A): positions cached on the
    ballot and not refreshed by the C-level dictionary operations"""
    for _ in range(n):
        v = ordinal_history(ctx.rng.getrandbits(48), ctx)
        if v is not None:
            ctx.violations.append(v)


def ordinal_history(seed, ctx=None):
    """one edit history of one ordinal ballot (a function of `seed`); returns a violation or None"""
    from pabutools.election import Additive_Borda_Sat, Instance, OrdinalBallot, OrdinalProfile, Project

    for _ in range(1):
        r = random.Random(seed)
        m = r.randint(2, 7)
        ps = [Project("p%d" % i, r.randint(1, 4)) for i in range(m)]
        inst = Instance(ps, budget_limit=r.randint(1, 8))
        b = OrdinalBallot(r.sample(ps, r.randint(1, m)))
        prof = OrdinalProfile([b], instance=inst)
        hist = ["start " + " ".join(p.name for p in b)]
        for step in range(r.randint(2, 6)):
            if r.random() < 0.7 and len(b) > 0:
                q = r.choice(list(b))
                b.position(q)
                b.index(q)
                Additive_Borda_Sat(inst, prof, b).sat_project(q)
            absent = [p for p in ps if p not in b]
            op = r.choice(["append", "del", "pop", "ior", "update"])
            try:
                if op == "append" and absent:
                    q = r.choice(absent); b.append(q); hist.append("append " + q.name)
                elif op == "del" and len(b) > 1:
                    q = r.choice(list(b)); del b[q]; hist.append("del " + q.name)
                elif op == "pop" and len(b) > 1:
                    q = r.choice(list(b)); b.pop(q); hist.append("pop " + q.name)
                elif op == "ior" and absent:
                    qs = r.sample(absent, r.randint(1, len(absent))); b |= OrdinalBallot(qs); hist.append("|= " + " ".join(q.name for q in qs))
                elif op == "update" and absent:
                    qs = r.sample(absent, r.randint(1, len(absent))); b.update(OrdinalBallot(qs)); hist.append("update " + " ".join(q.name for q in qs))
                else:
                    continue
                ranking = list(b)
                if ctx is not None:
                    ctx.evaluations += 1
                    ctx.count("ordinal_edit", op)
                sat = Additive_Borda_Sat(inst, prof, b)
                got = [sat.sat_project(p) for p in ps]
                want = [len(ranking) - ranking.index(p) - 1 if p in ranking else 0 for p in ps]
                pos = [b.position(p) for p in ranking]
            except Exception as e:  # noqa: BLE001
                return {"what": f"ordinal ballot history {hist}: {type(e).__name__}: {e}", "case": None, "cfg": {"history": hist, "seed": seed},
                        "sig": {"kind": "ordinal_edit", "err": core.err_enum(e)}}
            if got != want or pos != list(range(len(ranking))):
                return {"what": f"after the history {hist} the ranking is {[p.name for p in ranking]} but Borda scores are {got} (formula: {want}), "
                                f"positions {pos}", "case": None, "cfg": {"history": hist, "seed": seed}, "sig": {"kind": "ordinal_edit", "op": op}}
    return None


def cases_stream(ctx, n):
    for c in corner_cases():
        yield c
    for _ in range(n):
        yield gen_case(ctx.rng)


def run(ctx):
    ctx.rule = RULE
    run_cases(ctx, cases_stream(ctx, ctx.scale(160, 1600)))
    argtype_stream(ctx, ctx.scale(60, 600))
    ordinal_edit_stream(ctx, ctx.scale(300, 3000))


def search(ctx, disagreements):
    ctx.rule = RULE
    run_cases(ctx, cases_stream(ctx, 2500), compare=False)
    argtype_stream(ctx, 400)
    ordinal_edit_stream(ctx, 3000)


def replay(payload):
    kind = payload.get("sig", {}).get("kind")
    if kind == "ordinal_edit":
        v = ordinal_history(payload["cfg"]["seed"])
        return (False, "still fails: " + v["what"]) if v else (True, "property holds on the replayed ordinal-ballot history")
    if kind == "argtype":
        vs = argtype_case(Case.from_json(payload["case"]))
        return (False, "still fails: " + vs[0]["what"]) if vs else (True, "property holds on the replayed election for every argument type")
    case = Case.from_json(payload["case"])
    measure = payload["cfg"]["measure"]
    index = payload["cfg"]["index"]
    multi = bool(case.cfg.get("multi"))
    inst, projs = core.build_instance(case)
    prof = core.build_profile(case, inst, projs, multi=multi)
    entries = core.profile_entries(case, prof)
    ballot = entries[index][0]
    plain, base, dups = gen_queries(random.Random(case.seed ^ 0x5A7), case.names)
    if measure in MIP:
        with solverbox.SolverBox(warm_spare=False) as box:
            st, res = box.call("sat", {"case": case.to_json(), "multi": multi, "measure": measure, "index": index, "queries": plain})
        if st == "fault" or solver_fault(case, measure, ballot, res) is not None:
            return True, "solver fault on the replayed input (discarded, not a violation)"
        if st == "err":
            return False, f"still fails: {measure} raised {res.get('err')}"
    else:
        try:
            res = solverbox.sat_answers(case, inst, prof, projs, measure, index, plain)
        except Exception as e:  # noqa: BLE001
            return False, f"still fails: {measure} raised {type(e).__name__}: {e}"
    vs = (check_float if measure in oracle.FLOAT_MEASURES else check_exact)(case, measure, index, ballot, plain, base, res)
    if vs:
        return False, "still fails: " + vs[0]["what"]
    return True, f"property holds on the replayed input: {measure} on ballot {index}: sat_project = {res['proj']}"
