"""C08 — irresolute outcomes are exactly the outcomes of all tie-breaking orders."""
from __future__ import annotations

import itertools
import random
from fractions import Fraction as F

from .. import core, oracle, rulegen, rules, ruleprops
from ..core import Case
from ..ruleprops import violation

RULE = ("tie-rich elections (<=5 projects, equal costs, duplicated ballots) x {greedy, Equal Shares, Phragmen} x additive and "
        "non-additive measures x Profile/MultiProfile; the irresolute call is compared with the union of resolute calls under all m! "
        "permutation tie-breaking rules; non-trivial = at least 2 distinct irresolute outcomes; a third of the cases start from a feasible "
        "initial allocation handed over as a plain list or as ONE caller-owned BudgetAllocation object (possibly empty) that is reused for "
        "every call of the enumeration, as a caller holding the outcome of an earlier rule would; there the irresolute call is made before "
        "and after the resolute runs and is also compared with the independent definition enumerating every tie branch")
ASSUMPTIONS = ["<=5 projects so that all m! strict orders are enumerated"]


def tie_rich_election(rng):
    sub = rng.getrandbits(48)
    r = random.Random(sub)
    m = r.randint(2, 5)
    names = r.sample(core.NAME_POOL, m)
    base = r.choice([1, 2, F(1, 2), 3])
    mode = r.random()
    if mode < 0.5:
        costs = [F(base)] * m
    elif mode < 0.8:
        costs = [F(r.choice([base, base, 2 * base])) for _ in range(m)]
    else:
        costs = [F(r.choice([0, 1, 1, 2, 2, 3])) for _ in range(m)]
    projects = list(zip(names, costs))
    total = sum(costs, F(0))
    budget = r.choice([total / 2, base, 2 * base, total - min(costs) if total > min(costs) else total, total, F(r.randint(1, 6))])
    if budget <= 0:
        budget = F(1)
    btype = r.choice(["app", "app", "app", "card", "ord"])
    ballots = core.gen_ballots(r, btype, names, 1, 6, distinct_hi=2)
    return Case(projects, budget, btype, ballots, seed=sub)


def all_orders(case):
    k = len(case.names)
    for perm in itertools.permutations(range(k)):
        yield "perm:" + ".".join(str(i) for i in perm)


def check_case(ctx, case, cfg):
    """returns list of violations; records stats"""
    built = rules.Built(case, multi=cfg.get("multi", False))
    rulegen.fix_loads(cfg, built)
    cfg_irr = dict(cfg, res=False)
    shared = None
    if cfg.get("init_as") == "shared_ba":
        # the election's objects (instance, profile) are built once and used for every call below; so is the initial allocation
        from pabutools.rules import BudgetAllocation

        shared = BudgetAllocation([built.projs[nm] for nm in (cfg.get("init") or [])])

    def impl_answer(c):
        if shared is not None:
            c = dict(c, init_obj=shared, init_obj_pass_empty=True)
        return rules.impl_answer(built, c)

    ans, raw = impl_answer(cfg_irr)
    out = []
    sig = {"rule": cfg["rule"], "sat": cfg.get("sat"), "multi": bool(cfg.get("multi"))}
    if cfg.get("init_as"):
        sig["init_as"] = cfg["init_as"]
    if ans[0] == "err":
        return [violation(f"irresolute call raised {ans[1]}: {raw!r}", case, cfg_irr, impl=rules.canon(ans), sig=dict(sig, err=ans[1]))], None, None
    irr = [tuple(sorted(w)) for w in ans[1]]
    if len(set(irr)) != len(irr):
        out.append(violation("irresolute call returned a duplicate allocation", case, cfg_irr, impl=sorted(irr), sig=dict(sig, clause="nodup")))
    union = set()
    for tie in all_orders(case):
        c2 = dict(cfg, res=True, tie=tie)
        a2, r2 = impl_answer(c2)
        if a2[0] == "err":
            out.append(violation(f"resolute call under {tie} raised {a2[1]}", case, c2, impl=rules.canon(a2), sig=dict(sig, err=a2[1])))
            continue
        w = tuple(sorted(a2[1]))
        union.add(w)
        if w not in set(irr):
            out.append(violation(f"resolute outcome under order {tie} is not among the irresolute outcomes", case, c2, impl=list(w), expected=sorted(irr), sig=dict(sig, clause="sound")))
            break
    missing = set(irr) - union
    if missing and not out:
        out.append(violation("an irresolute outcome is produced by no strict tie-breaking order", case, cfg_irr, impl=sorted(irr), expected=sorted(union), sig=dict(sig, clause="complete")))
    # shipped rules' resolute outcomes are irresolute outcomes too
    for tie in core.TIES:
        if tie == "app_score" and case.btype != "app":
            continue
        c2 = dict(cfg, res=True, tie=tie)
        a2, r2 = impl_answer(c2)
        if a2[0] == "ok" and tuple(sorted(a2[1])) not in set(irr):
            out.append(violation(f"resolute outcome under the shipped rule {tie} is not among the irresolute outcomes", case, c2, impl=sorted(a2[1]), expected=sorted(irr), sig=dict(sig, clause="shipped")))
    if cfg.get("init_as"):
        # a caller may just as well ask for the irresolute outcome after the resolute runs: same objects, same election, same answer
        ans2, raw2 = impl_answer(cfg_irr)
        if ans2[0] == "err":
            out.append(violation(f"irresolute call made after the resolute runs raised {ans2[1]}: {raw2!r}", case, cfg_irr, impl=rules.canon(ans2), sig=dict(sig, err=ans2[1], clause="irr_after")))
        elif not out and set(tuple(sorted(w)) for w in ans2[1]) != union:
            out.append(violation("the irresolute call made after the resolute runs (same objects) is not the set of resolute outcomes over all strict orders", case, cfg_irr,
                                 impl=sorted(tuple(sorted(w)) for w in ans2[1]), expected=sorted(union), sig=dict(sig, clause="irr_after")))
        # ... and the independent definition, every tie branch followed
        exp = expected_outcomes(case, cfg_irr, built, ans, raw)
        if exp is not None and not out and sorted(set(irr)) != exp:
            out.append(violation("irresolute outcomes differ from the set of outcomes reachable by breaking ties in every possible way", case, cfg_irr,
                                 impl=sorted(irr), expected=exp, sig=dict(sig, clause="definition")))
    return out, irr, (built, cfg_irr, ans)


def expected_outcomes(case, cfg, built, ans, raw):
    """all outcomes of the textbook definition with every tie branch followed (sorted id tuples); None where the definition of the start
    from a non-empty initial allocation is not ours to fix (Equal Shares: the voters' money is not reduced by the library)"""
    from . import C02, C03

    init = cfg.get("init") or []
    it = ruleprops.Item(case, cfg, built, ans, raw, None)
    if cfg["rule"] == "mes":
        if init:
            return None
        exp = oracle.mes(case, C02.utilities_for(it), branch=True)
    elif cfg["rule"] == "greedy":
        exp = oracle.greedy(case, C03.tsat_for(it), init=init, branch=True)
    else:
        exp = oracle.phragmen(case, init=init, branch=True)
    return sorted(tuple(sorted(case.rank[p] for p in s)) for s in exp)


def pairs(ctx, n):
    rng = ctx.rng
    for _ in range(n):
        case = tie_rich_election(rng)
        cfg = rulegen.gen_rule_cfg(rng, case, rules=("mes", "greedy", "phragmen"), allow_refuse=False, allow_init=False)
        cfg["tie"] = "lexico"
        cfg.pop("loads_per_voter", None)
        if cfg["rule"] == "greedy" and cfg.get("additive") is True:
            cfg["additive"] = None
        if rng.random() < 0.34:
            # the run starts from an initial allocation (often empty), given as a list or as one object shared by all the calls
            cfg["init"] = core.gen_init(rng, case) if rng.random() < 0.5 else _nonempty_init(rng, case)
            cfg["init_as"] = rng.choice(["list", "shared_ba", "shared_ba"])
        yield case, cfg


def _nonempty_init(rng, case):
    fits = [n for n, c in case.projects if c <= case.budget]
    return [rng.choice(fits)] if fits else []


def sp_history(seed):
    """one caller-owned satisfaction profile handed to greedy, one voter's measure REPLACED in place (same number of voters), then the
    resolute and the irresolute call on that object: the resolute outcome must be one of the irresolute ones, and both must be
    what a freshly built satisfaction profile gives.  Round 7, C08-r7A: totals memoised on the satisfaction profile (used by the
    resolute fast path only) and dropped only when its length changes.  Returns a violation or None."""
    import pabutools.rules as R

    r = random.Random(seed)
    case = core.gen_election(r, btypes=("app", "app", "card"), m_lo=2, m_hi=5, n_hi=5)
    if not case.ballots:
        return None
    names = [n for n, _ in case.projects]
    new = core.gen_ballots(r, case.btype, names, 1, 1)[0]
    i = r.randrange(len(case.ballots))
    case2 = Case(case.projects, case.budget, case.btype, [new if k == i else b for k, b in enumerate(case.ballots)], case.seed)
    sat = r.choice(["Cost_Sat", "Cardinality_Sat"] if case.btype == "app" else ["Additive_Cardinal_Sat"])
    sc = core.sat_class(sat)
    inst, projs = core.build_instance(case)
    P1, P2 = core.build_profile(case, inst, projs), core.build_profile(case2, inst, projs)
    sp = P1.as_sat_profile(sc)
    cfg = {"rule": "greedy", "sat": sat, "sp_history_seed": seed}
    try:
        R.greedy_utilitarian_welfare(inst, P1, sat_profile=sp, is_sat_additive=True)
        sp[i] = sc(inst, P2, P2[i])
        res = sorted(p.name for p in R.greedy_utilitarian_welfare(inst, P2, sat_profile=sp, is_sat_additive=True))
        irr = sorted(sorted(p.name for p in o) for o in R.greedy_utilitarian_welfare(inst, P2, sat_profile=sp, is_sat_additive=True, resoluteness=False))
        fresh = sorted(sorted(p.name for p in o) for o in R.greedy_utilitarian_welfare(inst, P2, sat_profile=P2.as_sat_profile(sc), is_sat_additive=True, resoluteness=False))
    except Exception as e:  # noqa: BLE001
        return violation(f"greedy raised {e!r} on a satisfaction profile edited in place", case2, cfg, sig={"rule": "greedy", "history": "sat_profile_replace", "err": core.err_enum(e)})
    if res not in irr or irr != fresh:
        return violation(f"satisfaction profile with voter {i} replaced in place after a first call: resolute outcome {res}, irresolute outcomes {irr}, "
                         f"irresolute outcomes on a fresh satisfaction profile {fresh}", case2, cfg, impl=res, expected=irr, sig={"rule": "greedy", "history": "sat_profile_replace"})
    return None


def sp_history_stream(ctx, n):
    hits = 0
    for _ in range(n):
        v = sp_history(ctx.rng.getrandbits(48))
        ctx.evaluations += 1
        ctx.count("stream", "satisfaction profile edited in place")
        if v is not None and hits < 3:
            hits += 1
            ctx.violations.append(v)


def run(ctx, n=None, compare=True):
    ctx.rule = RULE
    n = n or ctx.scale(1200, 10000)
    lines, impls = [], []
    for case, cfg in pairs(ctx, n):
        if ctx.budget_s is not None and ctx.elapsed() > ctx.budget_s:
            break
        vs, irr, extra = check_case(ctx, case, cfg)
        ctx.evaluations += 1
        ctx.count("rule", cfg["rule"])
        ctx.count("sat", cfg.get("sat") or "-")
        ctx.count("m", str(len(case.projects)))
        ctx.count("multi", str(bool(cfg.get("multi"))))
        ctx.count("initial_allocation", (cfg.get("init_as") or "none") + ("" if not cfg.get("init_as") else (":nonempty" if cfg.get("init") else ":empty")))
        ctx.violations.extend(vs)
        if irr is not None:
            ctx.count("n_outcomes", str(min(len(irr), 6)))
            if len(set(irr)) >= 2:
                ctx.nontrivial.add(case.key() + cfg["rule"] + str(cfg.get("sat")) + str(cfg.get("multi")))
            if compare:
                built, cfg_irr, ans = extra
                lines.append(rules.model_line(built, cfg_irr))
                impls.append((rules.canon(ans).strip(), case, cfg_irr))
    if n >= 1000 or ctx.tier == "thorough":
        fast_stream(ctx, ctx.scale(14000, 80000))
    sp_history_stream(ctx, min(5000, max(500, n // 2)))  # round 7, drawn last
    if compare and lines:
        outs = core.run_driver(lines)
        for line, out, (impl_s, case, cfg) in zip(lines, outs, impls):
            if out.strip() != impl_s:
                ctx.disagreements.append({"line": line, "impl": impl_s, "model": out.strip(), "case": case.to_json(), "cfg": ruleprops.cfg_json(cfg)})
            ctx.sample(f"{line} -> impl: {impl_s} | model: {out.strip()}")


def fast_stream(ctx, n):
    """tie-rich elections, irresolute call vs the independent definition enumerating every tie branch (cheap: no m! loop)"""
    from . import C02, C03

    rng = ctx.rng
    for _ in range(n):
        if ctx.budget_s is not None and ctx.elapsed() > ctx.budget_s:
            break
        if rng.random() < 0.35:
            case = tie_rich_election(rng)
        else:
            # independently drawn approval ballots over 4-6 projects with small integer costs: ties between projects with
            # overlapping (not equal, not disjoint) supporter sets, where the order of the purchases matters later on
            r = random.Random(rng.getrandbits(48))
            m = r.randint(4, 6)
            names = r.sample(core.NAME_POOL, m)
            costs = [F(r.choice([1, 2, 3, 4])) for _ in names]
            ballots = [[x for x in names if r.random() < 0.5] for _ in range(r.randint(3, 6))]
            case = Case(list(zip(names, costs)), F(r.randint(2, int(sum(costs)) + 1)), "app", ballots, seed=r.getrandbits(32))
        if case.seed % 6 == 0:
            # names of mixed kinds ("2", "10", "1a", "07", …): the order on projects that sorts and de-duplicates the irresolute outcomes
            # must be a strict total order on them too (round 7, C08-r7B: digit names compared as numbers)
            case = core.with_mixed_names(random.Random(case.seed), case)
        cfg = rulegen.gen_rule_cfg(rng, case, rules=("mes", "mes", "greedy", "phragmen"), allow_refuse=False, allow_init=False, allow_float=False)
        cfg["tie"] = "lexico"
        cfg["res"] = False
        cfg.pop("loads_per_voter", None)
        if cfg["rule"] == "greedy":
            cfg["additive"] = None
        built = rules.Built(case, multi=cfg.get("multi", False))
        ans, raw = rules.impl_answer(built, cfg)
        ctx.evaluations += 1
        ctx.count("fast_stream", cfg["rule"])
        if ans[0] != "oks":
            ctx.violations.append(violation(f"irresolute call raised {ans[1]}", case, cfg, impl=rules.canon(ans), sig={"rule": cfg["rule"], "clause": "fast", "err": ans[1]}))
            continue
        it = ruleprops.Item(case, cfg, built, ans, raw, None)
        if cfg["rule"] == "mes":
            exp = oracle.mes(case, C02.utilities_for(it), branch=True)
        elif cfg["rule"] == "greedy":
            exp = oracle.greedy(case, C03.tsat_for(it), branch=True)
        else:
            exp = oracle.phragmen(case, branch=True)
        exp_sets = sorted(sorted(case.rank[p] for p in s) for s in exp)
        got = sorted(sorted(w) for w in ans[1])
        if len(exp_sets) >= 2:
            ctx.nontrivial.add("fast" + case.key() + cfg["rule"] + str(cfg.get("sat")))
        if got != exp_sets:
            ctx.violations.append(violation("irresolute outcomes differ from the set of outcomes reachable by breaking ties in every possible way",
                                            case, cfg, impl=got, expected=exp_sets, sig={"rule": cfg["rule"], "sat": cfg.get("sat"), "clause": "fast"}))


def search(ctx, disagreements):
    run(ctx, n=3000, compare=False)


def replay(payload):
    if payload.get("cfg", {}).get("sp_history_seed") is not None:
        v = sp_history(payload["cfg"]["sp_history_seed"])
        return (False, "still fails: " + v["what"]) if v else (True, "resolute and irresolute calls agree on the edited satisfaction profile")
    case = Case.from_json(payload["case"])
    cfg = ruleprops.cfg_from_json(payload["cfg"])
    cfg["tie"] = "lexico"

    class _C:
        pass

    vs, irr, _ = check_case(None, case, cfg)
    if vs:
        return False, "still fails: " + vs[0]["what"]
    return True, "property holds on the replayed input"
