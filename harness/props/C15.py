"""C15 — instance predicates agree with brute force over subsets.

Implementation: Instance.is_feasible / is_exhaustive (with and without available projects) on every subset,
Instance.budget_allocations, Instance.is_trivial, max_budget_allocation_cardinality and
max_budget_allocation_cost (the latter in a solver sandbox) on the instance and on a sub-list for several
budgets.  Predicate: `oracle` brute force over all 2^m subsets with fractions.Fraction.  Model: `inst` command.
"""
from __future__ import annotations

import random
from fractions import Fraction as F

from .. import core, oracle
from .. import mipbox as solverbox
from ..core import Case, q2s
from . import C04_ilp

RULE = ("seeded instances with 0..8 projects, costs from integer / fractional pools with zero and equal costs, budget in "
        "{0, cheapest cost, subset sums, subset sum +- half a gap, half the total, the total, beyond the total}; every subset "
        "is queried; non-trivial = at least 2 projects, some non-empty subset feasible and some subset infeasible, "
        "distinct by canonical instance hash")
ASSUMPTIONS = ["exact-arithmetic mode (FRACTION = gmpy2)", "non-negative exact costs, budget >= 0, <= 8 projects"]
TRUSTED = ["max_budget_allocation_cost: CBC solution recorded in the worker and re-validated exactly (feasible, integral, "
           "optimal); calls whose solver solution is invalid or whose worker died are discarded as solver faults"]

PER_SIG_CAP = 3


# ----------------------------------------------------------------------------------------------
# generation


def gen_budget(r: random.Random, costs):
    total = sum(costs, F(0))
    pos = [c for c in costs if c > 0]
    gap = min(pos) if pos else F(1)
    sub = sum(r.sample(costs, r.randint(0, len(costs))), F(0)) if costs else F(0)
    choices = [F(0), sub, sub + gap / 2, max(F(0), sub - gap / 2), total, total + 1, total / 2, F(r.randint(0, 12)), total + gap / 3]
    # a hair below / above a subset sum: "equal up to rounding" is not "within the budget" (C15-r7B: feasibility through round_cmp)
    eps = F(1, r.choice([10 ** 7, 3 * 10 ** 8, 10 ** 12, 7 * 10 ** 15]))
    choices += [max(F(0), sub - eps), sub + eps, max(F(0), total - eps)]
    if costs:
        choices += [min(costs), max(costs), min(costs) / 2]
    return F(r.choice(choices))


def gen_case(rng: random.Random, m_hi=8):
    sub = rng.getrandbits(48)
    r = random.Random(sub)
    projects = core.gen_projects(r, 0, m_hi, allow_zero=True)
    if projects and r.random() < 0.15:
        # wider spread of fractional costs
        projects = [(n, F(r.randint(0, 9), r.choice([1, 2, 3, 4, 6, 7]))) for n, _ in projects]
    costs = [c for _, c in projects]
    budget = gen_budget(r, costs)
    names = [n for n, _ in projects]
    L = r.sample(names, r.randint(0, len(names)))
    if L and all(c == 0 for n, c in projects if n in L) and r.random() < 0.85:
        # an all-zero constraint row aborts CBC (a solver fault): keep such lists rare, they cost a worker restart
        L = L + [n for n, c in projects if c > 0][:1] if r.random() < 0.7 else []
    cfg = {
        "A": sorted(r.sample(names, r.randint(0, len(names)))),
        "L": L,
        "Q": [q2s(gen_budget(r, costs)) for _ in range(3)] + [q2s(budget)],
    }
    return Case(projects, budget, "app", [], seed=sub, **cfg)


def corner_cases():
    """hand-written boundary instances (the documented defects sit here)"""
    out = []

    def mk(costs, budget, Q=None):
        projects = [("p%d" % i, F(c)) for i, c in enumerate(costs)]
        names = [n for n, _ in projects]
        out.append(Case(projects, F(budget), "app", [], seed=0, A=names[:1], L=names, Q=[q2s(F(q)) for q in (Q or [budget])]))

    mk([2, 3], 2)  # exactly the cheapest project fits
    mk([F(1, 3), F(1, 3)], F(2, 3), [F(2, 3), F(1, 3), 1])  # fractional optimum
    mk([F(1, 3), F(1, 3), F(1, 3), 1], 1, [1, F(2, 3), F(4, 3)])
    mk([], 0)
    mk([], 5)
    mk([0, 0], 0)
    mk([0, 0, 1], 0)
    mk([1, 1, 1], 0)
    mk([1, 1, 1], 1)
    mk([F(1, 7), F(2, 7), F(3, 7)], F(3, 7), [F(3, 7), F(4, 7), F(5, 7), F(6, 7)])
    mk([F(5, 3), F(1, 2), F(3, 2)], F(13, 6), [F(13, 6), 2, F(19, 6), F(11, 3)])
    return out


# ----------------------------------------------------------------------------------------------
# implementation + predicate


def viol(what, case, sig, impl=None, expected=None):
    return {"what": what, "case": case.to_json(), "cfg": case.to_json()["cfg"], "impl": impl, "expected": expected, "sig": sig}


def evaluate(case: Case, box: solverbox.SolverBox):
    """run the real library on the case; returns (answer dict for the model diff, violations, solver faults)"""
    from pabutools.election.instance import max_budget_allocation_cardinality

    inst, projs = core.build_instance(case)
    cost, B = case.cost, case.budget
    names = case.names
    subs = list(oracle.subsets(names))
    A = list(case.cfg["A"])
    L = list(case.cfg["L"])
    Q = [F(q) for q in case.cfg["Q"]]
    vs = []
    faults = 0
    ans = {"enum": [p.name for p in inst]}

    def guarded(call, f):
        try:
            return f()
        except Exception as e:  # noqa: BLE001
            vs.append(viol(f"{call} raised {type(e).__name__}: {e}", case, {"call": call, "err": core.err_enum(e)}))
            return None

    # feasibility / exhaustiveness of every subset
    feas, exh, exhA = [], [], []
    for S in subs:
        ps = [projs[n] for n in S]
        f1 = guarded("is_feasible", lambda: inst.is_feasible(ps))
        f2 = guarded("is_feasible", lambda: inst.is_feasible(tuple(reversed(ps))))
        e1 = guarded("is_exhaustive", lambda: inst.is_exhaustive(ps))
        e2 = guarded("is_exhaustive", lambda: inst.is_exhaustive(ps, [projs[n] for n in A]))
        feas.append(f1)
        exh.append(e1)
        exhA.append(e2)
        xf = oracle.feasible(cost, S, B)
        if len(subs) <= 64 or S == subs[case.seed % len(subs)]:
            # the same set as every argument type a caller may use, one-shot iterables included (is_feasible sums the costs once)
            for label, mk in core.collection_variants(ps):
                fv = guarded("is_feasible", lambda: inst.is_feasible(mk()))
                if fv is not None and bool(fv) != xf:
                    vs.append(viol(f"is_feasible({S} given as {label}) = {fv}, total cost {oracle.total(cost, S)} vs budget {B}", case,
                                   {"call": "is_feasible", "argtype": label}, impl=fv, expected=xf))
            for label, mk in core.collection_variants(ps, one_shot=False):
                ev = guarded("is_exhaustive", lambda: inst.is_exhaustive(mk()))
                if ev is not None and bool(ev) != oracle.exhaustive(cost, S, names, B):
                    vs.append(viol(f"is_exhaustive({S} given as {label}) = {ev}", case, {"call": "is_exhaustive", "argtype": label}, impl=ev))
        if f1 is not None and (bool(f1) != xf or bool(f2) != xf):
            vs.append(viol(f"is_feasible({S}) = {f1}/{f2}, total cost {oracle.total(cost, S)} vs budget {B}", case, {"call": "is_feasible"}, impl=f1, expected=xf))
        xe = oracle.exhaustive(cost, S, names, B)
        if e1 is not None and bool(e1) != xe:
            vs.append(viol(f"is_exhaustive({S}) = {e1}, brute force {xe}", case, {"call": "is_exhaustive"}, impl=e1, expected=xe))
        xa = oracle.exhaustive(cost, S, A, B)
        if e2 is not None and bool(e2) != xa:
            vs.append(viol(f"is_exhaustive({S}, available={A}) = {e2}, brute force {xa}", case, {"call": "is_exhaustive", "available": True}, impl=e2, expected=xa))
    ans["feas"], ans["exh"], ans["exhA"] = feas, exh, exhA

    # enumeration of the budget allocations
    allocs = guarded("budget_allocations", lambda: [sorted(p.name for p in b) for b in inst.budget_allocations()])
    if allocs is not None:
        want = sorted(sorted(S) for S in subs if oracle.feasible(cost, S, B))
        got = sorted(allocs)
        if got != want:
            dup = len(got) != len({tuple(a) for a in got})
            vs.append(viol("budget_allocations() is not the list of feasible subsets" + (" (a subset is yielded twice)" if dup else ""), case,
                           {"call": "budget_allocations"}, impl=got[:20], expected=want[:20]))
    ans["allocs"] = allocs

    # trivial
    triv = guarded("is_trivial", lambda: inst.is_trivial())
    if triv is not None:
        xt = oracle.trivial(cost, names, B)
        if bool(triv) != xt:
            vs.append(viol(f"is_trivial() = {triv}; all fit: {oracle.total(cost, names) <= B}, some project fits: {any(cost[p] <= B for p in names)}",
                           case, {"call": "is_trivial"}, impl=triv, expected=xt))
    ans["triv"] = triv

    # optima for the list L and the budgets Q
    card, mcost = [], []
    for q in Q:
        c = guarded("max_budget_allocation_cardinality", lambda: max_budget_allocation_cardinality([projs[n] for n in L], core.to_cost(q)))
        card.append(c)
        if c is not None:
            xc = oracle.max_card(cost, L, q)
            if c != xc or isinstance(c, bool) or not isinstance(c, int):
                vs.append(viol(f"max_budget_allocation_cardinality({L}, {q}) = {c!r}, brute force {xc}", case, {"call": "max_budget_allocation_cardinality"}, impl=repr(c), expected=xc))
            # the documented argument is "an iterable of projects": every kind of iterable, one-shot ones included (C15-r7A)
            for label, mk in core.collection_variants([projs[n] for n in L]):
                cv = guarded("max_budget_allocation_cardinality", lambda: max_budget_allocation_cardinality(mk(), core.to_cost(q)))
                if cv is not None and cv != xc:
                    vs.append(viol(f"max_budget_allocation_cardinality({L} given as {label}, {q}) = {cv!r}, brute force {xc}", case,
                                   {"call": "max_budget_allocation_cardinality", "argtype": label}, impl=repr(cv), expected=xc))
        xm = oracle.max_cost(cost, L, q)
        st, res = box.call("max_cost", {"projects": [[n, q2s(cost[n])] for n in L], "budget": q2s(q)})
        if st == "fault":
            faults += 1
            mcost.append(None)
            continue
        fault = None
        for rec in res.get("models", []):
            fault = fault or solverbox.validate_knapsack(rec, {n: cost[n] for n in L}, {n: cost[n] for n in L}, q, xm)
        if fault is not None:
            faults += 1
            mcost.append(None)
            continue
        if st == "err":
            vs.append(viol(f"max_budget_allocation_cost({L}, {q}) raised {res.get('err')}: {res.get('msg')} (solver solution was valid)", case,
                           {"call": "max_budget_allocation_cost", "err": res.get("err")}))
            mcost.append(None)
            continue
        v = F(res["value"])
        mcost.append(v)
        if v != xm or res.get("type") == "float":
            vs.append(viol(f"max_budget_allocation_cost({L}, {q}) = {res['value']} ({res.get('type')}), brute force {xm}", case,
                           {"call": "max_budget_allocation_cost"}, impl=res["value"], expected=q2s(xm)))
    ans["card"], ans["cost"] = card, mcost
    return ans, vs, faults


# ----------------------------------------------------------------------------------------------
# model


def enc_list(case, S):
    return ".".join(str(i) for i in case.ids(S)) if S else "-"


def model_line(case: Case, enum):
    subs = list(oracle.subsets(case.names))
    ptok = ",".join(f"{case.rank[n]}:{q2s(case.cost[n])}" for n in enum)
    return (f"inst B={q2s(case.budget)} P={ptok} S={'|'.join(enc_list(case, S) for S in subs)} A={enc_list(case, case.cfg['A'])} "
            f"L={enc_list(case, case.cfg['L'])} Q={','.join(case.cfg['Q'])} alloc=1")


def parse_model(line):
    if not line.startswith("ok "):
        return None
    d = {}
    for tok in line[3:].split(" "):
        k, _, v = tok.partition("=")
        d[k] = v
    return d


def bits(l):
    return ",".join("?" if b is None else ("1" if b else "0") for b in l)


def diff(case, ans, mline):
    """list of (field, impl, model) where the model and the implementation differ"""
    m = parse_model(mline)
    if m is None:
        return [("answer", "ok …", mline)]
    out = []

    def cmp(field, impl):
        if m.get(field) != impl:
            out.append((field, impl, m.get(field)))

    for f in ("feas", "exh", "exhA"):
        if None not in ans[f]:
            cmp(f, bits(ans[f]))
    if ans["triv"] is not None:
        cmp("triv", bits([ans["triv"]]))
    if None not in ans["card"]:
        cmp("card", ",".join(str(c) for c in ans["card"]))
    mc = (m.get("cost") or "").split(",")
    for k, v in enumerate(ans["cost"]):
        if v is not None and (k >= len(mc) or mc[k] != q2s(v)):
            out.append((f"cost[{k}]", q2s(v), mc[k] if k < len(mc) else None))
    if ans["allocs"] is not None:
        al = sorted(sorted(case.ids(a)) for a in ans["allocs"])
        cmp("nalloc", str(len(al)))
        cmp("allocs", "|".join(",".join(str(i) for i in a) if a else "-" for a in al))
    return out


# ----------------------------------------------------------------------------------------------


def is_nontrivial(case):
    if len(case.projects) < 2:
        return False
    subs = list(oracle.subsets(case.names))
    return any(S and oracle.feasible(case.cost, S, case.budget) for S in subs) and any(not oracle.feasible(case.cost, S, case.budget) for S in subs)


def run_cases(ctx, cases, compare=True):
    per_sig = {}
    pending = []
    with solverbox.SolverBox() as box:
        for case in cases:
            if ctx.budget_s is not None and ctx.elapsed() > ctx.budget_s:
                break
            ans, vs, faults = evaluate(case, box)
            ctx.evaluations += 1
            ctx.solver_faults += faults
            ctx.count("m", str(len(case.projects)))
            ctx.count("fractional", str(any(c.denominator != 1 for c in case.cost.values())))
            ctx.count("budget_vs_total", "below" if case.budget < oracle.total(case.cost, case.names) else "at-or-above")
            if is_nontrivial(case):
                ctx.nontrivial.add(case.key())
            for v in vs:
                k = tuple(sorted((a, str(b)) for a, b in v["sig"].items()))
                per_sig[k] = per_sig.get(k, 0) + 1
                if per_sig[k] <= PER_SIG_CAP:
                    ctx.violations.append(v)
            if compare:
                pending.append((case, ans, model_line(case, ans["enum"])))
    if compare and pending:
        outs = core.run_driver([p[2] for p in pending])
        for (case, ans, line), mline in zip(pending, outs):
            d = diff(case, ans, mline)
            if d:
                ctx.disagreements.append({"line": line, "fields": [list(map(str, x)) for x in d], "case": case.to_json(), "model": mline})
            ctx.sample(f"{line[:160]}… -> impl triv={ans['triv']} card={ans['card']} cost={[None if c is None else q2s(c) for c in ans['cost']]} | model {mline[:120]}…")
    ctx.extra["violations_per_call"] = {";".join(f"{a}={b}" for a, b in k): n for k, n in per_sig.items()}


def cases_stream(ctx, n, m_hi=8):
    for c in corner_cases():
        yield c
    for _ in range(n):
        yield gen_case(ctx.rng, m_hi)


def run(ctx):
    ctx.rule = RULE
    run_cases(ctx, cases_stream(ctx, ctx.scale(400, 4000)))
    C04_ilp.run_helpers(ctx, list(cases_stream(ctx, ctx.scale(40, 400))))  # the MIP the helper really builds == the program of the Lean model


def search(ctx, disagreements):
    ctx.rule = RULE
    run_cases(ctx, cases_stream(ctx, 6000), compare=False)


def replay(payload):
    case = Case.from_json(payload["case"])
    case.cfg["Q"] = [q if isinstance(q, str) else q2s(q) for q in case.cfg.get("Q", [q2s(case.budget)])]
    case.cfg.setdefault("A", [])
    case.cfg.setdefault("L", list(case.names))
    with solverbox.SolverBox() as box:
        ans, vs, faults = evaluate(case, box)
    if vs:
        return False, "still fails: " + vs[0]["what"]
    return True, f"property holds on the replayed input (trivial={ans['triv']}, {len(ans['allocs'] or [])} budget allocations, max cardinality {ans['card']}, solver faults {faults})"
