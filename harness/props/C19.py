"""C19 — rule comparison returns exactly the best outcomes among the compared rules."""
from __future__ import annotations

import json
import random
from fractions import Fraction as F

from .. import core, oracle, rulegen, rules, ruleprops
from ..core import Case, toF
from ..ruleprops import violation

RULE = ("seeded elections x pairs/triples of rules drawn from {greedy x measure, Equal Shares x measure, Phragmen, welfare maximiser} (repeats "
        "allowed, so identical outcomes occur) x comparison measure in all shipped measures of the ballot type x Profile/MultiProfile; "
        "predicate = both arg-max sets recomputed with independent satisfaction arithmetic on the rules' own outcomes; diffed with the "
        "Lean comparison model; non-trivial = at least 2 distinct outcomes compared.  Every compared rule accepts an initial budget "
        "allocation, so the comparison is also given one (None / empty / a non-empty feasible set, as list or BudgetAllocation; the "
        "expected verdict is computed on the rules' FULL outcomes, initial projects included).  Histories: (a) one long-lived profile "
        "edited in place between two comparisons; (b) one caller-owned rule_sequence / rule_params pair reused for 2-4 comparisons "
        "that differ in kind, comparison measure and initial allocation, each judged against the definition on its own arguments "
        "(the expected outcomes are computed with fresh parameter dictionaries)")
ASSUMPTIONS = ["outcomes are allocations (sets of projects): de-duplicated and compared as sets"]


def rule_callable(spec, case, built, tie):
    import pabutools.rules as R

    if spec.startswith("mes:"):
        return R.method_of_equal_shares, {"sat_class": core.sat_class(spec[4:]), "tie_breaking": tie}
    if spec.startswith("greedy:"):
        return R.greedy_utilitarian_welfare, {"sat_class": core.sat_class(spec[7:]), "tie_breaking": tie}
    if spec.startswith("maxw:"):
        return R.max_additive_utilitarian_welfare, {"sat_class": core.sat_class(spec[5:])}
    return R.sequential_phragmen, {"tie_breaking": tie}


def gen(ctx):
    rng = ctx.rng
    case = core.gen_election(rng, btypes=("app", "app", "app", "card", "ord"), m_lo=1, m_hi=6)
    if case.btype == "card" and rng.random() < 0.4:
        # cardinal ballots with negative scores: a voter can dislike every compared outcome (and still has a least disliked one)
        case = Case(case.projects, case.budget, "card", [{k: (F(-rng.randint(1, 4)) if rng.random() < 0.5 else v) for k, v in b.items()} for b in case.ballots], case.seed)
    bt = case.btype
    add = list(core.SAT_BY_TYPE[bt])
    specs = []
    for s in add:
        specs += ["greedy:" + s, "mes:" + s, "maxw:" + s]
    for s in core.SAT_NONADD[bt]:
        if s == "CC_Sat":
            specs.append("greedy:" + s)
    if bt == "app":
        specs.append("phragmen")
    if bt == "card" and any(v < 0 for b in case.ballots for v in b.values()):
        # the compared RULES are run with a measure that ignores the scores' sign problem (Chamberlin-Courant / cost); the
        # comparison measure below may be the signed additive one
        specs = ["greedy:CC_Sat", "greedy:Cost_Sat", "greedy:Cardinality_Sat"]
    k = rng.choice([2, 2, 3, 1])  # a comparison of a single rule is a comparison too (C19-r7B: a shortcut that forgot the initial allocation)
    seq = [rng.choice(specs) for _ in range(k)]
    if rng.random() < 0.25:
        seq.append(seq[0])
    cmp_sat = rng.choice(add + [s for s in core.SAT_NONADD[bt] if s == "CC_Sat"])
    cfg = {"kind": rng.choice(["welfare", "popularity"]), "rules": seq, "sat": cmp_sat, "multi": rng.random() < 0.5,
           "tie": rng.choice(["lexico", "min_cost", "max_cost"])}
    cfg.update(gen_init_cfg(rng, case))
    return case, cfg


def gen_tinydiff(ctx):
    """outcomes whose total satisfaction differs by 1e-7 .. 1e-9 without being equal ("the best" is an exact comparison): approval
    elections with costs in the tens of millions that differ by a unit or two, compared by the cost share of the budget; cardinal
    elections whose scores differ in the eighth decimal"""
    rng = ctx.rng
    r = random.Random(rng.getrandbits(48))
    if r.random() < 0.6:
        base = core.gen_tight_election(r, btypes=("app",), m=(2, 5), n=(2, 6))
        S = r.choice([10**7, 10**7, 10**8, 3 * 10**6])
        projects = [(nm, c * S + r.choice([0, 0, 1, 2, -1])) for nm, c in base.projects]
        case = Case(projects, base.budget * S + r.choice([0, 1, 5]), "app", base.ballots, base.seed)
        specs = ["greedy:Cost_Sat", "greedy:Cardinality_Sat", "mes:Cost_Sat", "mes:Cardinality_Sat", "phragmen", "greedy:Relative_Cost_Approx_Normaliser_Sat"]
        cmp_sat = r.choice(["Relative_Cost_Approx_Normaliser_Sat", "Relative_Cost_Approx_Normaliser_Sat", "Cost_Sat"])
    else:
        base = core.gen_tight_election(r, btypes=("card",), m=(2, 5), n=(2, 5))
        D = r.choice([10**7, 10**8, 10**9])
        ballots = [{k: v + F(r.choice([0, 0, 1, 2, 3]), D) for k, v in b.items()} for b in base.ballots]
        case = Case(base.projects, base.budget, "card", ballots, base.seed)
        specs = ["greedy:CC_Sat", "greedy:Additive_Cardinal_Sat", "mes:Additive_Cardinal_Sat", "maxw:Additive_Cardinal_Sat"]
        cmp_sat = "Additive_Cardinal_Sat"
    seq = [r.choice(specs) for _ in range(r.choice([2, 3, 3]))]
    cfg = {"kind": r.choice(["welfare", "welfare", "popularity"]), "rules": seq, "sat": cmp_sat, "multi": r.random() < 0.4, "tie": r.choice(["lexico", "min_cost", "max_cost"])}
    cfg.update(gen_init_cfg(r, case))
    return case, cfg


def gen_init_cfg(rng, case, p_none=0.35):
    """the initial allocation handed to the comparison (every compared rule accepts one): not given / empty / a non-empty
    feasible set of projects, as a plain list or as a BudgetAllocation"""
    u = rng.random()
    if u < p_none:
        return {"init": None}
    init = []
    if u >= p_none + 0.1:
        init = core.gen_init(rng, case)
        if not init:
            # a non-empty feasible set: cheapest-first prefix of a random order
            names = [n for n, _ in case.projects]
            rng.shuffle(names)
            tot = F(0)
            for n in names:
                if tot + case.cost[n] <= case.budget and (not init or rng.random() < 0.4):
                    init.append(n)
                    tot += case.cost[n]
    return {"init": init, "init_form": rng.choice(["list", "alloc", "list", "alloc", "tuple", "set", "generator", "iter", "map", "filter"])}


def build_rules(case, cfg, built):
    """fresh rule_sequence / rule_params objects for the configuration"""
    tie = core.tie_rule(cfg["tie"], case, built.projs)
    fs, ps = [], []
    for spec in cfg["rules"]:
        f, kw = rule_callable(spec, case, built, tie)
        fs.append(f)
        ps.append(kw)
    return fs, ps


def init_arg(cfg, built):
    """the caller's initial allocation object for cfg (None = argument left out)"""
    if cfg.get("init") is None:
        return None
    init = [built.projs[n] for n in cfg["init"]]
    if cfg.get("init_form") == "alloc":
        from pabutools.rules import BudgetAllocation

        return BudgetAllocation(init)
    if cfg.get("init_form") not in (None, "list"):
        return core.shape_init(init, cfg["init_form"])  # tuple, set, generator, iter, …: a fresh object per call
    return init


def judge(case, cfg, built, fs, ps):
    """one comparison call with the caller's objects (fs, ps may be shared with earlier calls), judged against the
    definition evaluated on THIS call's arguments: the outcomes of the rules are recomputed with fresh parameter
    dictionaries and a fresh copy of the initial allocation"""
    import pabutools.rules as R

    sig = {"kind": cfg["kind"], "sat": cfg["sat"]}
    if cfg.get("init"):
        sig["init"] = True
    fn = R.social_welfare_comparison if cfg["kind"] == "welfare" else R.popularity_comparison
    init = init_arg(cfg, built)
    try:
        if init is None:
            out = fn(built.inst, built.prof, core.sat_class(cfg["sat"]), fs, ps)
        else:
            out = fn(built.inst, built.prof, core.sat_class(cfg["sat"]), fs, ps, initial_budget_allocation=init)
        fs2, ps2 = build_rules(case, cfg, built)
        # each rule run alone gets a FRESH object of the same kind as the comparison got (an unordered kind fixes the order of
        # the initial projects inside the outcome; "unmodified outcome" is judged with that order)
        singles = [f(built.inst, built.prof, **({} if cfg.get("init") is None else {"initial_budget_allocation": init_arg(cfg, built)}), **kw)
                   for f, kw in zip(fs2, ps2)]
    except Exception as e:  # noqa: BLE001
        return None, None, [violation(f"comparison raised {e!r}", case, cfg, sig=dict(sig, err=core.err_enum(e)))]
    vs = []
    got = [[case.rank[p.name] for p in o] for o in out]
    outcomes = [[case.rank[p.name] for p in o] for o in singles]
    # outcomes are allocations (sets of projects): the same projects in another order are the same outcome
    distinct = []
    for o in outcomes:
        if all(set(o) != set(d) for d in distinct):
            distinct.append(o)
    # every returned allocation is the unmodified outcome of one of the rules
    for g in got:
        if g not in outcomes:
            vs.append(violation("a returned allocation is not the outcome of any compared rule", case, cfg, impl=g, expected=distinct, sig=dict(sig, clause="subset")))
    names = case.names

    def sat_v(b, ids):
        return oracle.sat_set(cfg["sat"], case, b, [names[i] for i in ids])

    # the satisfaction of a voter with an outcome is her satisfaction with the whole allocation (initial projects included)
    if cfg["kind"] == "welfare":
        w = [sum((sat_v(b, o) for b in case.ballots), F(0)) for o in distinct]
        mx = max(w)
        exp = [o for o, x in zip(distinct, w) if x == mx]
    else:
        sup = [0] * len(distinct)
        for b in case.ballots:
            s = [sat_v(b, o) for o in distinct]
            m = max(s)
            for i, x in enumerate(s):
                if x == m:
                    sup[i] += 1
        mx = max(sup)
        exp = [o for o, x in zip(distinct, sup) if x == mx]
    if sorted(map(sorted, got)) != sorted(map(sorted, exp)) or len(got) != len(exp):
        vs.append(violation("comparison does not return exactly the best distinct outcomes", case, cfg, impl=got, expected=exp, sig=dict(sig, clause="argmax")))
    return got, outcomes, vs


def check(case, cfg):
    built = rules.Built(case, multi=cfg["multi"])
    fs, ps = build_rules(case, cfg, built)
    got, outcomes, vs = judge(case, cfg, built, fs, ps)
    return built, got, outcomes, vs


def model_line(case, cfg, built, outcomes):
    rtok = "|".join(".".join(str(i) for i in sorted(o)) for o in outcomes)
    stok = rules.sat_tokens(built, {"sat": cfg["sat"]}, need_setfn=True)
    return f"compose kind={cfg['kind']} {case.enc_common(built.entries(), built.enum())} R={rtok} {stok}"


def run(ctx, n=None, compare=True):
    ctx.rule = RULE
    n = n or ctx.scale(4000, 20000)
    lines, info = [], []

    def one(case, cfg, stream):
        built, got, outcomes, vs = check(case, cfg)
        ctx.evaluations += 1
        ctx.count("stream", stream)
        ctx.count("kind", cfg["kind"])
        ctx.count("cmp_sat", cfg["sat"])
        ctx.count("multi", str(cfg["multi"]))
        ctx.count("initial_allocation", init_label(cfg))
        ctx.violations.extend(vs)
        if outcomes is not None:
            nd = len({tuple(sorted(o)) for o in outcomes})
            ctx.count("distinct_outcomes", str(nd))
            if nd >= 2:
                ctx.nontrivial.add(case.key() + json.dumps(cfg, sort_keys=True))
                if cfg.get("init"):
                    ctx.count("nonempty_init_distinct_outcomes", cfg["sat"])
            if compare:
                lines.append(model_line(case, cfg, built, outcomes))
                info.append(("ok " + "|".join(",".join(str(i) for i in sorted(o)) for o in got), case, cfg))

    for _ in range(n):
        if ctx.budget_s is not None and ctx.elapsed() > ctx.budget_s:
            break
        case, cfg = gen(ctx)
        one(case, cfg, "main")
    # set-function measures x non-empty initial allocation: a voter already served by an initial project is indifferent
    # between outcomes that an additive measure would separate (the popularity count sees it, the totals see it too)
    for _ in range(n // 2 if compare else n // 4):
        if ctx.budget_s is not None and ctx.elapsed() > ctx.budget_s:
            break
        case, cfg = gen_init_setfn(ctx)
        one(case, cfg, "init_setfn")
    for _ in range(ctx.scale(600, 5000)):  # round 6 (drawn after the streams above)
        if ctx.budget_s is not None and ctx.elapsed() > ctx.budget_s:
            break
        case, cfg = gen_tinydiff(ctx)
        one(case, cfg, "near-tied totals")
    history_stream(ctx, ctx.scale(400, 3000))
    reuse_stream(ctx, ctx.scale(1200, 8000), lines if compare else None, info)
    if compare and lines:
        res = core.run_driver(lines)
        for line, o, (impl_s, case, cfg) in zip(lines, res, info):
            if o.strip() != impl_s.strip():
                ctx.disagreements.append({"line": line, "impl": impl_s, "model": o.strip(), "case": case.to_json(), "cfg": cfg})
            ctx.sample(f"{line} -> impl: {impl_s} | model: {o.strip()}", cap=5)


def init_label(cfg):
    if cfg.get("init") is None:
        return "not given"
    return ("non-empty " if cfg["init"] else "empty ") + cfg.get("init_form", "list")


def cmp_sats(bt):
    return list(core.SAT_BY_TYPE[bt]) + [s for s in core.SAT_NONADD[bt] if s == "CC_Sat"]


def gen_init_setfn(ctx):
    """approval / cardinal elections with overlapping ballots, a NON-EMPTY initial allocation that some voters approve,
    compared with the (non-additive) Chamberlin-Courant measure"""
    rng = ctx.rng
    for _ in range(50):
        case, cfg = gen(ctx)
        if case.btype == "ord" or len(case.projects) < 3:
            continue
        c2 = gen_init_cfg(rng, case, p_none=0.0)
        if not c2["init"]:
            continue
        cfg.update(c2)
        cfg["sat"] = "CC_Sat"
        return case, cfg
    return case, cfg


def reuse_stream(ctx, n, lines, info):
    """one caller-owned rule_sequence / rule_params pair (and one instance / profile) reused for several comparisons that
    differ in kind, comparison measure and initial allocation"""
    rng = ctx.rng
    for _ in range(n):
        if ctx.budget_s is not None and ctx.elapsed() > ctx.budget_s:
            break
        case, cfg = gen(ctx)
        steps = []
        for _j in range(rng.choice([2, 2, 3, 4])):
            st = {"kind": rng.choice(["welfare", "popularity"]), "sat": rng.choice(cmp_sats(case.btype))}
            st.update(gen_init_cfg(rng, case, p_none=0.4))
            steps.append(st)
        if all((st.get("init") or []) == (steps[0].get("init") or []) for st in steps) and case.projects:
            # at least two different initial allocations in the history
            steps[rng.randrange(len(steps))].update(gen_init_cfg(rng, case, p_none=0.0) if not steps[0].get("init") else {"init": None})
        cfg = dict({k: v for k, v in cfg.items() if k not in ("kind", "sat", "init", "init_form")}, steps=steps)
        vs, trace = run_reuse(case, cfg)
        ctx.evaluations += len(trace)
        ctx.count("stream", "reuse_history", len(trace))
        ctx.count("reuse_history_length", str(len(steps)))
        for c_j, built, got, outcomes in trace:
            ctx.count("reuse_history_init", init_label(c_j))
            if lines is not None and outcomes is not None:
                lines.append(model_line(case, c_j, built, outcomes))
                info.append(("ok " + "|".join(",".join(str(i) for i in sorted(o)) for o in got), case, c_j))
        if len({tuple(map(tuple, t[3])) for t in trace if t[3] is not None}) >= 2:
            ctx.count("reuse_history_outcomes_differ_between_calls")
        ctx.violations.extend(vs)


def run_reuse(case, cfg):
    """cfg["steps"]: the calls of the history; returns (violations, trace)"""
    built = rules.Built(case, multi=cfg["multi"])
    fs, ps = build_rules(case, cfg, built)
    base = {k: v for k, v in cfg.items() if k not in ("steps", "failing_step")}
    trace = []
    for j, st in enumerate(cfg["steps"]):
        c_j = dict(base, **st)
        got, outcomes, vs = judge(case, c_j, built, fs, ps)
        trace.append((c_j, built, got, outcomes))
        if vs:
            out = []
            for v in vs[:1]:
                v = dict(v, cfg=ruleprops.cfg_json(dict(cfg, failing_step=j)))
                v["what"] = f"call {j + 1} of a history reusing the caller's rule_sequence / rule_params objects: " + v["what"]
                v["sig"] = dict(v["sig"], history="reuse")
                out.append(v)
            return out, trace
    return [], trace


def history_stream(ctx, n):
    """the same comparison on one long-lived profile object before and after a voter's ballot is replaced in place"""
    import pabutools.rules as R

    rng = ctx.rng
    for _ in range(n):
        case, cfg = gen(ctx)
        if len(case.ballots) < 2 or cfg["multi"]:
            continue
        names = [nm for nm, _ in case.projects]
        i = rng.randrange(len(case.ballots))
        newb = core.gen_ballots(rng, case.btype, names, 1, 1)[0]
        edited = list(case.ballots)
        edited[i] = newb
        case2 = Case(case.projects, case.budget, case.btype, edited, case.seed)
        built = rules.Built(case, multi=False)
        fresh = rules.Built(case2, multi=False)
        tie = core.tie_rule(cfg["tie"], case, built.projs)
        fn = R.social_welfare_comparison if cfg["kind"] == "welfare" else R.popularity_comparison

        def call(b):
            fs, ps = [], []
            for spec in cfg["rules"]:
                f, kw = rule_callable(spec, case, b, core.tie_rule(cfg["tie"], case, b.projs))
                fs.append(f)
                ps.append(kw)
            return [[case.rank[p.name] for p in o] for o in fn(b.inst, b.prof, core.sat_class(cfg["sat"]), fs, ps)]

        try:
            call(built)
            built.prof[i] = fresh.prof[i]
            second = call(built)
            want = call(fresh)
        except Exception as e:  # noqa: BLE001
            ctx.violations.append(violation(f"comparison raised {e!r} in an edit history", case2, cfg, sig={"kind": cfg["kind"], "history": True, "err": core.err_enum(e)}))
            continue
        ctx.evaluations += 1
        ctx.count("history", cfg["kind"])
        if sorted(map(sorted, second)) != sorted(map(sorted, want)):
            ctx.violations.append(violation("comparison on a profile edited in place differs from the comparison on a freshly built profile with the same ballots",
                                            case2, dict(cfg, edited_voter=i), impl=second, expected=want, sig={"kind": cfg["kind"], "history": True}))


def search(ctx, disagreements):
    run(ctx, n=8000, compare=False)


def replay(payload):
    case = Case.from_json(payload["case"])
    if payload["cfg"].get("steps"):
        vs, _ = run_reuse(case, payload["cfg"])
        if vs:
            return False, "still fails: " + vs[0]["what"]
        return True, "property holds on every call of the replayed history"
    built, got, outcomes, vs = check(case, payload["cfg"])
    if vs:
        return False, "still fails: " + vs[0]["what"]
    return True, "property holds on the replayed input"
