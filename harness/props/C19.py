"""C19 — rule comparison returns exactly the best outcomes among the compared rules."""
from __future__ import annotations

import json
from fractions import Fraction as F

from .. import core, oracle, rulegen, rules, ruleprops
from ..core import Case, toF
from ..ruleprops import violation

RULE = ("seeded elections x pairs/triples of rules drawn from {greedy x measure, Equal Shares x measure, Phragmen, welfare maximiser} (repeats "
        "allowed, so identical outcomes occur) x comparison measure in all shipped measures of the ballot type x Profile/MultiProfile; "
        "predicate = both arg-max sets recomputed with independent satisfaction arithmetic on the rules' own outcomes; diffed with the "
        "Lean comparison model; non-trivial = at least 2 distinct outcomes compared")
ASSUMPTIONS = ["outcomes are de-duplicated by list equality as the library does; verdicts compared as lists of sets"]


def rule_callable(spec, case, built, tie):
    import pabutools.rules as R

    if spec.startswith("mes:"):
        return R.method_of_equal_shares, {"sat_class": core.sat_class(spec[4:]), "tie_breaking": tie}
    if spec.startswith("greedy:"):
        return R.greedy_utilitarian_welfare, {"sat_class": core.sat_class(spec[7:]), "tie_breaking": tie}
    if spec.startswith("maxw:"):
        return R.max_additive_utilitarian_welfare, {"sat_class": core.sat_class(spec[5:])}
    return R.sequential_phragmen, {"tie_breaking": tie}


def gen(ctx):
    rng = ctx.rng
    case = core.gen_election(rng, btypes=("app", "app", "app", "card", "ord"), m_lo=1, m_hi=6)
    if case.btype == "card" and rng.random() < 0.4:
        # cardinal ballots with negative scores: a voter can dislike every compared outcome (and still has a least disliked one)
        case = Case(case.projects, case.budget, "card", [{k: (F(-rng.randint(1, 4)) if rng.random() < 0.5 else v) for k, v in b.items()} for b in case.ballots], case.seed)
    bt = case.btype
    add = list(core.SAT_BY_TYPE[bt])
    specs = []
    for s in add:
        specs += ["greedy:" + s, "mes:" + s, "maxw:" + s]
    for s in core.SAT_NONADD[bt]:
        if s == "CC_Sat":
            specs.append("greedy:" + s)
    if bt == "app":
        specs.append("phragmen")
    if bt == "card" and any(v < 0 for b in case.ballots for v in b.values()):
        # the compared RULES are run with a measure that ignores the scores' sign problem (Chamberlin-Courant / cost); the
        # comparison measure below may be the signed additive one
        specs = ["greedy:CC_Sat", "greedy:Cost_Sat", "greedy:Cardinality_Sat"]
    k = rng.choice([2, 2, 3])
    seq = [rng.choice(specs) for _ in range(k)]
    if rng.random() < 0.25:
        seq.append(seq[0])
    cmp_sat = rng.choice(add + [s for s in core.SAT_NONADD[bt] if s == "CC_Sat"])
    cfg = {"kind": rng.choice(["welfare", "popularity"]), "rules": seq, "sat": cmp_sat, "multi": rng.random() < 0.5,
           "tie": rng.choice(["lexico", "min_cost", "max_cost"])}
    return case, cfg


def check(case, cfg):
    import pabutools.rules as R

    built = rules.Built(case, multi=cfg["multi"])
    tie = core.tie_rule(cfg["tie"], case, built.projs)
    fs, ps = [], []
    for spec in cfg["rules"]:
        f, kw = rule_callable(spec, case, built, tie)
        fs.append(f)
        ps.append(kw)
    sig = {"kind": cfg["kind"], "sat": cfg["sat"]}
    fn = R.social_welfare_comparison if cfg["kind"] == "welfare" else R.popularity_comparison
    try:
        out = fn(built.inst, built.prof, core.sat_class(cfg["sat"]), fs, ps)
        singles = [f(built.inst, built.prof, **kw) for f, kw in zip(fs, ps)]
    except Exception as e:  # noqa: BLE001
        return built, None, None, [violation(f"comparison raised {e!r}", case, cfg, sig=dict(sig, err=core.err_enum(e)))]
    vs = []
    got = [[case.rank[p.name] for p in o] for o in out]
    outcomes = [[case.rank[p.name] for p in o] for o in singles]
    # outcomes are allocations (sets of projects): the same projects in another order are the same outcome
    distinct = []
    for o in outcomes:
        if all(set(o) != set(d) for d in distinct):
            distinct.append(o)
    # every returned allocation is the unmodified outcome of one of the rules
    for g in got:
        if g not in outcomes:
            vs.append(violation("a returned allocation is not the outcome of any compared rule", case, cfg, impl=g, expected=distinct, sig=dict(sig, clause="subset")))
    names = case.names

    def sat_v(b, ids):
        return oracle.sat_set(cfg["sat"], case, b, [names[i] for i in ids])

    if cfg["kind"] == "welfare":
        w = [sum((sat_v(b, o) for b in case.ballots), F(0)) for o in distinct]
        mx = max(w)
        exp = [o for o, x in zip(distinct, w) if x == mx]
    else:
        sup = [0] * len(distinct)
        for b in case.ballots:
            s = [sat_v(b, o) for o in distinct]
            m = max(s)
            for i, x in enumerate(s):
                if x == m:
                    sup[i] += 1
        mx = max(sup)
        exp = [o for o, x in zip(distinct, sup) if x == mx]
    if sorted(map(sorted, got)) != sorted(map(sorted, exp)) or len(got) != len(exp):
        vs.append(violation("comparison does not return exactly the best distinct outcomes", case, cfg, impl=got, expected=exp, sig=dict(sig, clause="argmax")))
    return built, got, outcomes, vs


def run(ctx, n=None, compare=True):
    ctx.rule = RULE
    n = n or ctx.scale(4000, 20000)
    lines, info = [], []
    for _ in range(n):
        if ctx.budget_s is not None and ctx.elapsed() > ctx.budget_s:
            break
        case, cfg = gen(ctx)
        built, got, outcomes, vs = check(case, cfg)
        ctx.evaluations += 1
        ctx.count("kind", cfg["kind"])
        ctx.count("cmp_sat", cfg["sat"])
        ctx.count("multi", str(cfg["multi"]))
        ctx.violations.extend(vs)
        if outcomes is not None:
            nd = len({tuple(o) for o in outcomes})
            ctx.count("distinct_outcomes", str(nd))
            if nd >= 2:
                ctx.nontrivial.add(case.key() + json.dumps(cfg, sort_keys=True))
            if compare:
                rtok = "|".join(".".join(str(i) for i in sorted(o)) for o in outcomes)
                c2 = {"sat": cfg["sat"]}
                stok = rules.sat_tokens(built, c2, need_setfn=True)
                line = f"compose kind={cfg['kind']} {case.enc_common(built.entries(), built.enum())} R={rtok} {stok}"
                lines.append(line)
                info.append(("ok " + "|".join(",".join(str(i) for i in sorted(o)) for o in got), case, cfg))
    history_stream(ctx, ctx.scale(400, 3000))
    if compare and lines:
        res = core.run_driver(lines)
        for line, o, (impl_s, case, cfg) in zip(lines, res, info):
            if o.strip() != impl_s.strip():
                ctx.disagreements.append({"line": line, "impl": impl_s, "model": o.strip(), "case": case.to_json(), "cfg": cfg})
            ctx.sample(f"{line} -> impl: {impl_s} | model: {o.strip()}", cap=5)


def history_stream(ctx, n):
    """the same comparison on one long-lived profile object before and after a voter's ballot is replaced in place"""
    import pabutools.rules as R

    rng = ctx.rng
    for _ in range(n):
        case, cfg = gen(ctx)
        if len(case.ballots) < 2 or cfg["multi"]:
            continue
        names = [nm for nm, _ in case.projects]
        i = rng.randrange(len(case.ballots))
        newb = core.gen_ballots(rng, case.btype, names, 1, 1)[0]
        edited = list(case.ballots)
        edited[i] = newb
        case2 = Case(case.projects, case.budget, case.btype, edited, case.seed)
        built = rules.Built(case, multi=False)
        fresh = rules.Built(case2, multi=False)
        tie = core.tie_rule(cfg["tie"], case, built.projs)
        fn = R.social_welfare_comparison if cfg["kind"] == "welfare" else R.popularity_comparison

        def call(b):
            fs, ps = [], []
            for spec in cfg["rules"]:
                f, kw = rule_callable(spec, case, b, core.tie_rule(cfg["tie"], case, b.projs))
                fs.append(f)
                ps.append(kw)
            return [[case.rank[p.name] for p in o] for o in fn(b.inst, b.prof, core.sat_class(cfg["sat"]), fs, ps)]

        try:
            call(built)
            built.prof[i] = fresh.prof[i]
            second = call(built)
            want = call(fresh)
        except Exception as e:  # noqa: BLE001
            ctx.violations.append(violation(f"comparison raised {e!r} in an edit history", case2, cfg, sig={"kind": cfg["kind"], "history": True, "err": core.err_enum(e)}))
            continue
        ctx.evaluations += 1
        ctx.count("history", cfg["kind"])
        if sorted(map(sorted, second)) != sorted(map(sorted, want)):
            ctx.violations.append(violation("comparison on a profile edited in place differs from the comparison on a freshly built profile with the same ballots",
                                            case2, dict(cfg, edited_voter=i), impl=second, expected=want, sig={"kind": cfg["kind"], "history": True}))


def search(ctx, disagreements):
    run(ctx, n=8000, compare=False)


def replay(payload):
    case = Case.from_json(payload["case"])
    built, got, outcomes, vs = check(case, payload["cfg"])
    if vs:
        return False, "still fails: " + vs[0]["what"]
    return True, "property holds on the replayed input"
