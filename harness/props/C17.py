"""C17 — election containers keep their type, metadata and ballot validation.

Random operation sequences (length <= 6) over the builtin-container API of the real classes.  The API is discovered
by introspection (`dir(builtin base)`) and classified by the hand-written tables below (deriving / in-place /
mutating / query / object protocol); names that the tables do not know are reported in the evidence
(`unclassified_api`) and fail the run, so the tables cannot silently lag behind a Python upgrade.

After every step: `type(result) is type(source)`, attribute-by-attribute equality (deep structural snapshot of
every instance attribute) with the source object, and for a profile with validation enabled: every ballot is an
instance of its `ballot_type` (a mutator may raise TypeError instead - that is correct behaviour).
The same sequences are sent to the Lean table model (`ops` command: regenerated `Gen.Containers` rows) which
predicts for every step whether type and attributes survive.
"""
from __future__ import annotations

import copy
import json
import pickle
import random
from collections import Counter

from .. import core
from ..snapshot import attrs_snapshot, brief, diff

RULE = (
    "per class (20 classes) a fresh source object with non-default election attributes, then <=6 random operations from the "
    "builtin base API (deriving, in-place, mutating) + copy.copy / copy.deepcopy / pickle / construction from the object / "
    "frozen() / as_multiprofile(); operands: plain builtins, objects of the same class with other attributes, wrong-typed "
    "ballots; non-trivial = >=1 deriving and >=1 mutating step executed (frozen classes: >=2 deriving); distinct by "
    "(class, op-name sequence, operand kinds); second stream 'validation histories': <=4 profiles / multiprofiles per history created with "
    "default / explicit / permissive (abstract, base) / restrictive (subclass) / unrelated ballot_type arguments and validation on/off, "
    "interleaved inserting operations (append, insert, extend, +=, |=, update, setdefault, item assignment, constructor initialiser) "
    "offering ballots of 4 kinds x mutable/frozen x plain/subclass; all histories of a run executed in order in one fresh process; "
    "each step judged against the ballot_type its own profile was created with; third stream 'derivation histories': the same "
    "histories with, besides the inserting operations, derivations of a new object from a profile of the history (copy.copy, "
    "copy.deepcopy, pickle protocols 2-5, .copy(), construction from the object, slicing, list operators + * with lists / a profile of "
    "the same class with other attributes / itself, Counter operators + - | & unary +): the derivation must succeed and give the same "
    "class with the same attributes (ballot_type, ballot_validation, instance, legal limits) and no ballot outside the profile's own "
    "ballot_type; the derived object joins the history (later insertions and derivations apply to it); in the main stream 35 % of the "
    "source profiles / multiprofiles are created with the abstract ballot class of their kind as ballot_type and, list profiles, hold "
    "frozen and mutable ballots side by side"
)
ASSUMPTIONS = [
    "source = the object whose method is invoked (methods are called by name: x.__or__(y), x.__getitem__(slice), ...)",
    "frozen ballots are never mutated in a sequence (only deriving operations, copy/pickle/construction are applied to them)",
    "election attributes = all instance attributes (vars(obj)); equality = deep structural snapshot equality",
]
TRUSTED = ["CPython copy/pickle protocols (modelled as table entries, validated here)"]

# ----------------------------------------------------------------------------------------------
# hand-written classification of the builtin APIs

PROTOCOL = {
    "__class__", "__class_getitem__", "__delattr__", "__dir__", "__doc__", "__format__", "__getattribute__", "__getstate__",
    "__init__", "__init_subclass__", "__new__", "__reduce__", "__reduce_ex__", "__repr__", "__setattr__", "__sizeof__", "__str__",
    "__subclasshook__", "__hash__", "__eq__", "__ne__", "__lt__", "__le__", "__gt__", "__ge__", "__module__", "__dict__", "__weakref__",
    "__getnewargs__",
}  # fmt: skip
API = {
    "set": {
        "deriving": ["__and__", "__or__", "__sub__", "__xor__", "__rand__", "__ror__", "__rsub__", "__rxor__", "copy", "difference", "intersection", "symmetric_difference", "union"],
        "inplace": ["__iand__", "__ior__", "__isub__", "__ixor__"],
        "mutating": ["add", "clear", "discard", "pop", "remove", "update", "difference_update", "intersection_update", "symmetric_difference_update"],
        "query": ["__contains__", "__iter__", "__len__", "isdisjoint", "issubset", "issuperset"],
    },
    "list": {
        "deriving": ["__add__", "__mul__", "__rmul__", "copy", "__getitem__"],
        "inplace": ["__iadd__", "__imul__"],
        "mutating": ["append", "clear", "extend", "insert", "pop", "remove", "reverse", "sort", "__setitem__", "__delitem__"],
        "query": ["__contains__", "__iter__", "__len__", "__reversed__", "count", "index"],
    },
    "dict": {
        "deriving": ["__or__", "__ror__", "copy"],
        "inplace": ["__ior__"],
        "mutating": ["clear", "pop", "popitem", "setdefault", "update", "__setitem__", "__delitem__"],
        "query": ["__contains__", "__iter__", "__len__", "__reversed__", "__getitem__", "get", "items", "keys", "values"],
        "classmethod": ["fromkeys"],
    },
    "Counter": {
        "deriving": ["__add__", "__sub__", "__and__", "__or__", "__ror__", "__pos__", "__neg__", "copy"],
        "inplace": ["__iadd__", "__isub__", "__iand__", "__ior__"],
        "mutating": ["clear", "pop", "popitem", "setdefault", "update", "subtract", "__setitem__", "__delitem__"],
        "query": ["__contains__", "__iter__", "__len__", "__reversed__", "__getitem__", "__missing__", "get", "items", "keys", "values", "elements", "most_common", "total", "_keep_positive"],
        "classmethod": ["fromkeys"],
    },
    "tuple": {
        "deriving": ["__add__", "__mul__", "__rmul__", "__getitem__"],
        "inplace": [],
        "mutating": [],
        "query": ["__contains__", "__iter__", "__len__", "count", "index"],
    },
}
GENERIC = ["copy.copy", "copy.deepcopy", "pickle", "construct"]

CLASS_NAMES = [
    "Instance", "ApprovalBallot", "CardinalBallot", "CumulativeBallot", "OrdinalBallot",
    "FrozenApprovalBallot", "FrozenCardinalBallot", "FrozenCumulativeBallot", "FrozenOrdinalBallot",
    "ApprovalProfile", "CardinalProfile", "CumulativeProfile", "OrdinalProfile",
    "ApprovalMultiProfile", "CardinalMultiProfile", "CumulativeMultiProfile", "OrdinalMultiProfile",
    "SatisfactionProfile", "SatisfactionMultiProfile", "BudgetAllocation",
]  # fmt: skip
FROZEN = {"FrozenApprovalBallot", "FrozenCardinalBallot", "FrozenCumulativeBallot", "FrozenOrdinalBallot"}
BALLOTS = {"ApprovalBallot", "CardinalBallot", "CumulativeBallot", "OrdinalBallot"} | FROZEN
LIST_PROFILES = {"ApprovalProfile", "CardinalProfile", "CumulativeProfile", "OrdinalProfile"}
MULTI_PROFILES = {"ApprovalMultiProfile", "CardinalMultiProfile", "CumulativeMultiProfile", "OrdinalMultiProfile"}
KIND = {"Approval": "app", "Cardinal": "card", "Cumulative": "cum", "Ordinal": "ord"}


def get_class(name):
    import pabutools.election as e
    from pabutools.rules.budgetallocation import BudgetAllocation

    return BudgetAllocation if name == "BudgetAllocation" else getattr(e, name)


def base_of(cls):
    for b in cls.__mro__:
        if b in (set, list, Counter, tuple):
            return b.__name__
        if b is dict:
            return "dict"
    raise ValueError(cls)


def discover(name):
    """(base name, {category: [names]}, unclassified names) for one class, by introspection of the real class"""
    cls = get_class(name)
    base = base_of(cls)
    builtin = {"set": set, "list": list, "dict": dict, "Counter": Counter, "tuple": tuple}[base]
    table = API[base]
    known = set(PROTOCOL)
    for v in table.values():
        known |= set(v)
    unknown = sorted(n for n in dir(builtin) if n not in known)
    missing = sorted(n for cat in ("deriving", "inplace", "mutating") for n in table[cat] if not hasattr(cls, n))
    return base, table, unknown, missing


# ----------------------------------------------------------------------------------------------
# fixtures


class EqDetails:
    """comparable, picklable stand-in for allocation details"""

    def __init__(self, tag):
        self.tag = tag

    def __eq__(self, other):
        return isinstance(other, EqDetails) and other.tag == self.tag

    def __hash__(self):
        return hash(self.tag)


class World:
    """projects, instances and ballot factories shared by one sequence"""

    def __init__(self, rng: random.Random):
        import pabutools.election as e

        self.e = e
        self.rng = rng
        # second generator, a function of the first one's seed state that does not advance it: decisions added to the fixtures later
        # draw from it, so that the operation sequences of the existing stream stay what they were
        self.aux = random.Random(repr(rng.getstate()[1][:8]))
        self.projects = [e.Project("p%d" % i, rng.choice([1, 2, 3, 5])) for i in range(8)]
        self.inst = self.instance(0)
        self.inst2 = self.instance(1)

    def instance(self, variant):
        e = self.e
        ps = self.projects[:6] if variant == 0 else self.projects[2:]
        return e.Instance(
            ps,
            budget_limit=7 + variant,
            categories={"cat%d" % variant, "c"},
            targets={"t%d" % variant},
            file_path="path%d" % variant,
            file_name="file%d" % variant,
            parsing_errors=True,
            meta={"key": "value%d" % variant},
            project_meta={self.projects[2]: {"pm": str(variant)}},
        )

    def some_projects(self, lo=0):
        k = self.rng.randint(lo, 5)
        return self.rng.sample(self.projects, k)

    def ballot(self, kind, frozen=False, tag=None):
        e, rng = self.e, self.rng
        tag = rng.randint(0, 99) if tag is None else tag
        name, meta = "voter%d" % tag, {"district": "d%d" % tag, "n": tag}
        ps = self.some_projects(1)
        if kind == "app":
            b = e.ApprovalBallot(ps, name=name, meta=meta)
        elif kind == "card":
            b = e.CardinalBallot({p: rng.randint(0, 4) for p in ps}, name=name, meta=meta)
        elif kind == "cum":
            b = e.CumulativeBallot({p: rng.randint(0, 4) for p in ps}, name=name, meta=meta)
        else:
            b = e.OrdinalBallot(ps, name=name, meta=meta)
        self.last_given = (name, meta)
        return b.frozen() if frozen else b

    def wrong_ballot(self, kind, frozen=False):
        other = {"app": "card", "card": "app", "cum": "ord", "ord": "cum"}[kind]
        return self.ballot(other, frozen)


def kind_of(name):
    for k, v in KIND.items():
        if k in name:
            return v
    return None


PROFILE_KW = {
    "app": dict(legal_min_length=1, legal_max_length=6, legal_min_cost=2, legal_max_cost=30),
    "card": dict(legal_min_length=1, legal_max_length=6, legal_min_score=0, legal_max_score=9),
    "cum": dict(legal_min_length=1, legal_max_length=6, legal_min_score=0, legal_max_score=9, legal_min_total_score=1, legal_max_total_score=40),
    "ord": dict(legal_min_length=1, legal_max_length=7),
}
SAT_FOR = {"app": "Cost_Sat", "card": "Additive_Cardinal_Sat", "cum": "Additive_Cardinal_Sat", "ord": "Additive_Borda_Sat"}


def make(w: World, name, variant=0):
    """a source object of class `name` with non-default attributes; variant 1 = other attribute values"""
    e, rng = w.e, w.rng
    cls = get_class(name)
    inst = w.inst if variant == 0 else w.inst2
    kind = kind_of(name)
    if name == "Instance":
        return w.instance(variant)
    if name in BALLOTS:
        return w.ballot(kind, frozen=name in FROZEN, tag=None if variant == 0 else 100 + rng.randint(0, 9))
    if name in LIST_PROFILES or name in MULTI_PROFILES:
        kw = dict(PROFILE_KW[kind])
        if variant:
            kw = {k: v + 1 for k, v in kw.items()}
        frozen = name in MULTI_PROFILES
        # a third of the source profiles is created with a ballot_type other than the class default (the abstract class of the kind:
        # the ballots offered by `element` stay right, those of `wrong_ballot` stay wrong); a list profile then holds frozen and
        # mutable ballots side by side
        abstract = variant == 0 and w.aux.random() < 0.35
        if abstract:
            kw["ballot_type"] = getattr(e, "Abstract" + {v: k for k, v in KIND.items()}[kind] + "Ballot")
        bs = [w.ballot(kind, frozen or (abstract and w.aux.random() < 0.5)) for _ in range(rng.randint(0, 4))]
        if bs and rng.random() < 0.5:
            bs.append(bs[0])
        validation = rng.random() < (0.85 if variant == 0 else 0.5)
        return cls(bs, instance=inst, ballot_validation=validation, **kw)
    if name in ("SatisfactionProfile", "SatisfactionMultiProfile"):
        k = rng.choice(["app", "card", "ord"])
        pk = {"app": e.ApprovalProfile, "card": e.CardinalProfile, "ord": e.OrdinalProfile}[k]
        prof = pk([w.ballot(k) for _ in range(rng.randint(1, 4))], instance=inst)
        sc = getattr(e, SAT_FOR[k])
        w.sat_ctx = (prof, sc, k)
        if name == "SatisfactionProfile":
            return e.SatisfactionProfile(instance=inst, profile=prof, sat_class=sc)
        if rng.random() < 0.5:
            return e.SatisfactionMultiProfile(instance=inst, profile=prof, sat_class=sc)
        return e.SatisfactionMultiProfile(instance=inst, multiprofile=prof.as_multiprofile(), sat_class=sc)
    if name == "BudgetAllocation":
        return cls(w.some_projects(), details=EqDetails("details%d" % variant))
    raise ValueError(name)


def element(w: World, name, cur, wrong=False, present=False):
    """an element for container `cur` (a member if `present`)"""
    rng = w.rng
    if present and len(cur):
        return rng.choice(list(cur))
    kind = kind_of(name)
    if name in ("Instance", "BudgetAllocation", "ApprovalBallot", "OrdinalBallot", "FrozenApprovalBallot", "FrozenOrdinalBallot"):
        return rng.choice(w.projects)
    if name in ("CardinalBallot", "CumulativeBallot", "FrozenCardinalBallot", "FrozenCumulativeBallot"):
        return rng.choice(w.projects)
    if name in LIST_PROFILES:
        return w.wrong_ballot(kind) if wrong else w.ballot(kind)
    if name in MULTI_PROFILES:
        return w.wrong_ballot(kind, True) if wrong else w.ballot(kind, True)
    if name in ("SatisfactionProfile", "SatisfactionMultiProfile"):
        prof, sc, k = w.sat_ctx
        b = w.ballot(k, frozen=name == "SatisfactionMultiProfile")
        return sc(cur.instance, prof, b)
    raise ValueError(name)


def plain_other(w: World, name, cur, base, wrong=False, same_class=False):
    """right-hand operand: plain builtin of the base kind, or an object of the same class with other attributes"""
    rng = w.rng
    if same_class:
        keep = getattr(w, "sat_ctx", None)
        o = make(w, name, variant=1)
        if keep is not None:
            w.sat_ctx = keep
        return o
    n = rng.randint(0, 3)
    elems = [element(w, name, cur, wrong=wrong and i == 0) for i in range(n)]
    if wrong and not elems:
        elems = [element(w, name, cur, wrong=True)]
    if rng.random() < 0.5 and len(cur):
        elems.append(element(w, name, cur, present=True))
    if base == "list" and wrong and hasattr(cur, "ballot_validation") and rng.random() < 0.45:
        # the wrong-typed ballot arrives inside a DONOR PROFILE of the same class whose own validation is off
        # (or was switched off while it was filled and back on afterwards)
        try:
            donor = type(cur)([], instance=getattr(cur, "instance", None), ballot_validation=False)
            donor.extend(elems)
            if rng.random() < 0.5:
                donor.ballot_validation = True
            return donor
        except Exception:  # noqa: BLE001 - fall back to a plain list
            pass
    if base == "set":
        return set(elems)
    if base == "list":
        return list(elems)
    if base == "tuple":
        return tuple(elems)
    if base == "dict":
        if name == "OrdinalBallot":
            return {x: None for x in elems}
        return {x: rng.randint(0, 4) for x in elems}
    return Counter({x: rng.randint(1, 3) for x in elems})


# ----------------------------------------------------------------------------------------------
# operations


def gen_op(w: World, name, base, table, cur, validated):
    """(op name, category, operand kind, thunk) for the current object"""
    rng = w.rng
    frozen = name in FROZEN
    cats = ["deriving", "generic"] if frozen else ["deriving", "inplace", "mutating", "generic"]
    weights = {"deriving": 4, "inplace": 2, "mutating": 4, "generic": 3}
    if name in BALLOTS or name in LIST_PROFILES:
        cats.append("convert")
        weights["convert"] = 1
    cat = rng.choices(cats, [weights[c] for c in cats])[0]
    wrong = validated and rng.random() < 0.35
    same = rng.random() < 0.3 and not wrong
    okind = "wrong" if wrong else ("same_class" if same else "plain")
    if cat == "generic":
        op = rng.choice(GENERIC)
        if op == "copy.copy":
            return op, cat, "-", lambda: copy.copy(cur)
        if op == "copy.deepcopy":
            return op, cat, "-", lambda: copy.deepcopy(cur)
        if op == "pickle":
            proto = rng.choice([2, 4, pickle.HIGHEST_PROTOCOL])
            return op, cat, "-", lambda: pickle.loads(pickle.dumps(cur, protocol=proto))
        return op, cat, "-", lambda: type(cur)(cur)
    if cat == "convert":
        if name in LIST_PROFILES:
            return "as_multiprofile", cat, "-", lambda: cur.as_multiprofile()
        import pabutools.election as _e

        u = rng.random()
        if u < 0.2:
            # construction from another ballot with ONE of the two identifying arguments given: the other one is inherited
            # (round 7, C17-r7B: a shared helper that inherits only when neither keyword is given)
            return "construct_name_only", cat, "-", lambda: type(cur)(cur, name="renamed")
        if u < 0.4:
            return "construct_meta_only", cat, "-", lambda: type(cur)(cur, meta={"given": 1})
        if name in FROZEN:
            # a mutable ballot constructed from the frozen one ("thawing")
            return "construct_mutable", cat, "-", lambda: getattr(_e, name[len("Frozen"):])(cur)
        if rng.random() < 0.4:
            return "construct_frozen", cat, "-", lambda: getattr(_e, "Frozen" + name)(cur)
        return "frozen", cat, "-", lambda: cur.frozen()
    names = table[cat]
    if not names:
        return gen_op(w, name, base, table, cur, validated)
    op = rng.choice(names)
    m = getattr(cur, op)
    other = lambda: plain_other(w, name, cur, base, wrong=wrong, same_class=same)  # noqa: E731
    if base == "set":
        if op in ("copy", "clear", "pop"):
            return op, cat, "-", lambda: m()
        if op in ("add",):
            x = element(w, name, cur)
            return op, cat, "plain", lambda: m(x)
        if op in ("discard", "remove"):
            x = element(w, name, cur, present=True)
            return op, cat, "plain", lambda: m(x)
        o = other()
        if op in ("union", "intersection", "difference", "symmetric_difference", "update", "difference_update", "intersection_update", "symmetric_difference_update") and rng.random() < 0.4:
            o = list(o)  # the named methods accept any iterable
        return op, cat, okind, lambda: m(o)
    if base in ("list", "tuple"):
        if op in ("copy", "clear", "reverse", "sort"):
            return op, cat, "-", lambda: m()
        if op in ("__mul__", "__rmul__", "__imul__"):
            k = rng.choice([0, 1, 2])
            return op, cat, "-", lambda: m(k)
        if op == "__getitem__":
            a, b, c = rng.choice([None, 0, 1, -1]), rng.choice([None, 1, 2, -1, 5]), rng.choice([None, 1, 2, -1])
            return op, cat, "slice", lambda: m(slice(a, b, c))
        if op in ("__add__", "__iadd__", "extend"):
            o = other()
            if hasattr(o, "ballot_validation") and wrong:
                pass  # a donor profile carrying the wrong-typed ballot is handed over as it is
            elif base == "tuple":
                o = tuple(o)
            elif op != "__add__" and rng.random() < 0.3:
                o = tuple(o)  # any iterable
            elif not same:
                o = list(o)
            return op, cat, okind, lambda: m(o)
        if op == "append":
            x = element(w, name, cur, wrong=wrong)
            return op, cat, "wrong" if wrong else "plain", lambda: m(x)
        if op == "insert":
            x = element(w, name, cur, wrong=wrong)
            i = rng.randint(0, len(cur))
            return op, cat, "wrong" if wrong else "plain", lambda: m(i, x)
        if op == "pop":
            return op, cat, "-", lambda: m()
        if op == "remove":
            x = element(w, name, cur, present=True)
            return op, cat, "plain", lambda: m(x)
        if op == "__setitem__":
            if rng.random() < 0.3:
                o = list(plain_other(w, name, cur, base, wrong=wrong))
                return op, cat, ("wrong" if wrong else "plain") + "_slice", lambda: m(slice(0, 1), o)
            x = element(w, name, cur, wrong=wrong)
            i = rng.randint(0, max(0, len(cur) - 1))
            return op, cat, "wrong" if wrong else "plain", lambda: m(i, x)
        if op == "__delitem__":
            i = rng.choice([0, -1, slice(0, 2)])
            return op, cat, "-", lambda: m(i)
    if base in ("dict", "Counter"):
        if op in ("copy", "clear", "popitem", "__pos__", "__neg__"):
            return op, cat, "-", lambda: m()
        if op in ("pop", "__delitem__"):
            x = element(w, name, cur, present=True)
            return op, cat, "plain", lambda: m(x)
        if op in ("setdefault", "__setitem__"):
            x = element(w, name, cur, wrong=wrong)
            v = None if name == "OrdinalBallot" else rng.randint(1, 3)
            return op, cat, "wrong" if wrong else "plain", lambda: m(x, v)
        o = other()
        if op in ("update", "subtract") and rng.random() < 0.4 and not same:
            if base == "Counter":
                o = list(o.elements()) if isinstance(o, Counter) else list(o)  # iterable of elements
            else:
                o = list(o.items())
        if op in ("__or__", "__ror__", "__ior__") and base == "Counter" and not isinstance(o, Counter):
            o = Counter(o)
        return op, cat, okind, lambda: m(o)
    raise ValueError((name, base, op))


OWN_MUTATORS = {"append": "elem", "extend": "list"}  # MultiProfile's own inserting methods


def gen_own_mutator(w, name, cur, validated):
    rng = w.rng
    wrong = validated and rng.random() < 0.4
    op = rng.choice(["append", "extend"])
    kind = kind_of(name)
    if op == "append":
        x = element(w, name, cur, wrong=wrong)
        return "append", "mutating", "wrong" if wrong else "plain", lambda: cur.append(x)
    xs = [w.ballot(kind, frozen=rng.random() < 0.5) for _ in range(rng.randint(0, 2))]
    if wrong:
        xs.append(w.wrong_ballot(kind, frozen=rng.random() < 0.5))
    return "extend", "mutating", "wrong" if wrong else "plain", lambda: cur.extend(xs)


# ----------------------------------------------------------------------------------------------
# one sequence

TOLERATED_MUTATOR_ERRORS = (KeyError, IndexError, ValueError)


def shared_attrs_ok(src_attrs, res, keys):
    ra = attrs_snapshot(res)
    for k in keys:
        if k in src_attrs:
            if k not in ra:
                return (k, src_attrs[k], "<absent>")
            d = diff(src_attrs[k], ra[k])
            if d:
                return (k,) + d[1:]
    return None


def run_sequence(w: World, name, length, record):
    """runs one op sequence on the real class; returns list of violations (dicts without case)"""
    base, table, _, _ = discover(name)
    viol = []
    cur = make(w, name)
    steps = []

    def v(op, check, what, impl=None, expected=None):
        viol.append({"what": f"{name}.{op}: {what}", "impl": impl, "expected": expected, "sig": {"call": f"{name}.{op}", "class": name, "op": op, "check": check}, "step": len(steps)})

    if name in BALLOTS:
        given_name, given_meta = w.last_given
        if cur.name != given_name or cur.meta != given_meta:
            v("__init__", "created", "ballot does not hold the name/meta it was created with", impl=[cur.name, repr(cur.meta)], expected=[given_name, given_meta])
            # give it the attributes anyway, so that the operations below are still tested for keeping them
            cur.name, cur.meta = given_name, dict(given_meta)
    n_der = n_mut = 0
    for _ in range(length):
        validated = bool(getattr(cur, "ballot_validation", False)) and hasattr(cur, "ballot_type")
        if name in MULTI_PROFILES and w.rng.random() < 0.15:
            op, cat, okind, thunk = gen_own_mutator(w, name, cur, validated)
        else:
            op, cat, okind, thunk = gen_op(w, name, base, table, cur, validated)
        before = attrs_snapshot(cur)
        keys_before = list(vars(cur).keys())
        raised = None
        res = None
        try:
            res = thunk()
        except Exception as ex:  # noqa: BLE001
            raised = ex
        step = {"op": op, "cat": cat, "operand": okind, "raised": type(raised).__name__ if raised else None}
        steps.append(step)
        record(name, op, cat, step["raised"])
        # the source object keeps its attributes whatever happened
        after = attrs_snapshot(cur)
        if list(vars(cur).keys()) != keys_before or diff(before, after):
            d = diff(before, after)
            v(op, "source_attrs", "operation changed the attributes of the object it was called on", impl=brief(d))
        if raised is not None:
            ok = False
            if isinstance(raised, TypeError) and okind.startswith("wrong"):
                ok = True  # validation rejected a wrong-typed ballot
            elif cat == "mutating" and isinstance(raised, TOLERATED_MUTATOR_ERRORS) and op in ("pop", "popitem", "remove", "__delitem__", "__setitem__"):
                ok = True  # empty container / missing element
            elif op == "sort" and isinstance(raised, (TypeError, NotImplementedError)):
                ok = True  # ballots are not ordered
            elif op == "__setitem__" and okind.endswith("_slice") and isinstance(raised, TypeError):
                ok = True  # slice assignment is validated as a whole and refused
            elif op in ("__mul__", "__rmul__", "__add__") and name == "FrozenOrdinalBallot" and isinstance(raised, ValueError):
                ok = True  # repeated projects are not a ranking
            if not ok:
                v(op, "raised", f"raised {type(raised).__name__}: {raised}", impl=repr(raised)[:200])
            step["tolerated"] = ok
        else:
            if res is NotImplemented:
                step["notimplemented"] = True
            elif cat in ("deriving", "inplace", "generic"):
                n_der += 1
                if type(res) is not type(cur):
                    v(op, "type", f"result is {type(res).__name__}, source is {type(cur).__name__}", impl=type(res).__name__, expected=type(cur).__name__)
                else:
                    ra = attrs_snapshot(res)
                    if set(ra) != set(before):
                        v(op, "attrs", "result has other attribute names", impl=sorted(ra), expected=sorted(before))
                    else:
                        d = diff(before, ra)
                        if d:
                            v(op, "attrs", f"attribute {d[0]} differs from the source", impl=brief(d[2]), expected=brief(d[1]))
                    cur = res
            elif cat == "convert":
                n_der += 1
                if op in ("construct_name_only", "construct_meta_only"):
                    want_name = "renamed" if op == "construct_name_only" else getattr(cur, "name", None)
                    want_meta = {"given": 1} if op == "construct_meta_only" else getattr(cur, "meta", None)
                    if getattr(res, "name", None) != want_name or dict(getattr(res, "meta", None) or {}) != dict(want_meta or {}):
                        v(op, "attrs", f"{name}(ballot, {'name=...' if op == 'construct_name_only' else 'meta=...'}): name {getattr(res, 'name', None)!r}, meta "
                                       f"{getattr(res, 'meta', None)!r}; the argument that is not given is the source's ({getattr(cur, 'name', None)!r}, {getattr(cur, 'meta', None)!r})",
                          impl=brief((getattr(res, "name", None), getattr(res, "meta", None))), expected=brief((want_name, want_meta)))
                    if type(res).__name__ != name:
                        v(op, "type", f"{op} returned {type(res).__name__}")
                elif op in ("frozen", "construct_frozen", "construct_mutable"):
                    bad = shared_attrs_ok(before, res, ["name", "meta"])
                    if bad:
                        v(op, "attrs", f"ballot constructed from another ballot lost {bad[0]}", impl=brief(bad[2]), expected=brief(bad[1]))
                    want = name[len("Frozen"):] if op == "construct_mutable" else "Frozen" + name
                    if not type(res).__name__ == want:
                        v(op, "type", f"{op} returned {type(res).__name__}")
                else:
                    keys = [k for k in before if k not in ("ballot_type",)]
                    bad = shared_attrs_ok(before, res, keys)
                    if bad:
                        v(op, "attrs", f"multiprofile lost {bad[0]}", impl=brief(bad[2]), expected=brief(bad[1]))
                    if type(res).__name__ != name.replace("Profile", "MultiProfile"):
                        v(op, "type", f"as_multiprofile() returned {type(res).__name__}")
            else:
                n_mut += 1
        # validated profile: no wrong-typed ballot inside
        if hasattr(cur, "ballot_type") and getattr(cur, "ballot_validation", False):
            badb = [type(b).__name__ for b in cur if not isinstance(b, cur.ballot_type)]
            if badb:
                v(op, "validation", f"validated profile contains {badb[0]} (expected {cur.ballot_type.__name__})", impl=badb, expected=cur.ballot_type.__name__)
                # remove the intruders so that later steps are judged on their own
                if isinstance(cur, list):
                    keep = [b for b in cur if isinstance(b, cur.ballot_type)]
                    list.clear(cur)
                    list.extend(cur, keep)
                else:
                    for b in [b for b in cur if not isinstance(b, cur.ballot_type)]:
                        dict.__delitem__(cur, b)
    nontriv = (n_der >= 2) if name in FROZEN else (n_der >= 1 and n_mut >= 1)
    return viol, steps, nontriv


# ----------------------------------------------------------------------------------------------
# validation histories: several profiles with their OWN `ballot_type` in one process
#
# Statement: "a profile with validation enabled never ends up containing a ballot of the wrong type, whichever mutating
# operation is used".  "Wrong" is relative to the profile's own `ballot_type` - a constructor argument whose default
# depends on the class.  One history = <=4 profiles / multiprofiles (mostly of one class) created with the default, the
# explicit default, a permissive (abstract / base class), a restrictive (a subclass only) or an unrelated ballot type,
# interleaved with inserting operations that offer ballots of all 4 kinds x mutable / frozen x plain / subclass.  The
# histories of one run are executed one after the other in ONE fresh worker process (whatever a profile leaves behind
# in the process - class attributes, module-level state - meets the later profiles); the judgement of every step uses
# only the spec of the profile it is applied to.  Pure data (JSON), so a stored violation replays in a fresh process.

V_KINDS = ["app", "card", "cum", "ord"]
V_CLS = {"app": "Approval", "card": "Cardinal", "cum": "Cumulative", "ord": "Ordinal"}
# ballot-type menu: name -> how the class is found (resolved in the worker)
V_BT_LIST = ["default", "default", "default", "own", "abstract_kind", "base", "abstract", "sub", "other_frozenness", "other_kind"]
V_LIST_OPS = ["append", "insert", "extend", "__iadd__", "__setitem__"]
V_MULTI_OPS = ["append", "extend", "update_list", "update_map", "setdefault", "__setitem__", "__iadd__", "__ior__"]


def _v_ballot_spec(r, bias_kind):
    kind = bias_kind if r.random() < 0.6 else r.choice(V_KINDS)
    return {"kind": kind, "frozen": r.random() < 0.5, "sub": r.random() < 0.2, "tag": r.randint(0, 5)}


# derivations named by the statement ("set/list/dict operators, slicing, copy, deep copy, pickling, construction from another
# object"), applied to the profiles of a history: the derived object is a further profile of the history (same specification), so
# later steps insert into it and derive from it again
V_LIST_DERIVE = ["copy.copy", "copy.deepcopy", "pickle", "copy", "construct", "slice", "__add__", "__mul__", "__rmul__", "__imul__"]
V_MULTI_DERIVE = ["copy.copy", "copy.deepcopy", "pickle", "copy", "construct", "__add__", "__sub__", "__or__", "__and__", "__pos__"]


def gen_vhistory(rng: random.Random, derive=False):
    sub = rng.getrandbits(48)
    r = random.Random(sub)
    kind = r.choice(V_KINDS)
    multi = r.random() < 0.5
    steps = []
    profiles = []  # (kind, multi)
    for k in range(r.randint(4, 14) if derive else r.randint(3, 12)):
        if derive and profiles and r.random() < 0.4:
            i = r.randrange(len(profiles))
            pk, pm = profiles[i]
            bs = [_v_ballot_spec(r, pk) for _ in range(r.randint(0, 2))]
            if pm:
                for b in bs:
                    b["frozen"] = True
            keep = len(profiles) < 8  # the derived object becomes profile number len(profiles) of the history
            steps.append({"op": "derive", "p": i, "how": r.choice(V_MULTI_DERIVE if pm else V_LIST_DERIVE), "ballots": bs, "arg": r.randint(0, 5), "as": r.choice(["plain", "same", "self"]), "keep": keep})
            if pm and bs and steps[-1]["how"] in ("__add__", "__sub__", "__or__", "__and__") and (sub + k) % 3 == 0:
                # (decided without a draw: the histories keep their seeds) the operand is a plain Counter that may hold ballots of ANY
                # type with positive, zero and NEGATIVE multiplicities - Counter arithmetic copies negative entries of the operand
                steps[-1]["as"] = "signed"
            if keep:
                profiles.append((pk, pm))
            continue
        if not profiles or (len(profiles) < 4 and r.random() < 0.3):
            pk, pm = (kind, multi) if r.random() < 0.8 else (r.choice(V_KINDS), r.random() < 0.5)
            bt = r.choice(V_BT_LIST)
            st = {"op": "new", "kind": pk, "multi": pm, "bt": bt, "validation": r.choice([None, None, True, True, True, False]),
                  "init": [_v_ballot_spec(r, pk) for _ in range(r.choice([0, 0, 1, 2]))]}
            if pm:
                for b in st["init"]:
                    b["frozen"] = True  # keys of a Counter
            profiles.append((pk, pm))
            steps.append(st)
            continue
        i = r.randrange(len(profiles))
        pk, pm = profiles[i]
        op = r.choice(V_MULTI_OPS if pm else V_LIST_OPS)
        single = op in ("append", "insert", "__setitem__", "setdefault")
        bs = [_v_ballot_spec(r, pk) for _ in range(1 if single else r.randint(0, 3))]
        if pm and op != "extend":
            for b in bs:
                b["frozen"] = True
        steps.append({"op": op, "p": i, "ballots": bs, "arg": r.randint(0, 3), "as": r.choice(["list", "tuple", "iter"])})
    h = {"seed": sub, "steps": steps}
    if derive:
        h["derive"] = True
    return h


def _vprofile_specs(h):
    """specification ("new" step) of every profile of the history, in the order in which the worker numbers them"""
    specs = []
    for s in h["steps"]:
        if s["op"] == "new":
            specs.append(s)
        elif s["op"] == "derive" and s["keep"]:
            specs.append(specs[s["p"]])
    return specs


def vhistory_nontrivial(h):
    """two validating profiles of one class with different ballot types are both offered a ballot of the same class; derivation
    histories: a validating profile created with a ballot_type argument other than the class default is derived from"""
    profs = _vprofile_specs(h)
    if h.get("derive"):
        return any(s["op"] == "derive" and profs[s["p"]]["validation"] is not False and profs[s["p"]]["bt"] not in ("default", "own") for s in h["steps"])
    offered = {}
    for s in h["steps"]:
        if s["op"] != "new":
            pr = profs[s["p"]]
            if pr["validation"] is not False:
                for b in s["ballots"]:
                    offered.setdefault((pr["kind"], pr["multi"], b["kind"], b["frozen"], b["sub"]), set()).add(pr["bt"])
    return any(len(v - {"own"}) >= 2 for v in offered.values())


class VWorld:
    """worker side: real classes, subclasses, ballots"""

    def __init__(self):
        import pabutools.election as e

        self.e = e
        self.projects = [e.Project("p%d" % i, 1 + i % 3) for i in range(6)]
        self.inst = e.Instance(self.projects, budget_limit=5)
        self.subs = {}

    def ballot_class(self, kind, frozen, sub=False):
        name = ("Frozen" if frozen else "") + V_CLS[kind] + "Ballot"
        cls = getattr(self.e, name)
        if not sub:
            return cls
        if name not in self.subs:
            import sys

            sub = type("Sub" + name, (cls,), {})
            setattr(sys.modules[sub.__module__], sub.__name__, sub)  # reachable by name: pickle stores classes by reference
            self.subs[name] = sub
        return self.subs[name]

    def ballot_type(self, kind, multi, bt):
        """(argument handed to the constructor or None, the type the profile must validate against)"""
        e = self.e
        default = self.ballot_class(kind, multi)
        other = {"app": "card", "card": "ord", "cum": "app", "ord": "cum"}[kind]
        t = {
            "default": None,
            "own": default,
            "abstract_kind": getattr(e, "Abstract" + V_CLS[kind] + "Ballot"),
            "base": e.FrozenBallot if multi else e.Ballot,
            "abstract": e.AbstractBallot,
            "sub": self.ballot_class(kind, multi, sub=True),
            "other_frozenness": self.ballot_class(kind, not multi),
            "other_kind": self.ballot_class(other, multi),
        }[bt]
        return t, (default if t is None else t)

    def ballot(self, spec):
        kind, tag = spec["kind"], spec["tag"]
        rr = random.Random(tag * 7 + V_KINDS.index(kind))
        ps = rr.sample(self.projects, rr.randint(1, 4))
        cls = self.ballot_class(kind, False, spec["sub"] and not spec["frozen"])
        if kind in ("app", "ord"):
            b = cls(ps, name="v%d" % tag, meta={"t": tag})
        else:
            b = cls({p: rr.randint(0, 3) for p in ps}, name="v%d" % tag, meta={"t": tag})
        if spec["frozen"]:
            b = self.ballot_class(kind, True, spec["sub"])(b)
        return b

    def profile_class(self, kind, multi):
        return getattr(self.e, V_CLS[kind] + ("MultiProfile" if multi else "Profile"))


def run_vhistory(w: VWorld, h):
    """-> (violations, counters) for one history on the real classes"""
    e = w.e
    viol, counts = [], []
    profs = []  # (object or None, spec, T)

    def v(k, call, check, what, impl=None, expected=None):
        viol.append({"what": what, "impl": impl, "expected": expected, "step": k, "sig": {"call": call, "check": check, "stream": "validation_history"}})

    for k, st in enumerate(h["steps"]):
        if st["op"] == "new":
            pcls = w.profile_class(st["kind"], st["multi"])
            arg, T = w.ballot_type(st["kind"], st["multi"], st["bt"])
            validated = st["validation"] is not False
            bs = [w.ballot(b) for b in st["init"]]
            kw = {"instance": w.inst}
            if arg is not None:
                kw["ballot_type"] = arg
            if st["validation"] is not None:
                kw["ballot_validation"] = st["validation"]
            call = pcls.__name__ + ".__init__"
            counts.append(("ballot_type_arg", st["bt"]))
            target, op, eff = None, "new", bs
            thunk = lambda: pcls(bs, **kw)  # noqa: E731
        elif st["op"] == "derive":
            target, spec, T = profs[st["p"]]
            if target is None:
                if st["keep"]:
                    profs.append((None, spec, T))
                continue
            run_vderive(w, k, st, target, spec, T, profs, v, counts)
            continue
        else:
            target, spec, T = profs[st["p"]]
            if target is None:
                continue  # its construction failed (reported there, or a rightly refused initialiser)
            validated = spec["validation"] is not False
            pcls = type(target)
            multi = spec["multi"]
            op = st["op"]
            if op == "__setitem__" and not multi and len(target) == 0:
                op = "append"
            bs = [w.ballot(b) for b in st["ballots"]]
            # MultiProfile.extend freezes the mutable ballots first (documented: force_freeze=True) and validates the result
            eff = [b.frozen() if (multi and op == "extend" and isinstance(b, e.Ballot)) else b for b in bs]
            cont = {"list": list, "tuple": tuple, "iter": iter}[st["as"]]
            n = st["arg"]
            call = pcls.__name__ + "." + op
            if op == "append":
                thunk = lambda: target.append(bs[0])  # noqa: E731
            elif op == "insert":
                thunk = lambda: target.insert(min(n, len(target)), bs[0])  # noqa: E731
            elif op == "setdefault":
                thunk = lambda: target.setdefault(bs[0], 1 + n)  # noqa: E731
            elif op == "__setitem__":
                thunk = (lambda: target.__setitem__(bs[0], 1 + n)) if multi else (lambda: target.__setitem__(n % len(target), bs[0]))  # noqa: E731
            elif op == "extend":
                thunk = lambda: target.extend(cont(bs))  # noqa: E731
            elif op == "__iadd__" and not multi:
                thunk = lambda: target.__iadd__(cont(bs))  # noqa: E731
            elif op == "update_list":
                thunk = lambda: target.update(cont(bs))  # noqa: E731
            elif op == "update_map":
                thunk = lambda: target.update({b: 1 + n for b in bs})  # noqa: E731
            else:  # Counter += / |=
                thunk = lambda: getattr(target, op)(Counter({b: 1 + n for b in bs}))  # noqa: E731
        wrong = [type(b).__name__ for b in eff if not isinstance(b, T)]
        counts.append(("v_op", op))
        raised = None
        res = None
        try:
            res = thunk()
        except Exception as ex:  # noqa: BLE001
            raised = ex
        if st["op"] == "new":
            profs.append((res if raised is None else None, st, T))
            target = res if raised is None else None
        if raised is not None:
            if isinstance(raised, TypeError) and validated and wrong:
                counts.append(("v_outcome", "wrong-typed ballot refused"))
            elif isinstance(raised, TypeError) and validated:
                v(k, call, "refused_own_type", f"{call} refused {[type(b).__name__ for b in eff]} although the profile's ballot_type is {T.__name__}: {raised}", impl=repr(raised)[:200], expected="accepted")
            else:
                v(k, call, "raised", f"{call} raised {type(raised).__name__}: {raised}", impl=repr(raised)[:200])
        else:
            counts.append(("v_outcome", "accepted" if not wrong else ("wrong-typed ballot accepted, validation off" if not validated else "wrong-typed ballot accepted")))
        if target is not None:
            if target.ballot_type is not T or bool(target.ballot_validation) != validated:
                v(k, call, "own_attrs", f"profile created with ballot_type {T.__name__}, validation {validated} now has {getattr(target.ballot_type, '__name__', target.ballot_type)}, {target.ballot_validation}")
                target.ballot_type, target.ballot_validation = T, validated
            if validated:
                bad = [b for b in target if not isinstance(b, T)]
                if bad:
                    v(k, call, "validation", f"validated {pcls.__name__} (ballot_type {T.__name__}) contains {type(bad[0]).__name__} after {op}", impl=[type(b).__name__ for b in bad], expected=T.__name__)
                    # remove the intruders so that later steps are judged on their own
                    if isinstance(target, list):
                        keep = [b for b in target if isinstance(b, T)]
                        list.clear(target)
                        list.extend(target, keep)
                    else:
                        for b in bad:
                            dict.__delitem__(target, b)
    return viol, counts


def run_vderive(w: VWorld, k, st, target, spec, T, profs, v, counts):
    """one derivation of a new object from profile `target` (created with ballot type T): it must succeed, give an object of the
    same class with the same election attributes - ballot_type and ballot_validation among them - and, validation on, hold no
    ballot outside T.  Operands of the operators hold ballots of T only when the profile validates (anything else may rightly be
    refused; that is the business of the inserting steps)."""
    e = w.e
    validated = spec["validation"] is not False
    multi = spec["multi"]
    how, n = st["how"], st["arg"]
    pcls = type(target)
    call = pcls.__name__ + "." + how
    bs = [w.ballot(b) for b in st["ballots"]]
    wrong_operand = False
    if st["as"] == "signed":
        signed = Counter({b: [-1, 2, -2, 0, 1, -1][(n + j) % 6] for j, b in enumerate(bs)})
        wrong_operand = validated and any(not isinstance(b, T) for b in signed)
    if validated:
        bs = [b for b in bs if isinstance(b, T)]
    if st["as"] == "signed":
        other = signed
    elif st["as"] == "self":
        other = target
    elif st["as"] == "same":
        # an object of the same class with its own attributes: validation off, default ballot type, no instance
        other = pcls(bs, ballot_validation=False)
    else:
        other = Counter({b: 1 + n % 3 for b in bs}) if multi else list(bs)
    if how == "copy.copy":
        thunk = lambda: copy.copy(target)  # noqa: E731
    elif how == "copy.deepcopy":
        thunk = lambda: copy.deepcopy(target)  # noqa: E731
    elif how == "pickle":
        proto = [2, 3, 4, pickle.HIGHEST_PROTOCOL, 2, 4][n]
        thunk = lambda: pickle.loads(pickle.dumps(target, protocol=proto))  # noqa: E731
    elif how == "copy":
        thunk = lambda: target.copy()  # noqa: E731
    elif how == "construct":
        thunk = lambda: pcls(target)  # noqa: E731
    elif how == "slice":
        sl = [slice(None), slice(0, 1), slice(1, None), slice(None, None, -1), slice(None, None, 2), slice(-2, None)][n]
        thunk = lambda: target[sl]  # noqa: E731
    elif how in ("__mul__", "__rmul__", "__imul__"):
        thunk = lambda: getattr(target, how)(n % 3)  # noqa: E731
    elif how == "__pos__":
        thunk = lambda: +target  # noqa: E731
    else:  # binary operators of list / Counter
        thunk = lambda: getattr(target, how)(other)  # noqa: E731
    counts.append(("v_derive", how))
    default = w.ballot_class(spec["kind"], multi)
    outside = any(not isinstance(b, default) for b in target)
    if validated and T is not default:
        counts.append(("v_derive_source", "validating, non-default ballot_type, " + ("holds a ballot outside the class-default type" if outside else "only ballots of the class-default type")))
    else:
        counts.append(("v_derive_source", "validating, default ballot_type" if validated else "validation off"))
    before = attrs_snapshot(target)
    res, raised = None, None
    try:
        res = thunk()
    except Exception as ex:  # noqa: BLE001
        raised = ex
    if raised is not None and wrong_operand and isinstance(raised, TypeError):
        counts.append(("v_outcome", "wrong-typed ballot in a signed operand refused"))
        res = None
    elif raised is not None:
        v(k, call, "derive_raised", f"{call} of a {'validating ' if validated else ''}{pcls.__name__} created with ballot_type {T.__name__} holding {sorted({type(b).__name__ for b in target})} raised {type(raised).__name__}: {raised}", impl=repr(raised)[:200], expected="a " + pcls.__name__)
        res = None
    elif res is NotImplemented:
        res = None
    else:
        if diff(before, attrs_snapshot(target)):
            v(k, call, "derive_source_attrs", f"{call} changed the attributes of the profile it was applied to", impl=brief(diff(before, attrs_snapshot(target))))
        if type(res) is not pcls:
            v(k, call, "derive_type", f"{call} returned a {type(res).__name__}", impl=type(res).__name__, expected=pcls.__name__)
            res = None
        else:
            ra = attrs_snapshot(res)
            d = (("names", sorted(before), sorted(ra)) if set(ra) != set(before) else diff(before, ra))
            if d:
                v(k, call, "derive_attrs", f"{call}: attribute {d[0]} of the derived {pcls.__name__} differs from the source (ballot_type {T.__name__}, validation {validated})", impl=brief(d[2]), expected=brief(d[1]))
            if res.ballot_type is not T or bool(res.ballot_validation) != validated:
                if not d:
                    v(k, call, "derive_attrs", f"{call}: derived profile has ballot_type {getattr(res.ballot_type, '__name__', res.ballot_type)}, validation {res.ballot_validation}; source {T.__name__}, {validated}")
                res.ballot_type, res.ballot_validation = T, validated
            if validated:
                bad = [b for b in res if not isinstance(b, T)]
                if bad:
                    v(k, call, "validation", f"validated {pcls.__name__} (ballot_type {T.__name__}) obtained by {how} contains {type(bad[0]).__name__}", impl=[type(b).__name__ for b in bad], expected=T.__name__)
                    res = None
    if st["keep"]:
        profs.append((res if res is not target else None, spec, T))


def vworker_main():
    import sys

    hs = json.load(sys.stdin)
    w = VWorld()
    out = []
    for h in hs:
        viol, counts = run_vhistory(w, h)
        out.append({"viol": viol, "counts": counts})
    json.dump(out, sys.stdout, default=str)


def run_vworker(histories):
    """all histories, in order, in one fresh interpreter"""
    import os
    import subprocess
    import sys

    env = dict(os.environ)
    env["PYTHONPATH"] = core.VERIF + os.pathsep + env.get("PYTHONPATH", "")
    env["PABU_REPO"] = core.REPO
    p = subprocess.run([sys.executable, "-m", "harness.props.C17", "--vworker"], cwd=core.VERIF, env=env, input=json.dumps(histories).encode(), stdout=subprocess.PIPE, stderr=subprocess.PIPE, timeout=900)
    if p.returncode != 0:
        raise core.DriverError("C17 validation-history worker exit %d: %s" % (p.returncode, p.stderr.decode()[-400:]))
    return json.loads(p.stdout.decode())


def _vsite_fails(histories, site):
    res = run_vworker(histories)
    return any((x["sig"]["call"], x["sig"]["check"]) == site for x in res[-1]["viol"])


def self_contained_vcase(histories, idx, site, max_trials=8):
    """shortest tried suffix of histories[:idx+1] that reproduces the violation site in a fresh process (the history alone, the
    last 2, 4, ... histories, at last the whole prefix, which is what the run executed)"""
    k, trials = 1, 0
    while k < idx + 1 and trials < max_trials:
        part = histories[idx + 1 - k: idx + 1]
        trials += 1
        if _vsite_fails(part, site):
            return part
        k *= 2
    return histories[: idx + 1]


def run_validation_histories(ctx, n, n_derive=0):
    # the derivation histories are drawn after the inserting ones (whose stream is unchanged) and run after them in the same process
    histories = [gen_vhistory(ctx.rng) for _ in range(n)] + [gen_vhistory(ctx.rng, derive=True) for _ in range(n_derive)]
    res = run_vworker(histories)
    first = {}
    for idx, (h, r) in enumerate(zip(histories, res)):
        ctx.evaluations += 1
        ctx.count("stream", "derivation_history" if h.get("derive") else "validation_history")
        ctx.count("v_profiles_per_history", str(sum(1 for s in h["steps"] if s["op"] == "new")))
        for a, b in r["counts"]:
            ctx.count(a, b)
        if vhistory_nontrivial(h):
            ctx.nontrivial.add(("vhist", h["seed"]))
            ctx.count("v_nontrivial", "a validating profile with a non-default ballot_type is derived from" if h.get("derive") else "two ballot types of one profile class offered the same ballot class")
        for x in r["viol"]:
            site = (x["sig"]["call"], x["sig"]["check"])
            ctx.count("violation_sites", "%s:%s" % site)
            if site not in first:
                first[site] = (idx, x)
    # the clause of the statement itself (a wrong-typed ballot inside a validating profile) first
    first = dict(sorted(first.items(), key=lambda kv: (kv[0][1] != "validation", kv[1][0])))
    for site, (idx, x) in list(first.items())[:5]:
        part = self_contained_vcase(histories, idx, site)
        x["case"] = {"stream": "validation_history", "histories": part, "site": list(site)}
        x["cfg"] = {}
        x["what"] += " (history %d of the run; replay = %d histories in a fresh process)" % (idx, len(part))
        ctx.violations.append(x)
    for site, (idx, x) in list(first.items())[5:]:
        x["case"] = {"stream": "validation_history", "histories": histories[: idx + 1], "site": list(site)}
        x["cfg"] = {}
        ctx.violations.append(x)


# ----------------------------------------------------------------------------------------------
# model side


def model_line(name, steps):
    return "ops C=%s O=%s" % (name, ",".join(s["op"] for s in steps))


def impl_answer(steps, viol):
    """per step: 1 = type and attributes preserved (or nothing to preserve), 0 = lost"""
    lost = {x["step"] - 1 for x in viol if x["sig"]["check"] in ("type", "attrs") or (x["sig"]["check"] == "raised" and x["sig"]["op"] in ("copy.copy", "copy.deepcopy", "pickle"))}
    return "ok " + ",".join("0" if i in lost else "1" for i in range(len(steps)))


def run(ctx):
    ctx.rule = RULE
    n = ctx.scale(4000, 30000)
    unclassified = {}
    for name in CLASS_NAMES:
        base, table, unknown, missing = discover(name)
        if unknown:
            unclassified[base] = unknown
        if missing:
            unclassified[name + ":missing"] = missing
    ctx.extra["unclassified_api"] = unclassified
    ctx.extra["classes"] = CLASS_NAMES
    ctx.extra["classified_not_exercised"] = {
        "query": "methods that return no container (len, iteration, comparisons, get/items/keys/values, count/index, ...)",
        "classmethod": "dict.fromkeys / Counter.fromkeys: no source object whose attributes could be kept",
        "protocol": sorted(PROTOCOL),
    }
    if unclassified:
        ctx.violations.append({"what": "builtin API names not classified by the harness tables: %s" % unclassified, "case": {}, "cfg": {}, "sig": {"call": "introspection", "check": "unclassified"}})

    def record(name, op, cat, raised):
        ctx.count("class", name)
        ctx.count("category", cat)
        ctx.count("op", op)
        if raised:
            ctx.count("raised", raised)

    lines, answers, metas = [], [], []
    for k in range(n):
        sub = ctx.rng.getrandbits(48)
        name = CLASS_NAMES[k % len(CLASS_NAMES)]
        w = World(random.Random(sub))
        length = w.rng.randint(1, 6)
        viol, steps, nontriv = run_sequence(w, name, length, record)
        ctx.evaluations += 1
        key = (name, tuple((s["op"], s["operand"]) for s in steps))
        if nontriv:
            ctx.nontrivial.add(key)
        case = {"class": name, "seed": sub, "length": length, "steps": steps}
        seen = set()
        for x in viol:
            sk = (x["sig"]["call"], x["sig"]["check"])
            if sk in seen:
                continue
            seen.add(sk)
            x["case"] = case
            x["cfg"] = {}
            ctx.violations.append(x)
        lines.append(model_line(name, steps))
        answers.append(impl_answer(steps, viol))
        metas.append(case)
    model = core.run_driver(lines)
    for line, a, m, case in zip(lines, answers, model, metas):
        # the table model is a guarantee: 1 = "class and attributes survive this step".  model 1 / impl 0 is a
        # disagreement; model 0 / impl 1 means the table could not guarantee the step (possible only when the
        # `closure` theorem fails, which fails the check on its own) and is counted separately.
        av, mv = a[3:].split(","), m[3:].split(",") if m.startswith("ok") else []
        if len(av) != len(mv) or any(x == "0" and y == "1" for x, y in zip(av, mv)):
            ctx.disagreements.append({"line": line, "impl": a, "model": m, "case": case})
        ctx.extra["model_conservative_steps"] = ctx.extra.get("model_conservative_steps", 0) + sum(1 for x, y in zip(av, mv) if x == "1" and y == "0")
        ctx.sample(f"{line} -> impl {a} | model {m}")
    # de-duplicate violations across sequences: keep the first of every (call, check), count the rest
    first = {}
    for x in ctx.violations:
        k = (x["sig"].get("call"), x["sig"].get("check"))
        if k not in first:
            first[k] = x
        ctx.count("violation_sites", "%s:%s" % k)
    ctx.violations = list(first.values())
    # profiles with their own ballot types side by side in one process (predicate only; the table model has no ballot types)
    run_validation_histories(ctx, ctx.scale(1200, 8000), ctx.scale(1500, 8000))
    counter_stream(ctx, ctx.scale(1500, 10000))  # round 6 (drawn last)


# ----------------------------------------------------------------------------------------------
# Counter arithmetic (model PabuModel/CounterArith, theorems Properties/C17Counter): the binary and unary operators a multiprofile
# inherits from collections.Counter, on operands with ANY integer counts, and the re-validating wrapper of `_wrap_methods`

COUNTER_OPS = {"add": "__add__", "sub": "__sub__", "or": "__or__", "and": "__and__", "pos": "__pos__", "neg": "__neg__"}
COUNTER_KINDS = {"app": ("ApprovalMultiProfile", "FrozenApprovalBallot", "FrozenOrdinalBallot"),
                 "ord": ("OrdinalMultiProfile", "FrozenOrdinalBallot", "FrozenApprovalBallot"),
                 "card": ("CardinalMultiProfile", "FrozenCardinalBallot", "FrozenApprovalBallot"),
                 "cum": ("CumulativeMultiProfile", "FrozenCumulativeBallot", "FrozenCardinalBallot")}
N_VALID = 4  # keys 0..3 are ballots of the profile's type, keys 4, 5 are ballots of another type


def gen_counter_case(r):
    def counter(lo, keys):
        ks = r.sample(keys, r.randint(0, min(4, len(keys))))
        return [[k, r.choice([-3, -2, -1, -1, 0, 0, 1, 1, 2, 3][lo:])] for k in ks]

    op = r.choice(list(COUNTER_OPS))
    a = counter(0, list(range(N_VALID)))  # the multiprofile: ballots of its own type, any counts (update/subtract/__setitem__ store them)
    b = counter(0, list(range(N_VALID + 2))) if op not in ("pos", "neg") else []
    return {"stream": "counter_arith", "kind": r.choice(list(COUNTER_KINDS)), "op": op, "A": a, "B": b, "operand": r.choice(["Counter", "dict", "multiprofile_novalidation"])}


def counter_line(c, validated):
    enc = lambda l: ",".join(f"{k}:{n}" for k, n in l)  # noqa: E731
    return f"counter op={c['op']} A={enc(c['A'])} B={enc(c['B'])}" + (" V=" + ".".join(str(k) for k in range(N_VALID)) if validated else "")


def counter_python(c):
    """CPython's own Counter on the same operands"""
    A, B = Counter(dict(map(tuple, c["A"]))), Counter(dict(map(tuple, c["B"])))
    r = {"add": lambda: A + B, "sub": lambda: A - B, "or": lambda: A | B, "and": lambda: A & B, "pos": lambda: +A, "neg": lambda: -A}[c["op"]]()
    return "ok " + (",".join(f"{k}:{n}" for k, n in r.items()) or "-")


def counter_library(c):
    """the library's multiprofile (validation on) with the same operands; keys 0..3 are ballots of its type, 4 and 5 are not"""
    import pabutools.election as e

    cls_name, own, other = COUNTER_KINDS[c["kind"]]
    cls, Own, Other = getattr(e, cls_name), getattr(e, own), getattr(e, other)
    projs = [e.Project("p%d" % i, 1) for i in range(6)]

    def mk(T, i, off=0):
        # (ballots of different classes with the same content compare equal: the intruders are about other projects)
        members = [[0], [1], [2], [0, 1]][i]
        if issubclass(T, dict):
            return T({projs[off + j]: 1 + i for j in members})
        return T([projs[off + j] for j in members])

    ballots = [mk(Own, i) for i in range(N_VALID)] + [mk(Other, i, 3) for i in range(2)]
    key_of = {b: i for i, b in enumerate(ballots)}
    if len(key_of) != len(ballots):
        raise core.DriverError("counter_library: ballots not distinct")
    A = cls({ballots[k]: n for k, n in c["A"]})
    if [(key_of[b], n) for b, n in A.items()] != [tuple(x) for x in c["A"]]:
        return "harness: the multiprofile constructor did not store the counts as given: %r" % [(key_of[b], n) for b, n in A.items()]
    Bd = {ballots[k]: n for k, n in c["B"]}
    B = Counter(Bd) if c["operand"] == "Counter" else (dict(Bd) if c["operand"] == "dict" and c["op"] in () else Counter(Bd))
    if c["operand"] == "multiprofile_novalidation":
        B = cls(Bd, ballot_validation=False)
    try:
        r = {"add": lambda: A + B, "sub": lambda: A - B, "or": lambda: A | B, "and": lambda: A & B, "pos": lambda: +A, "neg": lambda: -A}[c["op"]]()
    except TypeError:
        return "err type"
    except Exception as ex:  # noqa: BLE001
        return "err " + type(ex).__name__
    if type(r) is not cls:
        return "ok-but-class " + type(r).__name__
    return "ok " + (",".join(f"{key_of[b]}:{n}" for b, n in r.items()) or "-")


def counter_stream(ctx, n, compare=True):
    r = random.Random(ctx.rng.getrandbits(48))
    cases = [gen_counter_case(r) for _ in range(n)]
    lines = [counter_line(c, False) for c in cases] + [counter_line(c, True) for c in cases]
    model = core.run_driver(lines) if compare else None
    for i, c in enumerate(cases):
        ctx.evaluations += 1
        ctx.count("counter_arith", c["op"])
        py = counter_python(c)
        lib = counter_library(c)
        sig = {"call": "Counter." + COUNTER_OPS[c["op"]], "stream": "counter_arith"}
        if model is not None:
            m_plain, m_wrapped = model[i].strip(), model[n + i].strip()
            if m_plain != py:
                ctx.disagreements.append({"line": lines[i], "impl": py, "model": m_plain, "case": c, "what": "collections.Counter differs from the model of its arithmetic"})
            if m_wrapped != lib:
                ctx.disagreements.append({"line": lines[n + i], "impl": lib, "model": m_wrapped, "case": c, "what": "the multiprofile operator differs from the re-validating wrapper of the model"})
        # the property itself, on the library's answer: a validated multiprofile holds no ballot of another type, and keeps its class
        wrong_in_result = lib.startswith("ok ") and any(int(t.split(":")[0]) >= N_VALID for t in lib[3:].split(",") if ":" in t)
        if wrong_in_result or lib.startswith("ok-but-class") or lib.startswith("harness"):
            ctx.violations.append({"what": f"{COUNTER_KINDS[c['kind']][0]} {c['A']} {COUNTER_OPS[c['op']]} {c['operand']} {c['B']} (keys >= {N_VALID} are ballots of another type) -> {lib}",
                                   "case": c, "cfg": {}, "impl": lib, "expected": "TypeError, or a multiprofile without the wrong-typed ballots", "sig": dict(sig, check="validation" if wrong_in_result else "type")})
        elif lib.startswith("err") and lib != "err type":
            ctx.violations.append({"what": f"multiprofile operator raised {lib[4:]}", "case": c, "cfg": {}, "impl": lib, "expected": py, "sig": dict(sig, check="raised")})
        elif lib == "err type" and not any(k >= N_VALID for k, _ in c["B"]):
            ctx.violations.append({"what": "multiprofile operator refused operands of its own ballot type", "case": c, "cfg": {}, "impl": lib, "expected": py, "sig": dict(sig, check="refused_own_type")})
        if any(k >= N_VALID and nn < 0 for k, nn in c["B"]) and c["op"] == "sub":
            ctx.nontrivial.add("counter:" + json.dumps(c, sort_keys=True))
        ctx.sample(f"{lines[n + i]} -> library {lib} | python Counter {py}", cap=10)


def search(ctx, disagreements):
    ctx.rule = RULE

    def record(*a):
        pass

    for k in range(15000):
        sub = ctx.rng.getrandbits(48)
        name = CLASS_NAMES[k % len(CLASS_NAMES)]
        w = World(random.Random(sub))
        viol, steps, _ = run_sequence(w, name, w.rng.randint(1, 6), record)
        ctx.evaluations += 1
        for x in viol[:1]:
            x["case"] = {"class": name, "seed": sub, "steps": steps}
            x["cfg"] = {}
            ctx.violations.append(x)
        if len(ctx.violations) >= 5:
            break
    if len(ctx.violations) < 5:
        run_validation_histories(ctx, 3000, 3000)
    if len(ctx.violations) < 5:
        counter_stream(ctx, 6000, compare=False)


def replay(payload):
    case = payload["case"]
    if not case:
        _, _, unknown, missing = discover("Instance")
        return (not unknown, "unclassified API: %s" % unknown)
    if case.get("stream") == "counter_arith":
        lib = counter_library(case)
        bad = (lib.startswith("ok ") and any(int(t.split(":")[0]) >= N_VALID for t in lib[3:].split(",") if ":" in t)) or lib.startswith("ok-but") or \
            lib.startswith("harness") or (lib.startswith("err") and lib != "err type") or (lib == "err type" and not any(k >= N_VALID for k, _ in case["B"]))
        return (not bad), ("still fails: " if bad else "property holds on the replayed operands: ") + lib
    if case.get("stream") == "validation_history":
        res = run_vworker(case["histories"])
        viol = [x for r in res for x in r["viol"]]
        site = tuple(case.get("site", []))
        for x in viol:
            if (x["sig"]["call"], x["sig"]["check"]) == site:
                return False, "still fails: " + x["what"]
        if viol:
            return False, "still fails (other site): " + viol[0]["what"]
        return True, "property holds on the replayed validation histories (%d)" % len(case["histories"])
    w = World(random.Random(case["seed"]))
    length = w.rng.randint(1, 6)
    viol, steps, _ = run_sequence(w, case["class"], length, lambda *a: None)
    want = payload.get("sig", {})
    for x in viol:
        if x["sig"].get("call") == want.get("call") and x["sig"].get("check") == want.get("check"):
            return False, "still fails: " + x["what"]
    if viol:
        return False, "still fails (other site): " + viol[0]["what"]
    return True, "property holds on the replayed sequence: " + json.dumps([s["op"] for s in steps])


if __name__ == "__main__":
    import sys

    if "--vworker" in sys.argv:
        vworker_main()
