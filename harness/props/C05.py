"""C05 — sequential Phragmén selects exactly what its definition (continuous money process) prescribes."""
from __future__ import annotations

import random
from fractions import Fraction as F

from .. import core, history, oracle, relabel, rulegen, rules, ruleprops
from ..core import Case
from ..ruleprops import violation

RULE = ("seeded approval elections x (tie rule, Profile/MultiProfile, initial allocation, initial loads, resolute/irresolute); predicate = "
        "independent money-process simulation on the expanded voter list with the implementation's two stated conventions; "
        "non-trivial = at least 2 purchases and the process stopped by the budget (a project left out); plus histories on ONE profile "
        "object (Profile / MultiProfile) that is mutated in place between calls (append, extend, +=, insert, item assignment, deletion, "
        "ballots edited in place, multiplicities changed): every call is judged by the same predicate on the voters present at that call; plus several calls "
        "in a row handed ONE caller-owned BudgetAllocation object as initial allocation (each call is the process started from the allocation the caller built)")
ASSUMPTIONS = ["approval ballots", "feasible initial allocation", "conventions of the implementation taken as given (projects above the whole budget ignored; unsupported tail)"]


def predicate(it):
    case, cfg = it.case, it.cfg
    kind, val = it.ans
    sig = {"rule": "phragmen", "multi": bool(cfg.get("multi")), "res": bool(cfg.get("res", True)), "loads": cfg.get("loads") is not None}
    if kind == "err":
        if val == "tie" and cfg.get("tie") == "refuse":
            return []
        return [violation(f"Phragmen raised {val}: {it.raw!r}", case, cfg, impl=rules.canon(it.ans), sig=dict(sig, err=val))]
    init = cfg.get("init") or []
    loads = cfg.get("loads_expanded")
    if kind == "ok":
        exp = oracle.phragmen(case, tie=cfg.get("tie", "lexico"), init=init, loads=loads)
        exp_ids = sorted(case.rank[p] for p in exp)
        it.n_bought = len(exp) - len(init)
        it.left = len(case.names) - len(exp)
        if sorted(val) != exp_ids:
            return [violation("Phragmen outcome differs from the money process", case, cfg, impl=sorted(val), expected=exp_ids, sig=sig)]
        return []
    exp = oracle.phragmen(case, init=init, loads=loads, branch=True)
    exp_sets = sorted(sorted(case.rank[p] for p in s) for s in exp)
    got = sorted(sorted(w) for w in val)
    it.n_bought = max((len(s) for s in exp), default=0) - len(init)
    it.left = len(case.names) - it.n_bought - len(init)
    if got != exp_sets:
        return [violation("irresolute Phragmen outcomes differ from the money process", case, cfg, impl=got, expected=exp_sets, sig=sig)]
    return []


def nontrivial(it):
    return getattr(it, "n_bought", 0) >= 2 and getattr(it, "left", 0) >= 1


def pairs(ctx, n):
    rng = ctx.rng
    for _ in range(n):
        case = core.gen_election(rng, btypes=("app",), m_lo=1, m_hi=6)
        if rng.random() < 0.25:
            case = core.gen_big_election(rng)
        cfg = rulegen.gen_rule_cfg(rng, case, rules=("phragmen",), allow_refuse=False)
        if not cfg["res"] and len(case.projects) > 5:
            cfg["res"] = True
        if not cfg.get("multi") and case.ballots and case.seed % 4 == 0:
            r_ = random.Random(case.seed ^ 0x10AD)
            cfg["loads_direct"] = [F(r_.choice([0, 0, 1, F(1, 2), 2, 4])) for _ in case.ballots]
            cfg.pop("loads_per_voter", None)
        yield case, cfg


def tie_profile_pairs(ctx, n):
    """tie-rich approval elections with REPEATED ballots under the tie-breaking rules that read the profile (approval score) or the
    costs, on both representations: the key of a tied project counts voters, not distinct ballots"""
    from .C08 import tie_rich_election

    rng = random.Random(ctx.rng.getrandbits(48))
    for _ in range(n):
        u = rng.random()
        if u < 0.45:
            case = core.gen_scoretie_election(rng)
        elif u < 0.7:
            # costs proportional to the number of supporters: projects with DIFFERENT approval scores reach the same new maximum load
            case = core.gen_proportional_election(rng, btypes=("app",), m=(2, 5), n=(3, 8))
        else:
            case = tie_rich_election(rng)
        if case.btype != "app":
            case = Case(case.projects, case.budget, "app", core.gen_ballots(rng, "app", [nm for nm, _ in case.projects], 2, 7, distinct_hi=3), case.seed)
        if len(case.entries()) == len(case.ballots) and case.ballots:
            case = Case(case.projects, case.budget, "app", list(case.ballots) + [rng.choice(case.ballots)] * rng.randint(1, 3), case.seed)
        cfg = rulegen.gen_rule_cfg(rng, case, rules=("phragmen",), allow_refuse=False)
        cfg["tie"] = rng.choice(["app_score", "app_score", "min_cost", "max_cost"])
        cfg["multi"] = rng.random() < 0.7
        if not cfg["res"] and len(case.projects) > 5:
            cfg["res"] = True
        ctx.count("stream", "tie-rich, repeated ballots, tie rule " + cfg["tie"])
        yield case, cfg


def history_cfg(rng, case, multi):
    """configuration of one call inside a history: any tie rule, initial allocation, initial loads, resolute or not"""
    cfg = rulegen.gen_rule_cfg(rng, case, rules=("phragmen",), allow_refuse=False)
    cfg["multi"] = multi
    return cfg


def _shared_call(case, built, obj, cfg):
    c = dict(cfg, init_obj=obj)
    rulegen.fix_loads(c, built)
    ans, raw = rules.impl_answer(built, c)
    c.pop("init_obj")
    return ruleprops.Item(case, c, built, ans, raw, None)


def shared_init_stream(ctx, n):
    """ONE caller-owned BudgetAllocation object handed to several calls in a row (as the comparison wrappers and every caller that
    keeps its 'already funded' allocation in a variable do): each call is the money process started from the allocation the
    caller built, whatever the earlier calls bought"""
    from pabutools.rules import BudgetAllocation

    r = random.Random(ctx.rng.getrandbits(48))
    for _ in range(n):
        if ctx.budget_s is not None and ctx.elapsed() > ctx.budget_s:
            break
        case = core.gen_tight_election(r, btypes=("app",)) if r.random() < 0.6 else core.gen_election(r, btypes=("app",), m_lo=2, m_hi=6)
        init = []
        for _try in range(4):
            init = core.gen_init(r, case)
            if init:
                break
        multi = r.random() < 0.4
        built = rules.Built(case, multi=multi)
        obj = BudgetAllocation([built.projs[nm] for nm in init])
        done = []
        for k in range(r.randint(2, 3)):
            cfg = rulegen.gen_rule_cfg(r, case, rules=("phragmen",), allow_refuse=False)
            cfg["multi"] = multi
            cfg["init"] = list(init)
            if not cfg["res"] and len(case.projects) > 5:
                cfg["res"] = True
            it = _shared_call(case, built, obj, cfg)
            ctx.evaluations += 1
            ctx.count("stream", "shared-initial-allocation-object:call-%d" % (k + 1))
            for v in predicate(it):
                v["what"] = f"call {k + 1} on one shared initial-allocation object: " + v["what"]
                v["cfg"] = dict(v["cfg"], shared_init_history=[ruleprops.cfg_json(d) for d in done])
                v["sig"] = dict(v["sig"], history="shared_init_object")
                ctx.violations.append(v)
            if nontrivial(it) and init:
                ctx.nontrivial.add(case.key() + "shared" + str(k))
            done.append(it.cfg)


def run(ctx):
    ctx.rule = RULE
    items = ruleprops.run_items(ctx, pairs(ctx, ctx.scale(2000, 20000)), predicate, nontrivial)
    history.run_profile_history(ctx, ctx.scale(500, 5000), predicate, history_cfg)
    shared_init_stream(ctx, ctx.scale(400, 4000))
    items += ruleprops.run_items(ctx, tie_profile_pairs(ctx, ctx.scale(1500, 10000)), predicate, nontrivial)
    relabel.run(ctx, ctx.scale(250, 2500), rules_=("phragmen",))  # projects numbered 1 … 13 against '01' … '13' (round 7, drawn last)
    ctx.extra["with_initial_loads"] = sum(1 for it in items if it.cfg.get("loads") is not None)
    ctx.extra["with_initial_allocation"] = sum(1 for it in items if it.cfg.get("init"))


def search(ctx, disagreements):
    ctx.rule = RULE
    ruleprops.run_items(ctx, pairs(ctx, 10000), predicate, nontrivial, compare=False)
    history.run_profile_history(ctx, 3000, predicate, history_cfg)
    shared_init_stream(ctx, 3000)
    relabel.run(ctx, 2500, rules_=("phragmen",))


def replay(payload):
    if payload.get("cfg", {}).get("relabel"):
        return relabel.replay(payload)
    if payload.get("cfg", {}).get("profile_history"):
        return history.replay_profile_history(payload, predicate)
    case = Case.from_json(payload["case"])
    cfg = ruleprops.cfg_from_json(payload["cfg"])
    if cfg.get("shared_init_history") is not None:
        from pabutools.rules import BudgetAllocation

        built = rules.Built(case, multi=cfg.get("multi", False))
        obj = BudgetAllocation([built.projs[nm] for nm in (cfg.get("init") or [])])
        for prev in cfg.pop("shared_init_history"):
            _shared_call(case, built, obj, ruleprops.cfg_from_json(prev))
        vs = predicate(_shared_call(case, built, obj, cfg))
        if vs:
            return False, "still fails: " + vs[0]["what"]
        return True, "property holds on the replayed history"
    built = rules.Built(case, multi=cfg.get("multi", False))
    rulegen.fix_loads(cfg, built)
    ans, raw = rules.impl_answer(built, cfg)
    it = ruleprops.Item(case, cfg, built, ans, raw, None)
    vs = predicate(it)
    if vs:
        return False, "still fails: " + vs[0]["what"]
    return True, "property holds on the replayed input: " + rules.canon(ans)
