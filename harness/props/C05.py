"""C05 — sequential Phragmén selects exactly what its definition (continuous money process) prescribes."""
from __future__ import annotations

from fractions import Fraction as F

from .. import core, history, oracle, rulegen, rules, ruleprops
from ..core import Case
from ..ruleprops import violation

RULE = ("seeded approval elections x (tie rule, Profile/MultiProfile, initial allocation, initial loads, resolute/irresolute); predicate = "
        "independent money-process simulation on the expanded voter list with the implementation's two stated conventions; "
        "non-trivial = at least 2 purchases and the process stopped by the budget (a project left out); plus histories on ONE profile "
        "object (Profile / MultiProfile) that is mutated in place between calls (append, extend, +=, insert, item assignment, deletion, "
        "ballots edited in place, multiplicities changed): every call is judged by the same predicate on the voters present at that call")
ASSUMPTIONS = ["approval ballots", "feasible initial allocation", "conventions of the implementation taken as given (projects above the whole budget ignored; unsupported tail)"]


def predicate(it):
    case, cfg = it.case, it.cfg
    kind, val = it.ans
    sig = {"rule": "phragmen", "multi": bool(cfg.get("multi")), "res": bool(cfg.get("res", True)), "loads": cfg.get("loads") is not None}
    if kind == "err":
        if val == "tie" and cfg.get("tie") == "refuse":
            return []
        return [violation(f"Phragmen raised {val}: {it.raw!r}", case, cfg, impl=rules.canon(it.ans), sig=dict(sig, err=val))]
    init = cfg.get("init") or []
    loads = cfg.get("loads_expanded")
    if kind == "ok":
        exp = oracle.phragmen(case, tie=cfg.get("tie", "lexico"), init=init, loads=loads)
        exp_ids = sorted(case.rank[p] for p in exp)
        it.n_bought = len(exp) - len(init)
        it.left = len(case.names) - len(exp)
        if sorted(val) != exp_ids:
            return [violation("Phragmen outcome differs from the money process", case, cfg, impl=sorted(val), expected=exp_ids, sig=sig)]
        return []
    exp = oracle.phragmen(case, init=init, loads=loads, branch=True)
    exp_sets = sorted(sorted(case.rank[p] for p in s) for s in exp)
    got = sorted(sorted(w) for w in val)
    it.n_bought = max((len(s) for s in exp), default=0) - len(init)
    it.left = len(case.names) - it.n_bought - len(init)
    if got != exp_sets:
        return [violation("irresolute Phragmen outcomes differ from the money process", case, cfg, impl=got, expected=exp_sets, sig=sig)]
    return []


def nontrivial(it):
    return getattr(it, "n_bought", 0) >= 2 and getattr(it, "left", 0) >= 1


def pairs(ctx, n):
    rng = ctx.rng
    for _ in range(n):
        case = core.gen_election(rng, btypes=("app",), m_lo=1, m_hi=6)
        if rng.random() < 0.25:
            case = core.gen_big_election(rng)
        cfg = rulegen.gen_rule_cfg(rng, case, rules=("phragmen",), allow_refuse=False)
        if not cfg["res"] and len(case.projects) > 5:
            cfg["res"] = True
        yield case, cfg


def history_cfg(rng, case, multi):
    """configuration of one call inside a history: any tie rule, initial allocation, initial loads, resolute or not"""
    cfg = rulegen.gen_rule_cfg(rng, case, rules=("phragmen",), allow_refuse=False)
    cfg["multi"] = multi
    return cfg


def run(ctx):
    ctx.rule = RULE
    items = ruleprops.run_items(ctx, pairs(ctx, ctx.scale(2000, 20000)), predicate, nontrivial)
    history.run_profile_history(ctx, ctx.scale(500, 5000), predicate, history_cfg)
    ctx.extra["with_initial_loads"] = sum(1 for it in items if it.cfg.get("loads") is not None)
    ctx.extra["with_initial_allocation"] = sum(1 for it in items if it.cfg.get("init"))


def search(ctx, disagreements):
    ctx.rule = RULE
    ruleprops.run_items(ctx, pairs(ctx, 10000), predicate, nontrivial, compare=False)
    history.run_profile_history(ctx, 3000, predicate, history_cfg)


def replay(payload):
    if payload.get("cfg", {}).get("profile_history"):
        return history.replay_profile_history(payload, predicate)
    case = Case.from_json(payload["case"])
    cfg = ruleprops.cfg_from_json(payload["cfg"])
    built = rules.Built(case, multi=cfg.get("multi", False))
    rulegen.fix_loads(cfg, built)
    ans, raw = rules.impl_answer(built, cfg)
    it = ruleprops.Item(case, cfg, built, ans, raw, None)
    vs = predicate(it)
    if vs:
        return False, "still fails: " + vs[0]["what"]
    return True, "property holds on the replayed input: " + rules.canon(ans)
