"""C14 — proportionality checkers match their definitions; Equal Shares passes them.

For every generated election, every feasible allocation, every measure in the quantifier and both
profile representations the ten checkers of pabutools/analysis/justifiedrepresentation.py are run on
the real library.  Their answers are compared with
  (P) an independent brute-force evaluation of the definitions (DESIGN §5 C14) over all groups of the
      EXPANDED voter list x all project sets, exact `Fraction`s, no pabutools import          -> violation
  (L) the implication lattice on the library's own answers                                   -> violation
  (M) the Lean model: `jr` driver command = checkers as the code enumerates groups (distinct entries,
      summed multiplicity) and the definitions over the expanded list                        -> disagreement
  (E) outcomes of the Method of Equal Shares — resolute, every irresolute outcome, iterated
      (voter_budget_increment 1, 1/2 or 1/3) and iterated irresolute: Cost_Sat => EJR-up-to-any,
      Cardinality_Sat => EJR-up-to-one w.r.t. the original instance, and feasible for it
      (library checker and brute-force definition)                                            -> violation
  (G) the enumeration the checkers loop over: `cohesive_groups(instance, profile)` as a multiset of (group as positions
      in the profile, project set) pairs against an independent brute-force enumeration (violation) and against the Lean
      model `JR.cohesiveGroupsBy` (driver command `cohesive`; disagreement); `is_cohesive_approval` /
      `is_cohesive_cardinal` on sampled (group, project set, alpha) against the predicate (violation).  The helpers that no
      checker calls (`maximal_cohesive_for_projects_approval`, `maximal_cohesive_groups`) are run and their behaviour
      RECORDED in the evidence (distribution `outside_property:*`), never judged.
"""
from __future__ import annotations

import itertools
import random
from fractions import Fraction as F

from .. import core
from ..core import Case, q2s

RULE = ("approval / full-score cardinal elections with 1..5 voters (built from <=4 distinct ballots, so multiprofiles "
        "compress), 1..5 positive-cost projects, budgets placed on subset sums; every feasible allocation (a seeded sample "
        "of them for the largest elections in the quick tier) x measure x Profile/MultiProfile; non-trivial = at least one "
        "cohesive (group, project set) pair exists and the ten answers are not all equal; distinct by case+allocation+measure; "
        "cohesive_groups: every generated election as Profile and MultiProfile against brute force and the model's enumeration")
ASSUMPTIONS = [
    "exact-arithmetic mode", ">=1 voter, positive budget, positive exact costs",
    "cardinal ballots score every project with a non-negative score",
    "definitions as in DESIGN §5 C14 (weak inequalities, alpha = pointwise minimum of the group)",
]
TRUSTED = ["Equal Shares => EJR-up-to-any (Cost_Sat) / EJR, hence up-to-one (Cardinality_Sat) is proved on the models MES.run and JR.Satisfies "
           "(Properties/C14Mes.lean: mes_EJR_any_cost, mes_EJR_cardinality, mes_EJR_one_cardinality, mes_EJR_x; positive costs, tie-breaking "
           "function returning a non-empty list of tied projects), and for the irresolute, iterated (voter_budget_increment) and iterated "
           "irresolute rule in Properties/C14MesVariants.lean (mes_irresolute_EJR_*, mes_iterated_EJR_*, mes_iteratedAll_EJR_*, "
           "mes_iteratedLazy_EJR_x; conclusions w.r.t. the ORIGINAL budget limit); the run of the library is tied to MES.run / runAll / iterated "
           "by C02, C08, C09, and (E) tests the clause on the library's own outcomes in all four modes"]

KEYS = ["core", "core_any", "core_one", "sEJR", "EJR", "EJR_any", "EJR_one", "PJR", "PJR_any", "PJR_one"]
UP = {"core": None, "core_any": "any", "core_one": "one", "sEJR": None, "EJR": None, "EJR_any": "any", "EJR_one": "one",
      "PJR": None, "PJR_any": "any", "PJR_one": "one"}
IMPLICATIONS = [
    ("core", "EJR"), ("core_any", "EJR_any"), ("core_one", "EJR_one"),
    ("EJR", "PJR"), ("EJR_any", "PJR_any"), ("EJR_one", "PJR_one"),
    ("sEJR", "EJR"),
    ("core", "core_any"), ("core_any", "core_one"),
    ("EJR", "EJR_any"), ("EJR_any", "EJR_one"),
    ("PJR", "PJR_any"), ("PJR_any", "PJR_one"),
]
SATS = {"app": ["Cost_Sat", "Cardinality_Sat"], "card": ["Additive_Cardinal_Sat"]}


# ----------------------------------------------------------------------------------------------
# independent definitions (expanded voter list, Fractions)


def _up(kind, vals):
    vals = list(vals)
    if kind is None or not vals:
        return F(0)
    return min(vals) if kind == "any" else max(vals)


def utilities(case: Case, sat):
    """u[i][p]: value of project p for voter i; full[p]: value for a voter approving everything"""
    us = []
    for b in case.ballots:
        if sat == "Cost_Sat":
            us.append({p: (case.cost[p] if p in b else F(0)) for p in case.names})
        elif sat in ("Cardinality_Sat", "CC_Sat"):
            us.append({p: (F(1) if p in b else F(0)) for p in case.names})
        else:
            us.append({p: F(b[p]) for p in case.names})
    if sat == "Cost_Sat":
        full = {p: case.cost[p] for p in case.names}
    elif sat in ("Cardinality_Sat", "CC_Sat"):
        full = {p: F(1) for p in case.names}
    else:
        full = None
    return us, full


# measures that are not additive: the value of a SET from the per-project values (Chamberlin-Courant on approval ballots: 1 as soon as
# one approved project is in the set).  The checkers take any satisfaction class; with such a one only the notions stated through the
# voters' own satisfaction are compared (core, strong EJR, EJR and its relaxations), not PJR, which scores the group's approved set
SETFN = {"CC_Sat": lambda vals: F(1) if any(v > 0 for v in vals) else F(0)}
VOTER_KEYS = ("core", "core_any", "core_one", "sEJR", "EJR", "EJR_any", "EJR_one")


class Defs:
    """all (S, T) pairs of one election under one measure, prepared once; `evaluate(W)` decides the ten notions"""

    def __init__(self, case: Case, sat):
        self.case, self.sat = case, sat
        self.u, self.full = utilities(case, sat)
        n = len(case.ballots)
        names = case.names
        self.pairs = []  # (S, T, cohesive)
        self.any_cohesive = False
        for r in range(1, n + 1):
            for S in itertools.combinations(range(n), r):
                for k in range(0, len(names) + 1):
                    for T in itertools.combinations(names, k):
                        cost = sum((case.cost[p] for p in T), F(0))
                        if not cost * n <= len(S) * case.budget:
                            continue
                        coh = len(T) > 0
                        if coh and case.btype == "app":
                            coh = all(p in case.ballots[i] for i in S for p in T)
                        self.any_cohesive = self.any_cohesive or coh
                        self.pairs.append((S, T, coh))

    def evaluate(self, W):
        u, full, case = self.u, self.full, self.case
        Wset = set(W)
        res = {k: True for k in KEYS}
        setfn = SETFN.get(self.sat)
        if setfn is not None:
            return self.evaluate_setfn(W, setfn)
        satW = [sum((ui[p] for p in W), F(0)) for ui in u]
        for S, T, coh in self.pairs:
            out = [p for p in T if p not in Wset]
            # core: nobody may be strictly better off with T (every up-to variant)
            for key in ("core", "core_any", "core_one"):
                if res[key]:
                    if not any(satW[i] + _up(UP[key], (u[i][p] for p in out)) >= sum((u[i][p] for p in T), F(0)) for i in S):
                        res[key] = False
            if not coh:
                continue
            if case.btype == "app":
                thr = {i: sum((u[i][p] for p in T), F(0)) for i in S}
                pthr = sum((full[p] for p in T), F(0))
                gsat = sum((full[p] for p in W if any(p in case.ballots[i] for i in S)), F(0))
                pvals = [full[p] for p in out]
            else:
                t = sum((min(u[i][p] for i in S) for p in T), F(0))
                thr = {i: t for i in S}
                pthr = t
                gsat = sum((max(u[i][p] for i in S) for p in W), F(0))
                pvals = [max(u[i][p] for i in S) for p in out]
            if res["sEJR"] and not all(satW[i] >= thr[i] for i in S):
                res["sEJR"] = False
            for key in ("EJR", "EJR_any", "EJR_one"):
                if res[key] and not any(satW[i] + _up(UP[key], (u[i][p] for p in out)) >= thr[i] for i in S):
                    res[key] = False
            for key in ("PJR", "PJR_any", "PJR_one"):
                if res[key] and not gsat + _up(UP[key], pvals) >= pthr:
                    res[key] = False
        return res


def _evaluate_setfn(self, W, fn):
    """the voter-level notions for a satisfaction that is a function of the SET (approval ballots)"""
    u = self.u
    Wset = set(W)
    res = {k: True for k in VOTER_KEYS}
    S_ = lambda i, X: fn([u[i][p] for p in X])  # noqa: E731
    satW = [S_(i, W) for i in range(len(u))]
    for S, T, coh in self.pairs:
        out = [p for p in T if p not in Wset]
        for key in ("core", "core_any", "core_one"):
            if res[key] and not any(satW[i] + _up(UP[key], (S_(i, [p]) for p in out)) >= S_(i, T) for i in S):
                res[key] = False
        if not coh:
            continue
        if res["sEJR"] and not all(satW[i] >= S_(i, T) for i in S):
            res["sEJR"] = False
        for key in ("EJR", "EJR_any", "EJR_one"):
            if res[key] and not any(satW[i] + _up(UP[key], (S_(i, [p]) for p in out)) >= S_(i, T) for i in S):
                res[key] = False
    return res


Defs.evaluate_setfn = _evaluate_setfn


# ----------------------------------------------------------------------------------------------
# the real library


def _upf(kind):
    if kind is None:
        return None
    if kind == "any":
        return lambda x: min(x, default=0)
    return lambda x: max(x, default=0)


def impl_answers(case: Case, inst, prof, projs, sat, W):
    import pabutools.analysis.justifiedrepresentation as jr

    sc = core.sat_class(sat)
    alloc = [projs[n] for n in W]
    out = {}
    for key in KEYS:
        try:
            if key.startswith("core"):
                out[key] = bool(jr.is_in_core(inst, prof, sc, alloc, up_to_func=_upf(UP[key])))
            elif case.btype == "app":
                f = {"sEJR": jr.is_strong_EJR_approval, "EJR": jr.is_EJR_approval, "EJR_any": jr.is_EJR_any_approval,
                     "EJR_one": jr.is_EJR_one_approval, "PJR": jr.is_PJR_approval, "PJR_any": jr.is_PJR_any_approval,
                     "PJR_one": jr.is_PJR_one_approval}[key]
                out[key] = bool(f(inst, prof, sc, alloc))
            else:
                f = {"sEJR": jr.is_strong_EJR_cardinal, "EJR": jr.is_EJR_cardinal, "EJR_any": jr.is_EJR_any_cardinal,
                     "EJR_one": jr.is_EJR_one_cardinal, "PJR": jr.is_PJR_cardinal, "PJR_any": jr.is_PJR_any_cardinal,
                     "PJR_one": jr.is_PJR_one_cardinal}[key]
                out[key] = bool(f(inst, prof, alloc))
        except Exception as e:  # noqa: BLE001
            out[key] = "err:" + core.err_enum(e)
    return out


def checker_name(case, key):
    if key.startswith("core"):
        return "is_in_core"
    base = {"sEJR": "is_strong_EJR", "EJR": "is_EJR", "EJR_any": "is_EJR_any", "EJR_one": "is_EJR_one", "PJR": "is_PJR",
            "PJR_any": "is_PJR_any", "PJR_one": "is_PJR_one"}[key]
    return base + ("_approval" if case.btype == "app" else "_cardinal")


def bits(d):
    return "".join(("1" if d.get(k, "-") is True else "0" if d.get(k, "-") is False else "-" if d.get(k, "-") == "-" else "E") for k in KEYS)


# ----------------------------------------------------------------------------------------------
# generation


def gen_case(rng: random.Random, n_hi=5, m_hi=5):
    sub = rng.getrandbits(48)
    r = random.Random(sub)
    btype = "app" if r.random() < 0.6 else "card"
    m = r.choice([1, 2, 2, 3, 3, 3, 4, 4, 5][: max(1, 2 * m_hi - 1)])
    m = min(m, m_hi)
    pool = r.choice([[1, 2, 3], [1, 1, 2], [2, 3, 5], [F(1, 2), 1, F(3, 2)], [2], [1, 2, 4], [1, 3, F(5, 3)]])
    names = r.sample(core.NAME_POOL, m)
    projects = [(nm, F(r.choice(pool))) for nm in names]
    n = r.choice([1, 2, 2, 3, 3, 3, 4, 4, 4, 5, 5])
    n = min(n, n_hi)
    total = sum((c for _, c in projects), F(0))
    # budgets that make "cost(T) * n <= |S| * budget" tight: multiples of n/|S| of subset sums, the total, small numbers
    k = r.randint(1, m)
    ssum = sum((c for _, c in r.sample(projects, k)), F(0))
    s = r.randint(1, n)
    budget = r.choice([ssum, ssum * n / s, total, total / 2, F(r.randint(1, 8)), ssum * n / s + F(1, 2), max(ssum * n / s - F(1, 2), F(1, 2))])
    if budget <= 0:
        budget = F(1)
    if btype == "app":
        ballots = core.gen_ballots(r, "app", names, n, n)
        # cohesive structure: with some probability give a block of voters a common core
        if r.random() < 0.5 and n >= 2:
            common = r.sample(names, r.randint(1, min(2, m)))
            for i in r.sample(range(n), r.randint(2, n)):
                ballots[i] = sorted(set(ballots[i]) | set(common))
    else:
        ballots = core.gen_ballots(r, "card", names, n, n, full_scores=True)
    return Case(projects, budget, btype, ballots, seed=sub)


def feasible_allocations(case: Case):
    out = []
    for k in range(len(case.names) + 1):
        for W in itertools.combinations(case.names, k):
            if sum((case.cost[p] for p in W), F(0)) <= case.budget:
                out.append(list(W))
    return out


def model_line(case: Case, entries, sat, W):
    return f"jr {case.enc_common(entries)} sat={sat} W={'.'.join(str(i) for i in sorted(case.ids(W)))}"


# ----------------------------------------------------------------------------------------------


def check_case(ctx, case: Case, lines, alloc_cap=None, do_model=True):
    rng = random.Random(case.seed)
    allocs = feasible_allocations(case)
    if alloc_cap is not None and len(allocs) > alloc_cap:
        allocs = rng.sample(allocs, alloc_cap)
    builds = {}
    for multi in (False, True):
        inst, projs = core.build_instance(case)
        prof = core.build_profile(case, inst, projs, multi=multi)
        builds[multi] = (inst, projs, prof, core.profile_entries(case, prof))
    for sat in SATS[case.btype] + (["CC_Sat"] if case.btype == "app" and case.seed % 4 == 0 else []):
        defs = Defs(case, sat)
        for W in allocs:
            want = defs.evaluate(W)
            for multi in (False, True):
                inst, projs, prof, entries = builds[multi]
                got = impl_answers(case, inst, prof, projs, sat, W)
                ctx.evaluations += 1
                ctx.count("btype", case.btype)
                ctx.count("sat", sat)
                ctx.count("n", str(len(case.ballots)))
                ctx.count("m", str(len(case.names)))
                ctx.count("multi", str(multi))
                ctx.count("answers", bits(got))
                cfg = {"sat": sat, "multi": multi, "W": W}
                if defs.any_cohesive and len(set(got.values())) > 1:
                    ctx.nontrivial.add((case.key(), tuple(W), sat, multi))
                for key in (KEYS if sat not in SETFN else VOTER_KEYS):
                    if got[key] != want[key]:
                        ctx.violations.append({
                            "what": f"{checker_name(case, key)} ({key}) answers {got[key]} but the definition over all groups says {want[key]}",
                            "case": case.to_json(), "cfg": cfg, "impl": got[key], "expected": want[key],
                            "sig": {"call": checker_name(case, key), "notion": key, "multi": multi, "sat": sat, "kind": "definition"},
                        })
                for a, b in IMPLICATIONS:
                    if sat in SETFN and (a not in VOTER_KEYS or b not in VOTER_KEYS):
                        continue
                    if got[a] is True and got[b] is False:
                        ctx.violations.append({
                            "what": f"implication {a} => {b} broken on the library's answers",
                            "case": case.to_json(), "cfg": cfg, "impl": bits(got), "expected": bits(want),
                            "sig": {"call": checker_name(case, a), "notion": a, "implies": b, "multi": multi, "sat": sat, "kind": "lattice"},
                        })
                if do_model and sat not in SETFN:
                    lines.append((model_line(case, entries, sat, W), bits(got), bits(want), case, cfg))
    # Equal Shares
    if case.btype == "app":
        mes_part(ctx, case, builds)


MES_MODES = ("resolute", "irresolute", "iterated", "iterated_irresolute")
MES_INCS = (F(1), F(1, 2), F(1, 3))


def mes_outcomes(inst, prof, sc, mode, inc):
    """the allocations the library returns in the given mode, as a list of allocations"""
    from pabutools.rules import method_of_equal_shares

    kw = {}
    if mode in ("irresolute", "iterated_irresolute"):
        kw["resoluteness"] = False
    if mode in ("iterated", "iterated_irresolute"):
        kw["voter_budget_increment"] = core.to_num(inc)
    out = method_of_equal_shares(inst, prof, sat_class=sc, **kw)
    return list(out) if kw.get("resoluteness") is False else [out]


def mes_part(ctx, case, builds):
    """(E) every allocation Equal Shares returns — resolute, irresolute (every allocation of the list), iterated
    (`voter_budget_increment`) and iterated irresolute — passes the notion of its measure, judged against the ORIGINAL
    instance (Properties/C14Mes.lean, C14MesVariants.lean)"""
    import pabutools.analysis.justifiedrepresentation as jr

    inc = MES_INCS[case.seed % len(MES_INCS)] if isinstance(case.seed, int) else MES_INCS[0]
    for sat, key, checker in (("Cost_Sat", "EJR_any", jr.is_EJR_any_approval), ("Cardinality_Sat", "EJR_one", jr.is_EJR_one_approval)):
        defs = None
        for multi in (False, True):
            inst, projs, prof, _ = builds[multi]
            sc = core.sat_class(sat)
            plain = None
            for mode in MES_MODES:
                cfg = {"sat": sat, "multi": multi, "mes": True, "mode": mode, "inc": q2s(inc)}
                try:
                    Ws = mes_outcomes(inst, prof, sc, mode, inc)
                except Exception as e:  # noqa: BLE001
                    ctx.violations.append({"what": f"method_of_equal_shares ({mode}) raised {e!r}", "case": case.to_json(), "cfg": cfg,
                                           "sig": {"call": "method_of_equal_shares", "sat": sat, "multi": multi, "kind": "mes", "mode": mode}})
                    continue
                ctx.count("mes", sat)
                ctx.count("mes_mode", mode)
                names = [sorted(p.name for p in W) for W in Ws]
                if mode == "resolute":
                    plain = names[0]
                elif mode == "irresolute":
                    ctx.count("mes_irresolute_outcomes", str(min(len(names), 4)))
                elif mode == "iterated" and plain is not None:
                    ctx.count("mes_iterated_vs_plain", "differs" if names[0] != plain else "same")
                if defs is None:
                    defs = Defs(case, sat)
                for W, Wn in zip(Ws, names):
                    ctx.evaluations += 1
                    ok_lib = bool(checker(inst, prof, sc, list(W)))
                    ok_def = defs.evaluate(Wn)[key]
                    ok_feas = sum((case.cost[p] for p in Wn), F(0)) <= case.budget
                    if len(Wn) > 0 and defs.any_cohesive:
                        if mode == "resolute":
                            ctx.nontrivial.add((case.key(), "mes", sat, multi))
                        elif (mode == "irresolute" and len(names) >= 2) or (mode != "irresolute" and plain is not None and Wn != plain):
                            # a real tie / an iterated run that went beyond the plain rule's outcome
                            ctx.nontrivial.add((case.key(), "mes", sat, multi, mode, tuple(Wn)))
                    if not (ok_lib and ok_def and ok_feas):
                        ctx.violations.append({
                            "what": f"Equal Shares ({mode}) outcome {Wn} with {sat} fails {key} (library checker: {ok_lib}, definition: {ok_def}, "
                                    f"feasible: {ok_feas})",
                            "case": case.to_json(), "cfg": dict(cfg, W=Wn), "impl": ok_lib, "expected": True,
                            "sig": {"call": "method_of_equal_shares", "notion": key, "sat": sat, "multi": multi, "kind": "mes", "mode": mode},
                        })


def flush_model(ctx, lines):
    if not lines:
        return
    outs = core.run_driver([l[0] for l in lines])
    for (line, got, want, case, cfg), out in zip(lines, outs):
        parts = out.strip().split(" ")
        # answer: "ok <checker bits> <definition bits>"
        m_chk = parts[1] if len(parts) > 1 else out
        m_def = parts[2] if len(parts) > 2 else out
        if m_chk != got:
            ctx.disagreements.append({"line": line, "impl": got, "model": m_chk, "what": "model checkers != library checkers",
                                      "case": case.to_json(), "cfg": cfg})
        if m_def != want:
            ctx.disagreements.append({"line": line, "impl": want, "model": m_def, "what": "model definitions != independent brute force",
                                      "case": case.to_json(), "cfg": cfg})
        ctx.sample(f"{line} -> impl {got} | model checkers {m_chk} definitions {m_def} | brute force {want}")


# ----------------------------------------------------------------------------------------------
# (G) the enumeration of cohesive groups


def brute_cohesive(case: Case, entries):
    """all (entry positions, project names) pairs that are cohesive: both non-empty, cost(T) * n <= (sum of multiplicities) * budget,
    approval ballots: every ballot of the group contains all of T (cardinal ballots claim their pointwise minimum: nothing more)"""
    n = sum(m for _, m in entries)
    out = []
    for r in range(1, len(entries) + 1):
        for D in itertools.combinations(range(len(entries)), r):
            size = sum(entries[i][1] for i in D)
            for k in range(1, len(case.names) + 1):
                for T in itertools.combinations(case.names, k):
                    if not sum((case.cost[p] for p in T), F(0)) * n <= size * case.budget:
                        continue
                    if case.btype == "app" and not all(p in entries[i][0] for i in D for p in T):
                        continue
                    out.append((tuple(D), tuple(sorted(T))))
    return sorted(out)


def cohesive_part(ctx, case: Case, builds, lines, rng):
    import pabutools.analysis.cohesiveness as coh

    for multi in (False, True):
        inst, projs, prof, entries = builds[multi]
        pos = {id(b): i for i, b in enumerate(prof)}
        cfg = {"part": "cohesive", "multi": multi}
        sig = {"call": "cohesive_groups", "multi": multi, "kind": "cohesive_groups"}
        try:
            got = sorted((tuple(sorted(pos[id(b)] for b in group)), tuple(sorted(p.name for p in pset)))
                         for group, pset in coh.cohesive_groups(inst, prof))
        except Exception as e:  # noqa: BLE001
            got = "err:" + core.err_enum(e)
        want = brute_cohesive(case, entries)
        ctx.evaluations += 1
        ctx.count("cohesive_groups", ("multi" if multi else "list") + "/" + ("some" if want else "none"))
        if want and len(entries) >= 2 and len(case.names) >= 2:
            ctx.nontrivial.add((case.key(), "cohesive", multi))
        if got != want:
            ctx.violations.append({
                "what": f"cohesive_groups returns {len(got) if isinstance(got, list) else got} pairs, the definition gives {len(want)}",
                "case": case.to_json(), "cfg": cfg, "impl": got if isinstance(got, str) else [list(map(list, g)) for g in got][:40],
                "expected": [list(map(list, g)) for g in want][:40], "sig": sig})
        lines.append((f"cohesive {case.enc_common(entries)}", got, case, cfg))
        # the two predicates on a few sampled (group, project set) pairs — cardinal: with an arbitrary alpha
        ballots = list(prof)
        for _ in range(3):
            D = [i for i in range(len(ballots)) if rng.random() < 0.6]
            T = [p for p in case.names if rng.random() < 0.5]
            size = sum(entries[i][1] for i in D)
            n = sum(m for _, m in entries)
            large = sum((case.cost[p] for p in T), F(0)) * n <= size * case.budget
            try:
                if case.btype == "app":
                    g = bool(coh.is_cohesive_approval(inst, prof, [projs[p] for p in T], [ballots[i] for i in D]))
                    w = large and bool(D) and bool(T) and all(p in entries[i][0] for i in D for p in T)
                    alpha = None
                else:
                    alpha = {p: F(rng.choice([0, 1, 1, 2, 3])) for p in T}
                    g = bool(coh.is_cohesive_cardinal(inst, prof, [projs[p] for p in T], [ballots[i] for i in D],
                                                      {projs[p]: core.to_num(a) for p, a in alpha.items()}))
                    w = large and bool(D) and bool(T) and all(entries[i][0][p] >= alpha[p] for i in D for p in T)
            except Exception as e:  # noqa: BLE001
                g, w = "err:" + core.err_enum(e), (large and bool(D) and bool(T))
                if not isinstance(w, bool):
                    w = bool(w)
            ctx.evaluations += 1
            ctx.count("is_cohesive", f"{case.btype}/{w}")
            if g != w:
                ctx.violations.append({
                    "what": f"is_cohesive_{'approval' if case.btype == 'app' else 'cardinal'} answers {g} for group {D} and projects {T}, the predicate says {w}",
                    "case": case.to_json(), "cfg": dict(cfg, D=D, T=T, alpha=None if alpha is None else {p: q2s(a) for p, a in alpha.items()}),
                    "impl": g, "expected": w,
                    "sig": {"call": "is_cohesive_approval" if case.btype == "app" else "is_cohesive_cardinal", "multi": multi, "kind": "cohesive_predicate"}})
        # helpers no checker calls: behaviour recorded, not judged (outside the property)
        if case.btype == "app":
            T = [p for p in case.names if rng.random() < 0.5]
            try:
                r = coh.maximal_cohesive_for_projects_approval(inst, prof, [projs[p] for p in T])
                r = None if r is None else sorted(pos[id(b)] for b in r)
            except Exception as e:  # noqa: BLE001
                r = "err:" + core.err_enum(e)
            D = [i for i in range(len(entries)) if all(p in entries[i][0] for p in T)]
            size = sum(entries[i][1] for i in D)
            n = sum(m for _, m in entries)
            w = D if (D and sum((case.cost[p] for p in T), F(0)) * n <= size * case.budget) else None
            ctx.count("outside_property:maximal_cohesive_for_projects_approval",
                      ("multi" if multi else "list") + "/" + ("as_definition" if r == w else "differs(len(res)_ignores_multiplicity)" if multi else "differs"))
        try:
            coh.maximal_cohesive_groups(inst, prof)
            ctx.count("outside_property:maximal_cohesive_groups", case.btype + "/returns")
        except Exception as e:  # noqa: BLE001
            ctx.count("outside_property:maximal_cohesive_groups", case.btype + "/raises " + type(e).__name__)


def flush_cohesive(ctx, lines):
    if not lines:
        return
    outs = core.run_driver([l[0] for l in lines])
    for (line, got, case, cfg), out in zip(lines, outs):
        o = out.strip()
        model = None
        if o == "ok" or o.startswith("ok "):
            body = o[3:].strip()
            model = []
            for tok in (body.split(";") if body else []):
                g, t = tok.split(":")
                names = sorted(case.names[int(i)] for i in t.split(".") if i != "")
                model.append((tuple(sorted(int(i) for i in g.split(".") if i != "")), tuple(names)))
            model = sorted(model)
        if model != got:
            ctx.disagreements.append({"line": line, "impl": str(got)[:600], "model": o[:600], "what": "JR.cohesiveGroupsBy != cohesive_groups",
                                      "case": case.to_json(), "cfg": cfg})
        ctx.sample(f"{line} -> impl {len(got) if isinstance(got, list) else got} pairs | model {o[:200]}")


def run(ctx):
    ctx.rule = RULE
    import pabutools

    ctx.extra["library_under_test"] = pabutools.__file__
    n = ctx.scale(250, 2000)
    cap = ctx.scale(12, None)
    lines = []
    coh_lines = []
    coh_rng = random.Random(ctx.rng.getrandbits(48))
    for _ in range(n):
        if ctx.budget_s is not None and ctx.elapsed() > ctx.budget_s:
            break
        case = gen_case(ctx.rng)
        big = len(case.ballots) * len(case.names) >= 16
        check_case(ctx, case, lines, alloc_cap=(cap if big else None))
        cohesive_case(ctx, case, coh_lines, coh_rng)
        if ctx.rng.random() < 0.3 and case.projects:
            # a second EDITION of the same election analysed in the same process: identical project names, ballots and
            # budget, other costs (anything remembered between calls under a key that ignores the costs shows here)
            r2 = random.Random(ctx.rng.getrandbits(32))
            pool = [1, 2, 3, F(1, 2), 4, F(3, 2)]
            recost = Case([(nm, F(r2.choice(pool))) for nm, _ in case.projects], case.budget, case.btype, case.ballots, seed=case.seed)
            ctx.count("editions", "recosted")
            check_case(ctx, recost, lines, alloc_cap=(cap if big else None))
    flush_model(ctx, lines)
    flush_cohesive(ctx, coh_lines)


def cohesive_case(ctx, case: Case, lines, rng):
    builds = {}
    for multi in (False, True):
        inst, projs = core.build_instance(case)
        prof = core.build_profile(case, inst, projs, multi=multi)
        builds[multi] = (inst, projs, prof, core.profile_entries(case, prof))
    cohesive_part(ctx, case, builds, lines, rng)


def search(ctx, disagreements):
    ctx.rule = RULE
    for _ in range(2000):
        if ctx.budget_s is not None and ctx.elapsed() > ctx.budget_s:
            break
        case = gen_case(ctx.rng, n_hi=4, m_hi=4)
        check_case(ctx, case, [], do_model=False)


def replay(payload):
    case = Case.from_json(payload["case"])
    cfg = payload["cfg"]
    if cfg.get("part") == "cohesive":
        from ..vcheck import Ctx

        ctx = Ctx("C14", "quick", 0)
        cohesive_case(ctx, case, [], random.Random(case.seed))
        if ctx.violations:
            return False, "still fails: " + ctx.violations[0]["what"]
        return True, "property holds on the replayed input: cohesive_groups = brute-force enumeration"
    sat, multi = cfg["sat"], cfg.get("multi", False)
    inst, projs = core.build_instance(case)
    prof = core.build_profile(case, inst, projs, multi=multi)
    defs = Defs(case, sat)
    if cfg.get("mes"):
        import pabutools.analysis.justifiedrepresentation as jr
        from ..core import s2q

        sc = core.sat_class(sat)
        mode = cfg.get("mode", "resolute")
        Ws = mes_outcomes(inst, prof, sc, mode, s2q(cfg["inc"]) if "inc" in cfg else F(1))
        key = "EJR_any" if sat == "Cost_Sat" else "EJR_one"
        chk = jr.is_EJR_any_approval if sat == "Cost_Sat" else jr.is_EJR_one_approval
        ok = all(bool(chk(inst, prof, sc, list(W))) and defs.evaluate(sorted(p.name for p in W))[key]
                 and sum((case.cost[p.name] for p in W), F(0)) <= case.budget for W in Ws)
        return ok, (f"Equal Shares ({mode}) outcomes pass " + key) if ok else (f"still fails: an Equal Shares ({mode}) outcome fails " + key)
    W = cfg["W"]
    got = impl_answers(case, inst, prof, projs, sat, W)
    want = defs.evaluate(W)
    bad = [k for k in KEYS if got[k] != want[k]] + [f"{a}=>{b}" for a, b in IMPLICATIONS if got[a] is True and got[b] is False]
    if bad:
        return False, f"still fails: {bad} library {bits(got)} definitions {bits(want)}"
    return True, f"property holds on the replayed input: library {bits(got)} = definitions {bits(want)}"
