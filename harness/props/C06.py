"""C06 — profiles and multiprofiles are interchangeable."""
from __future__ import annotations

import itertools
import json
import math
import random
from fractions import Fraction as F

from .. import core, history, oracle, rulegen, rules, ruleprops
from ..core import Case, toF
from ..ruleprops import violation

RULE = ("seeded elections in which ballots repeat (some multiplicity >=2), all four ballot types; every call is made on the profile and on "
        "profile.as_multiprofile(): all rules (selected set), every shipped measure (value of every subset per distinct ballot, totals), "
        "every public analysis function (averages, medians, Gini, histogram, totals, positive share, category proportionality) and the "
        "proportionality checkers on small elections; the rule outcomes are also diffed with the Lean model run on the compressed form; "
        "non-trivial = at least one ballot with multiplicity >=2 and >=2 distinct ballots; plus edit-in-place histories (all four ballot "
        "types): a profile is converted (as_multiprofile / multiprofile constructor / extend / SatisfactionMultiProfile(profile=...)), "
        "some voters' ballots are edited in place (also at constant size), the profile is converted again and every comparison above is "
        "repeated on the new pair, together with the multiset of ballots of the multiprofile against the voters kept on the side")
ASSUMPTIONS = ["float-valued statistics compared with relative tolerance 1e-9", "MIP-based measures are exercised in C10 (solver isolation)"]


def gen_case(rng, small=False):
    for _ in range(50):
        case = core.gen_election(rng, m_lo=1, m_hi=(3 if small else 5), n_hi=(4 if small else 7))
        ent = case.entries()
        if any(m >= 2 for _, m in ent):
            return case
    return case


def close(a, b):
    if isinstance(a, float) or isinstance(b, float):
        a, b = float(a), float(b)
        if math.isnan(a) and math.isnan(b):
            return True
        return abs(a - b) <= 1e-9 * max(1.0, abs(a), abs(b))
    try:
        return toF(a) == toF(b)
    except Exception:  # noqa: BLE001
        return a == b


def same(a, b):
    if isinstance(a, dict) and isinstance(b, dict):
        return set(map(str, a)) == set(map(str, b)) and all(same(a[k], b[[k2 for k2 in b if str(k2) == str(k)][0]]) for k in a)
    if isinstance(a, (list, tuple)) and isinstance(b, (list, tuple)):
        return len(a) == len(b) and all(same(x, y) for x, y in zip(a, b))
    return close(a, b)


def call2(fn, argsP, argsM):
    """call on both forms; exceptions are observations too"""
    def one(args):
        try:
            return ("ok", fn(*args))
        except Exception as e:  # noqa: BLE001
            return ("err", type(e).__name__)
    return one(argsP), one(argsM)


def analysis_calls(case, inst, projs, rng):
    """(name, builder(profile) -> args) for the public analysis functions applicable to the ballot type"""
    import pabutools.analysis as A
    import pabutools.analysis.profileproperties as PP
    import pabutools.analysis.votersatisfaction as VS

    bt = case.btype
    names = case.names
    # a feasible allocation as outcome
    alloc_names = core.gen_init(rng, case) or (names[:1] if names and case.cost[names[0]] <= case.budget else [])
    alloc = [projs[n] for n in alloc_names]
    sats = list(core.SAT_BY_TYPE[bt]) + [s for s in core.SAT_NONADD[bt] if s == "CC_Sat"]
    if bt != "app":
        sats += ["Effort_Sat", "Cost_Sat"]  # the approval-style measures only ask `project in ballot`: they apply to every ballot type
    calls = []
    calls.append(("avg_ballot_length", A.avg_ballot_length, lambda p: (inst, p)))
    calls.append(("median_ballot_length", A.median_ballot_length, lambda p: (inst, p)))
    calls.append(("avg_ballot_cost", A.avg_ballot_cost, lambda p: (inst, p)))
    calls.append(("median_ballot_cost", A.median_ballot_cost, lambda p: (inst, p)))
    if bt == "app":
        calls.append(("avg_approval_score", A.avg_approval_score, lambda p: (inst, p)))
        calls.append(("median_approval_score", A.median_approval_score, lambda p: (inst, p)))
        calls.append(("percent_non_empty_handed", A.percent_non_empty_handed, lambda p: (inst, p, alloc)))
    if bt in ("card", "cum"):
        calls.append(("avg_total_score", A.avg_total_score, lambda p: (inst, p)))
        calls.append(("median_total_score", A.median_total_score, lambda p: (inst, p)))
    calls.append(("votes_count_by_project", PP.votes_count_by_project, lambda p: (p,)))
    calls.append(("voter_flow_matrix", PP.voter_flow_matrix, lambda p: (inst, p)))
    for s in sats:
        sc = core.sat_class(s)
        calls.append((f"avg_satisfaction[{s}]", A.avg_satisfaction, lambda p, sc=sc: (inst, p, alloc, sc)))
        calls.append((f"percent_positive_satisfaction[{s}]", VS.percent_positive_satisfaction, lambda p, sc=sc: (p, alloc, sc)))
        calls.append((f"gini_coefficient_of_satisfaction[{s}]", A.gini_coefficient_of_satisfaction, lambda p, sc=sc: (inst, p, alloc, sc)))
        mx = rng.choice([1, 2, 3, 5])
        nb = rng.choice([2, 3, 5, 21])
        calls.append((f"satisfaction_histogram[{s}]", A.satisfaction_histogram, lambda p, sc=sc, mx=mx, nb=nb: (inst, p, alloc, sc, mx, nb)))
    if bt == "app" and inst.categories and all(len(b) > 0 and sum(case.cost[x] for x in b) > 0 for b in case.ballots):
        calls.append(("category_proportionality", A.category_proportionality, lambda p: (inst, p, alloc)))
    return calls


def jr_calls(case, inst, projs, rng):
    import pabutools.analysis.justifiedrepresentation as J

    names = case.names
    alloc_names = core.gen_init(rng, case)
    alloc = [projs[n] for n in alloc_names]
    out = []
    if case.btype == "app":
        for s in ("Cost_Sat", "Cardinality_Sat"):
            sc = core.sat_class(s)
            out.append((f"is_in_core[{s}]", J.is_in_core, lambda p, sc=sc: (inst, p, sc, alloc)))
            for fn in ("is_strong_EJR_approval", "is_EJR_approval", "is_EJR_any_approval", "is_EJR_one_approval", "is_PJR_approval",
                       "is_PJR_any_approval", "is_PJR_one_approval"):
                out.append((f"{fn}[{s}]", getattr(J, fn), lambda p, sc=sc: (inst, p, sc, alloc)))
    return out


def check_election(ctx, case, small, objs=None):
    """objs = (inst, projs, P, M): compare these long-lived objects (a history) instead of freshly built ones"""
    rng = ctx.rng
    vs = []
    if objs is not None:
        inst, projs, P, M = objs
    else:
        inst, projs = core.build_instance(case)
        if case.btype == "app" and rng.random() < 0.5:
            cats = ["c1", "c2", "c3"]
            inst.categories = set(cats)
            for p in inst:
                p.categories = set(rng.sample(cats, rng.randint(0, 2)))
        P = core.build_profile(case, inst, projs, multi=False)
        M = P.as_multiprofile()
    # measures
    bt = case.btype
    for s in list(core.SAT_BY_TYPE[bt]) + core.SAT_NONADD[bt] + core.SAT_FLOAT_ADD.get(bt, []) + (["Effort_Sat", "Cost_Sat"] if bt != "app" else []):
        sc = core.sat_class(s)
        try:
            spP = P.as_sat_profile(sc)
            spM = M.as_sat_profile(sc)
        except Exception as e:  # noqa: BLE001
            vs.append(violation(f"as_sat_profile({s}) raised {e!r}", case, {"call": "as_sat_profile", "sat": s}, sig={"call": "as_sat_profile", "sat": s}))
            continue
        valsM = {}
        for sm in spM:
            valsM[_bkey(case, sm.ballot)] = sm
        # the direct conversion list of ballots -> satisfaction multiprofile must describe the same voters
        from collections import Counter
        from pabutools.election import SatisfactionMultiProfile

        try:
            spD = SatisfactionMultiProfile(instance=inst, profile=P, sat_class=sc)
            gotD = Counter()
            for sm in spD:
                gotD[_bkey(case, sm.ballot)] += spD.multiplicity(sm)
            wantD = Counter(_bkey(case, sp.ballot) for sp in spP)
            if gotD != wantD:
                vs.append(violation(f"SatisfactionMultiProfile(profile=..., sat_class={s}) does not hold the voters of the profile", case, {"call": "SatisfactionMultiProfile", "sat": s},
                                    impl=sorted(map(str, gotD.items())), expected=sorted(map(str, wantD.items())), sig={"call": "SatisfactionMultiProfile", "sat": s}))
        except Exception as e:  # noqa: BLE001
            vs.append(violation(f"SatisfactionMultiProfile(profile=..., sat_class={s}) raised {e!r}", case, {"call": "SatisfactionMultiProfile", "sat": s}, sig={"call": "SatisfactionMultiProfile", "sat": s, "err": type(e).__name__}))
        subsets = [list(c) for r in range(min(len(case.names), 3) + 1) for c in itertools.combinations(case.names, r)]
        bad = False
        for sp in spP:
            k = _bkey(case, sp.ballot)
            sm = valsM.get(k)
            if sm is None:
                vs.append(violation(f"multiprofile has no entry for a ballot of the profile ({s})", case, {"call": "as_sat_profile", "sat": s}, sig={"call": "multi_entries", "sat": s}))
                bad = True
                break
            for S in subsets:
                Sp = [projs[n] for n in S]
                if not close(sp.sat(Sp), sm.sat(Sp)):
                    vs.append(violation(f"{s}: satisfaction of a voter for {S} differs between profile and multiprofile", case, {"call": "sat", "sat": s},
                                        impl=str(sm.sat(Sp)), expected=str(sp.sat(Sp)), sig={"call": "sat", "sat": s}))
                    bad = True
                    break
            if bad:
                break
        ctx.count("measures_compared", s)
        for S in subsets[:6]:
            Sp = [projs[n] for n in S]
            if not close(spP.total_satisfaction(Sp), spM.total_satisfaction(Sp)):
                vs.append(violation(f"{s}: total satisfaction differs between profile and multiprofile", case, {"call": "total_satisfaction", "sat": s}, sig={"call": "total_satisfaction", "sat": s}))
                break
        # `remove_satisfied` (the voters whose satisfaction with a set stays below a bound) on both forms: the same number of
        # voters, with the same total satisfaction, remain (round 7, C06-r7B: multiplicities reset while filtering a multiprofile)
        try:
            bound = {nm: rng.choice([0, 1, 1, 2, 3]) for nm in {sp.ballot.name for sp in spP} | {sm.ballot.name for sm in spM}}
            Sp = [projs[n] for n in subsets[rng.randrange(len(subsets))]]
            rP, rM = spP.remove_satisfied(bound, Sp), spM.remove_satisfied(bound, Sp)
            nP, nM = sum(rP.multiplicity(x) for x in rP), sum(rM.multiplicity(x) for x in rM)
            allp = [projs[n] for n in case.names]
            if nP != nM or type(rM) is not type(spM) or not close(rP.total_satisfaction(allp), rM.total_satisfaction(allp)):
                vs.append(violation(f"{s}: remove_satisfied leaves {nM} voters (total satisfaction {rM.total_satisfaction(allp)}) of the multiprofile and "
                                    f"{nP} ({rP.total_satisfaction(allp)}) of the profile", case, {"call": "remove_satisfied", "sat": s},
                                    sig={"call": "remove_satisfied", "sat": s}))
            ctx.count("remove_satisfied", "non-empty" if nP else "empty")
        except Exception as e:  # noqa: BLE001
            vs.append(violation(f"{s}: remove_satisfied raised {e!r}", case, {"call": "remove_satisfied", "sat": s}, sig={"call": "remove_satisfied", "sat": s, "err": type(e).__name__}))
    # analysis functions
    calls = analysis_calls(case, inst, projs, rng)
    if small:
        calls += jr_calls(case, inst, projs, rng)
    for name, fn, mk in calls:
        rP, rM = call2(fn, mk(P), mk(M))
        ctx.count("analysis_calls", name.split("[")[0])
        if rP[0] != rM[0] or (rP[0] == "ok" and not same(rP[1], rM[1])) or (rP[0] == "err" and rP[1] != rM[1]):
            vs.append(violation(f"{name} differs between profile and multiprofile", case, {"call": name}, impl=str(rM[1])[:200], expected=str(rP[1])[:200],
                                sig={"call": name.split("[")[0], "sat": (name.split("[")[1][:-1] if "[" in name else None)}))
    return vs


def _bkey(case, ballot):
    if case.btype == "app":
        return ("a",) + tuple(sorted(p.name for p in ballot))
    if case.btype in ("card", "cum"):
        return ("c",) + tuple(sorted((p.name, toF(s)) for p, s in ballot.items()))
    return ("o",) + tuple(p.name for p in ballot)


# ----------------------------------------------------------------------------------------------
# edit-in-place histories: convert, edit some voters' ballots in place (often at constant size), convert again


CONVERSIONS = ["as_multiprofile", "as_multiprofile", "ctor_profile", "extend"]
SCORES = {"card": [0, 1, 1, 2, 3, F(1, 2), 5], "cum": [0, 1, 2, 3]}


def convert(P, inst, btype, how):
    """the list of ballots -> multiprofile conversions of the public API"""
    import pabutools.election as e

    if how == "as_multiprofile":
        return P.as_multiprofile()
    cls = {"app": e.ApprovalMultiProfile, "card": e.CardinalMultiProfile, "cum": e.CumulativeMultiProfile, "ord": e.OrdinalMultiProfile}[btype]
    if how == "ctor_profile":
        return cls(instance=inst, profile=P)
    M = cls(instance=inst)
    M.extend(P)
    return M


def gen_edit(rng, btype, names, b):
    """one in-place edit of the ballot `b` (case form) as a JSON-able list, or None; constant-size edits are the frequent ones"""
    if btype == "app":
        ins, outs = sorted(b), [x for x in names if x not in b]
        r = rng.random()
        if r < 0.45 and ins and outs:
            return ["swap", rng.choice(ins), rng.choice(outs)]
        if r < 0.6 and outs:
            return ["add", rng.choice(outs)]
        if r < 0.7 and ins:
            return ["discard", rng.choice(ins)]
        if r < 0.85:
            new = rng.sample(names, len(b)) if rng.random() < 0.6 else [x for x in names if rng.random() < 0.5]
            return ["replace", new]
        return ["symdiff", [x for x in names if rng.random() < 0.4]]
    if btype in ("card", "cum"):
        keys, outs = list(b), [x for x in names if x not in b]
        r = rng.random()
        if r < 0.4 and keys:
            k = rng.choice(keys)
            return ["score", k, core.q2s(rng.choice([x for x in SCORES[btype] if F(x) != b[k]]))]
        if r < 0.65 and keys and outs:
            return ["rekey", rng.choice(keys), rng.choice(outs)]
        if r < 0.75 and outs:
            return ["score", rng.choice(outs), core.q2s(rng.choice(SCORES[btype]))]
        if r < 0.85 and keys:
            return ["pop", rng.choice(keys)]
        ks = rng.sample(names, len(b)) if rng.random() < 0.6 else [x for x in names if rng.random() < 0.5]
        return ["replace", [[k, core.q2s(rng.choice(SCORES[btype]))] for k in ks]]
    ins, outs = list(b), [x for x in names if x not in b]
    r = rng.random()
    if r < 0.35 and len(ins) >= 2:
        new = list(ins)
        while new == ins:
            rng.shuffle(new)
        return ["reorder", new]  # same projects, another ranking
    if r < 0.65 and ins and outs:
        a, c = rng.choice(ins), rng.choice(outs)
        return ["reorder", [c if x == a else x for x in ins]]  # one project replaced at the same rank
    if r < 0.8 and outs:
        return ["append", rng.choice(outs)]
    if r < 0.9 and ins:
        return ["pop", rng.choice(ins)]
    return ["reorder", rng.sample(names, rng.randint(0, len(names)))]


def edited(btype, b, op):
    """the ballot (case form) after `op`: the independent half of the history"""
    kind = op[0]
    if btype == "app":
        cur = list(b)
        if kind == "swap":
            if op[1] not in cur or op[2] in cur:
                raise ValueError(op)
            return [x for x in cur if x != op[1]] + [op[2]]
        if kind == "add":
            return cur + [op[1]] if op[1] not in cur else cur
        if kind == "discard":
            return [x for x in cur if x != op[1]]
        if kind == "replace":
            return list(dict.fromkeys(op[1]))
        if kind == "symdiff":
            return [x for x in cur if x not in op[1]] + [x for x in dict.fromkeys(op[1]) if x not in cur]
    elif btype in ("card", "cum"):
        cur = dict(b)
        if kind == "score":
            cur[op[1]] = F(op[2])
            return cur
        if kind == "rekey":
            if op[1] not in cur or op[2] in cur:
                raise ValueError(op)
            cur[op[2]] = cur.pop(op[1])
            return cur
        if kind == "pop":
            cur.pop(op[1])
            return cur
        if kind == "replace":
            return {k: F(v) for k, v in op[1]}
    else:
        cur = list(b)
        if kind == "reorder":
            return list(op[1])
        if kind == "append":
            return cur + [op[1]] if op[1] not in cur else cur
        if kind == "pop":
            cur.remove(op[1])
            return cur
    raise ValueError(op)


def apply_edit(btype, ballot, op, projs):
    """the same edit on the real (mutable) ballot object, through its public mutators, in place"""
    kind = op[0]
    if btype == "app":
        if kind == "swap":
            ballot.remove(projs[op[1]])
            ballot.add(projs[op[2]])
        elif kind == "add":
            ballot.add(projs[op[1]])
        elif kind == "discard":
            ballot.discard(projs[op[1]])
        elif kind == "replace":
            ballot.clear()
            ballot.update(projs[x] for x in op[1])
        elif kind == "symdiff":
            ballot.symmetric_difference_update({projs[x] for x in op[1]})
        else:
            raise ValueError(op)
    elif btype in ("card", "cum"):
        if kind == "score":
            ballot[projs[op[1]]] = core.to_num(F(op[2]))
        elif kind == "rekey":
            ballot[projs[op[2]]] = ballot.pop(projs[op[1]])
        elif kind == "pop":
            ballot.pop(projs[op[1]])
        elif kind == "replace":
            ballot.clear()
            ballot.update({projs[k]: core.to_num(F(v)) for k, v in op[1]})
        else:
            raise ValueError(op)
    else:
        if kind == "reorder":
            ballot.clear()
            for x in op[1]:
                ballot.append(projs[x])
        elif kind == "append":
            ballot.append(projs[op[1]])
        elif kind == "pop":
            ballot.pop(projs[op[1]])
        else:
            raise ValueError(op)


def gen_edit_history(rng, small=False):
    """(initial case, history): history = {"conv", "cats", "rounds": [{"edits": [[voter, op], ...], "rule_cfg": cfg}]}; round 0 has no edit"""
    case = gen_case(rng, small=small)
    names = [n for n, _ in case.projects]
    raw = [(dict(b) if isinstance(b, dict) else list(b)) for b in case.ballots]
    hist = {"conv": rng.choice(CONVERSIONS), "cats": None, "rounds": []}
    if case.btype == "app" and rng.random() < 0.3:
        hist["cats"] = {n: rng.sample(["c1", "c2", "c3"], rng.randint(0, 2)) for n in names}
    for k in range(rng.choice([2, 2, 3])):
        edits = []
        if k > 0:
            for i in rng.sample(range(len(raw)), rng.randint(1, min(3, len(raw)))):
                op = gen_edit(rng, case.btype, names, raw[i])
                if op is not None:
                    edits.append([i, op])
                    raw[i] = edited(case.btype, raw[i], op)
        cur = Case(case.projects, case.budget, case.btype, [(dict(b) if isinstance(b, dict) else list(b)) for b in raw], case.seed)
        cfg = rulegen.gen_rule_cfg(rng, cur, rules=("mes", "phragmen", "greedy"), allow_refuse=False)
        if len(case.projects) > 5:
            cfg["res"] = True
        hist["rounds"].append({"edits": edits, "rule_cfg": ruleprops.cfg_json(cfg)})
    return case, hist


def play_edit_history(ctx, case, hist, small, full=True):
    """run the history on ONE profile object; yields (round, case now, violations) after every conversion"""
    from collections import Counter

    inst, projs = core.build_instance(case)
    if hist.get("cats"):
        inst.categories = {"c1", "c2", "c3"}
        for p in inst:
            p.categories = set(hist["cats"].get(p.name, []))
    P = core.build_profile(case, inst, projs, multi=False)
    raw = [(dict(b) if isinstance(b, dict) else list(b)) for b in case.ballots]
    for k, rnd in enumerate(hist["rounds"]):
        for i, op in rnd["edits"]:
            raw[i] = edited(case.btype, raw[i], op)
            apply_edit(case.btype, P[i], op, projs)
        cur = Case(case.projects, case.budget, case.btype, [(dict(b) if isinstance(b, dict) else list(b)) for b in raw], case.seed)
        want = Counter(cur.ballot_key(b) for b in cur.ballots)
        if Counter(_bkey(cur, b) for b in P) != want:
            raise AssertionError("harness: the edited ballot objects and the voters kept on the side diverged")
        vs = []
        hcfg = {"edit_history": hist, "round": k}
        try:
            M = convert(P, inst, case.btype, hist["conv"])
        except Exception as e:  # noqa: BLE001
            yield k, cur, [violation(f"conversion {hist['conv']} raised {e!r}", cur, dict(hcfg, call="convert"), sig={"call": "convert", "err": type(e).__name__})]
            return
        got = Counter()
        for fb in M:
            got[_bkey(cur, fb)] += M.multiplicity(fb)
        if got != want:
            vs.append(violation(f"the multiprofile obtained by {hist['conv']} does not hold the current voters of the profile (each distinct ballot once, with its multiplicity)",
                                cur, dict(hcfg, call="convert"), impl=sorted(map(str, got.items())), expected=sorted(map(str, want.items())), sig={"call": "convert"}))
        # one rule on both forms
        cfg = ruleprops.cfg_from_json(rnd["rule_cfg"])
        if got != want:
            cfg.pop("loads_per_voter", None)  # initial loads are given per ballot of the election; this multiprofile holds other ballots
        bP, bM = history.LiveBuilt(cur, inst, projs, P, False), history.LiveBuilt(cur, inst, projs, M, True)
        cP, cM = dict(cfg, multi=False), dict(cfg, multi=True)
        rulegen.fix_loads(cP, bP)
        rulegen.fix_loads(cM, bM)
        sP, sM = rules.canon(rules.impl_answer(bP, cP)[0]), rules.canon(rules.impl_answer(bM, cM)[0])
        if sP != sM:
            vs.append(violation("rule outcome differs between profile and multiprofile", cur, dict(cfg, **hcfg), impl=sM, expected=sP, sig={"call": "rule:" + cfg["rule"], "sat": cfg.get("sat")}))
        if full:
            for v in check_election(ctx, cur, small, objs=(inst, projs, P, M)):
                v["cfg"] = dict(v["cfg"], **hcfg)
                vs.append(v)
        yield k, cur, vs


def history_stream(ctx, n):
    rng = ctx.rng
    for j in range(n):
        if ctx.budget_s is not None and ctx.elapsed() > ctx.budget_s:
            break
        small = j % 5 == 0
        case, hist = gen_edit_history(rng, small=small)
        changed = False
        for k, cur, vs in play_edit_history(ctx, case, hist, small):
            ctx.evaluations += 1
            ctx.count("edit_history_conversions", hist["conv"])
            ctx.count("edit_history_btype", case.btype)
            for _, op in hist["rounds"][k]["edits"]:
                ctx.count("edit_history_ops", case.btype + ":" + op[0])
            for v in vs:
                # stored so that the replay re-runs the whole history from the initial election
                v["what"] = f"after conversion {k + 1} of an edit-in-place history: " + v["what"]
                v["current_case"] = v["case"]
                v["case"] = case.to_json()
                v["sig"] = dict(v.get("sig") or {}, history="ballots_edited_in_place")
                ctx.violations.append(v)
            changed = changed or (k > 0 and cur.key() != case.key())
        if changed and len(case.entries()) >= 2:
            ctx.nontrivial.add("edithist" + case.key() + json.dumps(hist, sort_keys=True, default=str))


def replay_history(payload):
    import types

    case = Case.from_json(payload["case"])
    hist = payload["cfg"]["edit_history"]
    upto = payload["cfg"].get("round")
    want = payload.get("sig", {}).get("call")
    small = len(case.ballots) <= 4 and len(case.projects) <= 3
    needs_full = not (want == "convert" or (want or "").startswith("rule:"))
    for seed in range(8 if needs_full else 1):
        ctx = types.SimpleNamespace(rng=random.Random(seed), count=lambda *a, **k: None)
        for k, cur, vs in play_edit_history(ctx, case, hist, small, full=needs_full):
            if upto is not None and k > upto:
                break
            vs = [v for v in vs if want is None or v["sig"].get("call") == want]
            if vs and (upto is None or k == upto):
                return False, f"still fails after conversion {k + 1}: " + vs[0]["what"]
    return True, "profile and multiprofile agree after every conversion of the replayed history"


def rule_pairs(ctx, n):
    rng = ctx.rng
    for _ in range(n):
        case = gen_case(rng)
        if rng.random() < 0.35:
            # larger elections with few distinct ballots: high multiplicities, several rounds, supporters running out of money
            case = core.gen_big_election(rng, btypes=("app", "app", "card"), m=(4, 8), n=(5, 10), distinct=3)
        cfg = rulegen.gen_rule_cfg(rng, case, rules=("mes", "mes", "phragmen", "phragmen", "greedy", "maxw"), allow_refuse=False)
        if cfg["rule"] in ("phragmen", "mes") and len(case.projects) <= 5 and rng.random() < 0.5:
            cfg["res"] = False  # the tie branches copy the voter records: multiplicities must survive the copy
        if not cfg["res"] and len(case.projects) > 5:
            cfg["res"] = True
        yield case, cfg


INSTANCE_NORMALISED = {"app": ["Relative_Cardinality_Sat", "Relative_Cost_Approx_Normaliser_Sat", "Relative_Cardinality_Sat", "Cost_Sat"],
                       "card": ["Additive_Cardinal_Sat"], "cum": ["Additive_Cardinal_Sat"], "ord": ["Additive_Borda_Sat"]}


def _both_forms(ctx, case, cfg, what, rebuild=None):
    outs = []
    for multi in (False, True):
        b = rules.Built(case, multi=multi)
        if rebuild is not None:
            rebuild(b, multi)
        c = dict(cfg, multi=multi)
        rulegen.fix_loads(c, b)
        a, _ = rules.impl_answer(b, c)
        outs.append(rules.canon(a))
    ctx.evaluations += 1
    if cfg["rule"] != "maxw" and outs[0] != outs[1]:
        ctx.violations.append(violation(what, case, cfg, impl=outs[1], expected=outs[0], sig={"call": "rule:" + cfg["rule"], "sat": cfg.get("sat"), "stream": cfg.get("stream")}))
    if len(case.entries()) >= 2:
        ctx.nontrivial.add(case.key() + json.dumps(ruleprops.cfg_json(cfg), sort_keys=True))
    return outs


def _detach(how, case):
    from pabutools.election import Instance

    def rebuild(b, multi):
        other = Instance() if how == "none" else Instance(list(b.inst), budget_limit=core.to_cost(case.budget * (F(1, 2) if how == "half" else 3)))
        b.prof = core.build_profile(case, other, b.projs, multi=multi)
    return rebuild


def detached_stream(ctx, n):
    rng = random.Random(ctx.rng.getrandbits(48))
    for _ in range(n):
        if ctx.budget_s is not None and ctx.elapsed() > ctx.budget_s:
            break
        case = core.gen_equalcost_election(rng, btypes=("app", "app", "app", "card", "ord")) if rng.random() < 0.5 else gen_case(rng)
        if len(case.entries()) == len(case.ballots) and case.ballots:
            case = Case(case.projects, case.budget, case.btype, list(case.ballots) + [case.ballots[0]] * rng.randint(1, 2), case.seed)
        cfg = rulegen.gen_rule_cfg(rng, case, rules=("mes", "greedy", "greedy"), allow_refuse=False, allow_float=False)
        if cfg.get("sat") != "CC_Sat":
            cfg["sat"] = rng.choice(INSTANCE_NORMALISED[case.btype])
        if not cfg["res"] and len(case.projects) > 5:
            cfg["res"] = True
        how = rng.choice(["none", "triple", "half"])
        cfg["stream"] = "detached:" + how
        ctx.count("stream", "profile attached to another instance (" + how + ")")
        _both_forms(ctx, case, cfg, "rule outcome differs between profile and multiprofile when the profile is attached to another instance than the one the rule is asked about",
                    rebuild=_detach(how, case))


def tie_profile_stream(ctx, n):
    from .C08 import tie_rich_election

    rng = random.Random(ctx.rng.getrandbits(48))
    for _ in range(n):
        if ctx.budget_s is not None and ctx.elapsed() > ctx.budget_s:
            break
        case = core.gen_scoretie_election(rng) if rng.random() < 0.45 else tie_rich_election(rng)
        if case.btype != "app":
            case = Case(case.projects, case.budget, "app", core.gen_ballots(rng, "app", [nm for nm, _ in case.projects], 2, 7, distinct_hi=3), case.seed)
        if len(case.entries()) == len(case.ballots) and case.ballots:
            case = Case(case.projects, case.budget, case.btype, list(case.ballots) + [rng.choice(case.ballots)] * rng.randint(1, 3), case.seed)
        cfg = rulegen.gen_rule_cfg(rng, case, rules=("greedy", "phragmen", "mes"), allow_refuse=False, allow_float=False)
        cfg["tie"] = "app_score"
        if not cfg["res"] and len(case.projects) > 5:
            cfg["res"] = True
        cfg["stream"] = "tie-rich:app_score"
        ctx.count("stream", "tie-rich elections with repeated ballots, app_score tie-breaking")
        _both_forms(ctx, case, cfg, "rule outcome differs between profile and multiprofile")


def run(ctx, n_rules=None, n_el=None, compare=True, n_hist=None):
    ctx.rule = RULE
    n_rules = n_rules or ctx.scale(3000, 15000)
    n_el = n_el or ctx.scale(250, 2500)
    # (a) rules: list profile vs multiprofile vs the model on the compressed form
    lines, info = [], []
    for case, cfg in rule_pairs(ctx, n_rules):
        if ctx.budget_s is not None and ctx.elapsed() > ctx.budget_s:
            break
        bP = rules.Built(case, multi=False)
        bM = rules.Built(case, multi=True)
        cP, cM = dict(cfg), dict(cfg)
        rulegen.fix_loads(cP, bP)
        rulegen.fix_loads(cM, bM)
        aP, _ = rules.impl_answer(bP, cP)
        aM, _ = rules.impl_answer(bM, cM)
        ctx.evaluations += 1
        ctx.count("rule", cfg["rule"])
        ctx.count("sat", cfg.get("sat") or "-")
        if len(case.entries()) >= 2:
            ctx.nontrivial.add(case.key() + json.dumps(ruleprops.cfg_json(cfg), sort_keys=True))
        sP, sM = rules.canon(aP), rules.canon(aM)
        if cfg["rule"] == "maxw":
            # the maximiser may pick different optimal sets; its welfare must agree (C04 checks optimality)
            continue
        if sP != sM:
            ctx.violations.append(violation("rule outcome differs between profile and multiprofile", case, cfg, impl=sM, expected=sP,
                                            sig={"call": "rule:" + cfg["rule"], "sat": cfg.get("sat")}))
        if cfg["rule"] in ("mes", "greedy") and cfg.get("sat") and not cfg.get("sp_sat") and ctx.rng.random() < 0.3:
            # the two representations MIXED in one call: the list profile together with the satisfaction multiprofile of the same
            # electorate, and the reverse (round 7, C06-r7A / C07-r7A: multiplicities taken from the wrong one of the two)
            mixed = dict(cfg, sp_sat=cfg["sat"], sp_repr="other", sp_only=True)
            for b, label in ((bP, "list profile + satisfaction multiprofile"), (bM, "multiprofile + satisfaction list profile"),
                             (bP, "list profile + satisfaction multiprofile built from it"), (bM, "multiprofile + satisfaction multiprofile built from the list")):
                cX = dict(mixed, sp_repr="direct-multi") if "built from" in label else dict(mixed)
                rulegen.fix_loads(cX, b)
                sX = rules.canon(rules.impl_answer(b, cX)[0])
                ctx.count("mixed_representation", label)
                if sX != sP:
                    ctx.violations.append(violation(f"rule outcome with {label} differs from the outcome on the list profile", case, mixed, impl=sX, expected=sP,
                                                    sig={"call": "rule-mixed:" + cfg["rule"], "sat": cfg.get("sat")}))
        if compare:
            lines.append(rules.model_line(bM, cM))
            info.append((sP, case, cfg))
    if compare and lines:
        res = core.run_driver(lines)
        for line, o, (impl_s, case, cfg) in zip(lines, res, info):
            if o.strip() != impl_s.strip():
                ctx.disagreements.append({"line": line, "impl": impl_s, "model": o.strip(), "case": case.to_json(), "cfg": ruleprops.cfg_json(cfg)})
            ctx.sample(f"{line} -> impl(list profile): {impl_s} | model(compressed): {o.strip()}", cap=4)
    # (a') the wrappers (budget increase with its default bound, completion, iterated Equal Shares) on both forms
    from . import C09

    for _ in range(ctx.scale(700, 5000)):
        if ctx.budget_s is not None and ctx.elapsed() > ctx.budget_s:
            break
        case, cfg = C09.gen(ctx)
        if ctx.rng.random() < 0.45:
            # a large block of identical ballots and one or two lone voters who alone approve some project: that project is only
            # bought once the per-voter money reaches its cost, i.e. after about (number of VOTERS) budget multiples
            rng = ctx.rng
            k = rng.randint(2, 4)
            names = rng.sample(core.NAME_POOL, k)
            costs = [F(rng.choice([1, 1, 2, F(1, 2)])) for _ in names]
            lone = names[-1]
            block = [n for n in names[:-1] if rng.random() < 0.7] or [names[0]]
            ballots = [list(block) for _ in range(rng.randint(5, 11))] + [[lone]] * rng.randint(1, 2)
            rng.shuffle(ballots)
            case = Case(list(zip(names, costs)), F(rng.choice([1, 2, 2, 3])) if True else F(1), "app", ballots, rng.getrandbits(32))
            cfg = {"mode": "increase", "tie": "lexico", "res": rng.random() < 0.7, "multi": False, "init": [], "rule": rng.choice(["mes:Cost_Sat", "mes:Cardinality_Sat"]),
                   "step": F(rng.choice([1, F(1, 2), 2])), "stop": True}
        elif ctx.rng.random() < 0.5 and case.projects:
            # many voters, few distinct ballots: the voter count and the number of distinct ballots differ widely
            names = [n for n, _ in case.projects]
            protos = core.gen_ballots(ctx.rng, "app", names, 2, 3, distinct_hi=3)
            ballots = [list(protos[i % len(protos)]) for i in range(ctx.rng.randint(6, 12))]
            case = Case(case.projects, case.budget, "app", ballots, case.seed)
        outs = []
        if ctx.rng.random() < 0.7:
            cfg.pop("bound_mult", None)  # the documented default bound: budget * (number of voters + 1)
        for multi in (False, True):
            c2 = dict(cfg, multi=multi)
            built = rules.Built(case, multi=multi)
            try:
                out = C09.run_wrapper(case, c2, built)
                outs.append(sorted([C09.ids(case, out)] if c2["res"] else [C09.ids(case, o) for o in out]))
            except Exception as e:  # noqa: BLE001
                outs.append("err " + core.err_enum(e))
        ctx.evaluations += 1
        ctx.count("wrapper", cfg["mode"])
        if outs[0] != outs[1]:
            ctx.violations.append(violation("wrapper outcome differs between profile and multiprofile", case, cfg, impl=outs[1], expected=outs[0],
                                            sig={"call": "wrapper:" + cfg["mode"]}))
    # (a+) round 6, drawn after the streams above: (i) the rule is asked about ANOTHER instance than the one the profile is attached to
    # (a what-if copy with another budget limit, or a profile built without `instance=`), with the measures that are normalised by the
    # instance; (ii) tie-rich elections with repeated ballots under the tie-breaking rules that read the profile
    detached_stream(ctx, ctx.scale(700, 6000))
    tie_profile_stream(ctx, ctx.scale(1200, 10000))
    # (a'') edit-in-place histories: convert, edit ballots in place, convert again
    history_stream(ctx, n_hist if n_hist is not None else ctx.scale(300, 3000))
    # (b) measures and analysis functions
    for k in range(n_el):
        if ctx.budget_s is not None and ctx.elapsed() > ctx.budget_s:
            break
        small = k % 5 == 0
        case = gen_case(ctx.rng, small=small)
        vs = check_election(ctx, case, small)
        ctx.evaluations += 1
        ctx.count("btype", case.btype)
        ctx.violations.extend(vs)
        if len(case.entries()) >= 2:
            ctx.nontrivial.add(case.key())


def search(ctx, disagreements):
    run(ctx, n_rules=6000, n_el=1500, compare=False, n_hist=2000)


def replay(payload):
    import types

    if payload.get("cfg", {}).get("edit_history"):
        return replay_history(payload)
    case = Case.from_json(payload["case"])
    cfg = payload.get("cfg", {})
    if "rule" in cfg:
        cfg = ruleprops.cfg_from_json(cfg)
        bP, bM = rules.Built(case, multi=False), rules.Built(case, multi=True)
        if str(cfg.get("stream", "")).startswith("detached:"):
            rb = _detach(cfg["stream"].split(":", 1)[1], case)
            rb(bP, False)
            rb(bM, True)
        cP, cM = dict(cfg), dict(cfg)
        rulegen.fix_loads(cP, bP)
        rulegen.fix_loads(cM, bM)
        aP, _ = rules.impl_answer(bP, cP)
        aM, _ = rules.impl_answer(bM, cM)
        if rules.canon(aP) != rules.canon(aM):
            return False, f"still differs: {rules.canon(aP)} vs {rules.canon(aM)}"
        return True, "profile and multiprofile agree on the replayed input"
    want = payload.get("sig", {}).get("call")
    for seed in range(8):
        ctx = types.SimpleNamespace(rng=random.Random(seed), count=lambda *a, **k: None)
        vs = [v for v in check_election(ctx, case, len(case.ballots) <= 4 and len(case.projects) <= 3) if want is None or v["sig"].get("call") == want]
        if vs:
            return False, "still fails: " + vs[0]["what"]
    return True, "profile and multiprofile agree on the replayed input"
