"""C11, file API — `parse_pabulib(path)` and `write_pabulib(instance, profile, path)`.

The other streams of C11 go through the string API (`parse_pabulib_from_string`, `election_as_pabulib_string`).  A file adds
what lies between the bytes on disk and that string: the encoding (UTF-8 with or without a byte-order mark) and the newline
handling of `open` (universal-newline translation rewrites `\\r\\n` and `\\r`, also INSIDE quoted fields, unless the file is
opened with `newline=""`).  Here the bytes are written by the harness itself (given-text mode) or by `write_pabulib`
(library-written mode) into a temporary directory that is created with `tempfile.mkdtemp` and removed at the end.

 given text       generator's ground truth (nasty strings inside names / metadata values / categories: line breaks of every
                  kind, `\\r\\n`, a bare `\\r`, `;`, quotes) -> rows (C11.gen_file: column order, blank lines, none cells, padding)
                  -> text rendered HERE (own renderer: a field is quoted when it contains `;` `"` `\\r` `\\n`, or always), rows
                  ended by `\\n`, `\\r\\n` or `\\r`, with or without BOM -> bytes -> file.
                  predicate: `parse_pabulib(path)` is the election written in the file (C11.check_file_describes against the
                  ground truth), equals `parse_pabulib_from_string(text)` for the same bytes, and sets file_name / file_path;
                  the text is also given to the Lean text-level parser (`pabulibtext`) and diffed with the file route.
 library written  `write_pabulib` of a built election, `parse_pabulib` of that file: the C11 round-trip predicate
                  (C11.check_round_trip), equality with the string route, and a second trip through a file changes nothing.
                  The documented exclusion of the text layer applies (a value whose only special character is a bare `\\r` is
                  not quoted by CPython 3.12's writer: C11_csv.field_ok).
"""
from __future__ import annotations

import codecs
import os
import shutil
import tempfile

from .. import core
from . import C11_csv

RULE = ("file API: seeded ground-truth elections with 1-4 injected strings (C11_csv.NASTY: line breaks of every kind, \\r\\n, bare \\r, "
        "';', quotes) in names / metadata / categories x {text rendered by the harness with \\n | \\r\\n | \\r row ends, minimal or full "
        "quoting, with/without BOM; file written by write_pabulib}; parse_pabulib(path) vs ground truth vs parse_pabulib_from_string "
        "on the same bytes vs the Lean text-level parser; temporary files under a mkdtemp directory that is removed")


def C():
    from . import C11

    return C11


def render(rows, term="\n", quote_all=False, final=True):
    """rows -> CSV text with delimiter ';' (written from the format, no csv module): a field is quoted when it contains the
    delimiter, a quote, `\\r` or `\\n` (or always); quotes are doubled; a row holding one empty field is written `""`"""
    out = []
    for r in rows:
        if len(r) == 1 and r[0] == "":
            out.append('""')
            continue
        cells = []
        for f in r:
            if quote_all or any(c in f for c in ';"\r\n'):
                cells.append('"' + f.replace('"', '""') + '"')
            else:
                cells.append(f)
        out.append(";".join(cells))
    return term.join(out) + (term if final and out else "")


def ref_rows(text):
    """independent reader of `render`'s dialect: rows end at \\n, \\r\\n or \\r outside quotes"""
    rows, row, field, i, n = [], [], [], 0, len(text)
    inq = False
    started = False  # something of the current row has been seen
    while i < n:
        c = text[i]
        if inq:
            if c == '"':
                if i + 1 < n and text[i + 1] == '"':
                    field.append('"')
                    i += 1
                else:
                    inq = False
            else:
                field.append(c)
        elif c == '"':
            inq = True
            started = True
        elif c == ";":
            row.append("".join(field))
            field = []
            started = True
        elif c in "\r\n":
            if c == "\r" and i + 1 < n and text[i + 1] == "\n":
                i += 1
            if started or field:
                row.append("".join(field))
            rows.append(row)
            row, field, started = [], [], False
        else:
            field.append(c)
        i += 1
    if started or field:
        row.append("".join(field))
        rows.append(row)
    return rows


def _no_trailing_blank(rows):
    rows = list(rows)
    while rows and rows[-1] == []:
        rows.pop()
    return rows


class TempDir:
    """one directory per run; removed on exit whatever happens"""

    def __enter__(self):
        self.path = tempfile.mkdtemp(prefix="c11_file_")
        self.k = 0
        return self

    def new(self):
        self.k += 1
        return os.path.join(self.path, "election_%d.pb" % self.k)

    def __exit__(self, *exc):
        shutil.rmtree(self.path, ignore_errors=True)
        return False


def file_parse(path):
    """-> ('ok', canon, (instance, profile)) | ('err', cls, exc)   through parse_pabulib(path)"""
    Cm = C()
    try:
        inst, prof = Cm.lib().parse_pabulib(path)
    except Exception as e:  # noqa: BLE001
        return ("err", Cm.err_class(e), e)
    if prof is None:
        return ("err", "notImpl", None)
    return ("ok", Cm.canon_lib(inst, prof), (inst, prof))


def _attrs_bad(inst, path):
    if inst.file_name != os.path.basename(path) or inst.file_path != path:
        return f"file_name / file_path are {inst.file_name!r} / {inst.file_path!r} for the file {path!r}"
    return None


def given_text_problem(td, text, gt, bom):
    """None | (reason, message, canon of the file route or None)"""
    Cm = C()
    path = td.new()
    with open(path, "wb") as f:
        f.write((codecs.BOM_UTF8 if bom else b"") + text.encode("utf-8"))
    rf = file_parse(path)
    rs = Cm.lib_parse(text)
    if rf[0] == "err":
        return ("file_rejected", f"parse_pabulib rejects a well-formed file: {type(rf[2]).__name__ if rf[2] else 'profile None'}: {rf[2]}"
                + ("" if rs[0] == "err" else " (parse_pabulib_from_string accepts the same text)"), None), rf
    cf = rf[1]
    bad = Cm.check_file_describes(gt, cf)
    if bad is None and Cm.members_bad(cf):
        bad = ("ballot_members", Cm.members_bad(cf))
    if bad:
        return ("file_" + bad[0], "parse_pabulib(path): the parsed election is not the one written in the file: " + bad[1], cf), rf
    if rs[0] == "err":
        return ("file_vs_string", f"parse_pabulib_from_string rejects the text that parse_pabulib(path) reads from the file: {rs[2]!r}", cf), rf
    d = Cm.diff_canon(rs[1], cf, votes="list")
    if d:
        return ("file_vs_string", "parse_pabulib(path) differs from parse_pabulib_from_string on the same characters: " + d, cf), rf
    a = _attrs_bad(rf[2][0], path)
    if a:
        return ("file_attrs", a, cf), rf
    return None, rf


def library_written_problem(td, gt):
    """None | (reason, message);  'skip' when the election cannot be built"""
    Cm = C()
    try:
        inst, prof = Cm.build_objects(gt)
    except Exception:  # noqa: BLE001  (constructor problems belong to other properties)
        return "skip"
    path = td.new()
    try:
        Cm.lib().write_pabulib(inst, prof, path)
    except Exception as e:  # noqa: BLE001
        return ("file_writer_raises", f"write_pabulib raised {type(e).__name__}: {e}")
    rf = file_parse(path)
    if rf[0] == "err":
        return ("file_round_trip", f"the file written by write_pabulib cannot be parsed back by parse_pabulib: {type(rf[2]).__name__ if rf[2] else 'profile None'}: {rf[2]}")
    cf = rf[1]
    bad = Cm.check_round_trip(gt, cf)
    if bad is None and Cm.members_bad(cf):
        bad = ("ballot_members", Cm.members_bad(cf))
    if bad:
        return ("file_round_trip", "write_pabulib + parse_pabulib changed the election: " + bad[1])
    try:
        rs = Cm.lib_parse(Cm.lib().election_as_pabulib_string(inst, prof))
    except Exception as e:  # noqa: BLE001
        rs = ("err", Cm.err_class(e), e)
    if rs[0] == "err":
        return ("file_vs_string", f"the string route fails where the file route succeeds: {rs[2]!r}")
    d = Cm.diff_canon(rs[1], cf, votes="list")
    if d:
        return ("file_vs_string", "write_pabulib + parse_pabulib differ from the string route: " + d)
    a = _attrs_bad(rf[2][0], path)
    if a:
        return ("file_attrs", a)
    # a second trip through a file changes nothing further
    path2 = td.new()
    try:
        Cm.lib().write_pabulib(rf[2][0], rf[2][1], path2)
        r2 = file_parse(path2)
        d = f"second parse raised {r2[2]!r}" if r2[0] == "err" else Cm.diff_canon(cf, r2[1], votes="list")
    except Exception as e:  # noqa: BLE001
        d = f"second write raised {type(e).__name__}: {e}"
    if d:
        return ("file_not_idempotent", "second trip through a file differs from the first: " + d)
    return None


def _count_text(ctx, text, strings):
    joined = "".join(strings)
    ctx.count("file_api.cr_inside_a_field", "yes" if "\r" in joined else "no")
    ctx.count("file_api.crlf_inside_a_field", "yes" if "\r\n" in joined else "no")
    ctx.count("file_api.lf_inside_a_field", "yes" if "\n" in joined else "no")


def gen_case(rng):
    """ground truth with (usually) nasty strings; None when the generator gives up on this draw"""
    Cm = C()
    gt = Cm.gen_ground_truth(rng, special=rng.random() < 0.4)
    if rng.random() < 0.8:
        gt = C11_csv.nastify(rng, gt)
    return gt


def run_stream(ctx, lines, pend):
    Cm = C()
    rng = ctx.rng
    t0 = ctx.elapsed()
    with TempDir() as td:
        for _ in range(ctx.scale(500, 4000)):
            gt = gen_case(rng)
            if gt is None:
                ctx.count("file_api.skipped", "no string to change / name clash")
                continue
            if rng.random() < 0.6:
                # ---- given text
                rows, _text, gt = Cm.gen_file(rng, gt=gt)
                term = rng.choice(["\n", "\r\n", "\r\n", "\r\n", "\r"])
                quote_all = rng.random() < 0.25
                bom = rng.random() < 0.5
                text = render(rows, term, quote_all, final=rng.random() < 0.85)
                if _no_trailing_blank(ref_rows(text)) != _no_trailing_blank([list(r) for r in rows]):
                    # the renderer and its reader disagree: not a statement about the library
                    raise core.DriverError("C11_file.render/ref_rows disagree on %r" % (rows,))
                ctx.evaluations += 1
                ctx.count("file_api.mode", "given text")
                ctx.count("file_api.row_end", repr(term))
                ctx.count("file_api.bom", "yes" if bom else "no")
                ctx.count("file_api.vtype", gt["vtype"])
                _count_text(ctx, text, list(C11_csv.gt_strings(gt)))
                problem, rf = given_text_problem(td, text, gt, bom)
                if problem:
                    reason, what, cf = problem
                    ctx.violations.append({"what": what, "case": {"text": text, "gt": Cm.gt_json(gt), "bom": bom}, "cfg": {"stream": "file_api", "mode": "given_text"},
                                           "impl": Cm.canon_json(cf) if cf else None, "sig": {"call": "parse_pabulib", "vtype": gt["vtype"], "reason": reason}})
                else:
                    if len(gt["projects"]) >= 2 and len(gt["votes"]) >= 2:
                        ctx.nontrivial.add("file:" + Cm.core_hash(rows) + repr(term))
                    lines.append("pabulibtext T=" + Cm.esc(text))
                    pend.append({"stream": "file_api", "rows": None, "impl": rf[:2], "lib_written": None, "label": "file (parse_pabulib) " + gt["vtype"]})
            else:
                # ---- library written
                strings = list(C11_csv.gt_strings(gt))
                if not all(C11_csv.field_ok(s) for s in strings):
                    ctx.count("file_api.skipped", "bare \\r in a value (documented exclusion of the writer)")
                    continue
                problem = library_written_problem(td, gt)
                if problem == "skip":
                    ctx.count("file_api.skipped", "constructor")
                    continue
                ctx.evaluations += 1
                ctx.count("file_api.mode", "written by write_pabulib")
                ctx.count("file_api.vtype", gt["vtype"])
                _count_text(ctx, "", strings)
                if problem:
                    ctx.violations.append({"what": problem[1], "case": {"gt": Cm.gt_json(gt)}, "cfg": {"stream": "file_api", "mode": "library_written"},
                                           "sig": {"call": "write_pabulib+parse_pabulib", "vtype": gt["vtype"], "reason": problem[0]}})
                elif len(gt["projects"]) >= 2 and len(gt["votes"]) >= 2:
                    ctx.nontrivial.add("filew:" + Cm.core_hash([sorted(strings)]))
    ctx.extra.setdefault("file_api", {}).update({"rule": RULE, "seconds": round(ctx.elapsed() - t0, 1), "files_written": td.k,
                                                 "temporary_directory_removed": not os.path.exists(td.path)})


def replay(payload):
    Cm = C()
    case, cfg = payload.get("case", {}), payload.get("cfg", {})
    gt = Cm.gt_from_json(case["gt"])
    with TempDir() as td:
        if cfg.get("mode") == "given_text":
            problem, _ = given_text_problem(td, case["text"], gt, bool(case.get("bom")))
            problem = problem and (problem[0], problem[1])
        else:
            problem = library_written_problem(td, gt)
            if problem == "skip":
                return True, "the stored election cannot be built any more"
    if problem:
        return False, "still failing: " + problem[1]
    return True, "the file API agrees with the ground truth and with the string API on the stored input now"
