"""C20 — rules and analyses leave their inputs untouched.

For every election: real objects are built once (instance, profile, an allocation, caller-owned parameter dicts and
lists) and EVERY public entry point of `pabutools.rules` / `pabutools.analysis` (their `__all__`), the remaining
public analysis functions (justified representation, cohesiveness, the two profile tables) and every satisfaction
measure is called on them.  Before and after each call a deep structural snapshot (harness/snapshot.py) of every
argument is taken; any difference is a violation `sig = {"call": <function>, "arg": <argument>}`.
Sequences: several calls share the same objects; the answers are compared with the answers on fresh deep copies.
Calls that reach the CBC solver run in a worker subprocess; an aborted worker run is discarded and counted.
The static side (`harness/translate_effects.py` -> `lean/Gen/Effects.lean`) is compared per entry point: a function
whose regenerated write summary is empty must show no difference here.
"""
from __future__ import annotations

import copy
import json
import os
import random
import subprocess
import sys
import tempfile
from fractions import Fraction as F

from .. import core
from ..core import Case
from ..snapshot import brief, diff, snapshot

RULE = (
    "seeded structured elections (<=6 projects, <=6 voters, four ballot types, list and multi profiles) x every applicable entry "
    "point with caller-owned parameter objects (initial allocation list, initial loads, rule_params / mes_params dicts, "
    "rule_sequence and rule_params lists, payment functions, sat_profile; the initial allocation is a list, a BudgetAllocation, or "
    "the outcome of an earlier greedy / Equal Shares run with analytics=True carrying that run's details; 30% of the parameter "
    "dictionaries also carry keys the wrapper sets itself -- resoluteness, initial_budget_allocation, analytics, sat_class, "
    "tie_breaking -- with the wrapper's value or a conflicting one; arguments are compared whether the call returns or raises); "
    "plus call sequences sharing all objects; both streams "
    "repeated over less usual constructions of the profile argument (built without instance=, linked to another edition of the "
    "instance, deep-copied with its own project objects, validation off; multiprofiles by conversion or built directly); "
    "non-trivial = the call returned normally on an election with >=2 projects and >=2 voters; distinct by (entry, case hash)"
)
ASSUMPTIONS = [
    "the documented final_budget override of calculate_effective_supports is never passed",
    "memo cache `scores` of satisfaction objects is not part of the snapshot (not caller-visible state)",
    "a call that raises is still compared (inputs must be untouched on the error path too)",
]
TRUSTED = ["solver calls run in a worker subprocess; aborted runs are discarded and counted (solver_faults_discarded)"]

SOLVER_SATS = {"Relative_Cost_Sat", "Additive_Cardinal_Relative_Sat"}


# ----------------------------------------------------------------------------------------------
# world: real objects of one election


# legal but less usual ways of building the profile argument (the default construction links the profile to the very instance
# object that is also passed to the rule).  A profile is a list / Counter of ballots with an OPTIONAL `instance=` link
# (default: an empty Instance()), so a rule may be handed a profile that carries no instance, another edition of the
# instance, or its own copies of the project objects; none of this entitles a callee to write to the profile.
VARIANTS = ["profile_without_instance", "profile_other_instance", "profile_deepcopied", "validation_off"]


class World:
    def __init__(self, case: Case, multi: bool, seed: int, variant: str = "standard"):
        import pabutools.election as e
        from pabutools.rules import BudgetAllocation

        self.case = case
        self.multi = multi
        self.rng = random.Random(seed)
        rng = self.rng
        self.inst, self.projs = core.build_instance(case)
        cats = ["green", "roads", "culture"]
        for i, p in enumerate(self.inst):
            p.categories = {cats[i % 3]}
            p.targets = {"all"}
        self.inst.categories = set(cats)
        self.inst.targets = {"all"}
        self.inst.meta = {"description": "test", "num_votes": str(len(case.ballots))}
        self.inst.file_name = "case.pb"
        self.listprof = core.build_profile(case, self.inst, self.projs, multi=False)
        for i, b in enumerate(self.listprof):
            b.name = "voter%d" % i
            b.meta = {"district": "d%d" % (i % 2)}
        self.prof = self.listprof.as_multiprofile() if multi else self.listprof
        names = [n for n, _ in case.projects]
        # caller-owned parameter objects
        self.init = [self.projs[n] for n in core.gen_init(rng, case)]
        init_form = rng.random()
        if init_form < 0.35:
            # the caller's initial allocation is often a BudgetAllocation object (e.g. the outcome of an earlier rule)
            self.init = BudgetAllocation(self.init)
        sub, tot = [], F(0)
        for n in rng.sample(names, len(names)):
            if rng.random() < 0.6 and tot + case.cost[n] <= case.budget:
                sub.append(n)
                tot += case.cost[n]
        self.alloc = BudgetAllocation([self.projs[n] for n in sub]) if rng.random() < 0.5 else [self.projs[n] for n in sub]
        self.loads = [core.to_num(F(rng.randint(0, 3), rng.choice([1, 2]))) for _ in range(len(case.ballots))]
        self.sat_name = rng.choice(core.SAT_BY_TYPE[case.btype])
        self.sat_any = rng.choice(core.SAT_BY_TYPE[case.btype] + core.SAT_NONADD.get(case.btype, []))
        self.sc = core.sat_class(self.sat_name)
        self.tie = core.tie_rule(rng.choice(["lexico", "min_cost", "max_cost"] + (["app_score"] if case.btype == "app" else [])))
        self.init_form = "list" if not isinstance(self.init, BudgetAllocation) else "BudgetAllocation"
        if init_form >= 0.7:
            # ... and the outcome of an earlier rule run carries that run's `details` when it was made with analytics=True
            self.init = self._earlier_stage(rng)
        self.rule_params = {"sat_class": self.sc, "tie_breaking": self.tie}
        self.mes_params = {"sat_class": self.sc, "tie_breaking": self.tie}
        # keys that a wrapper sets itself when it calls the rule, in case the caller's dictionary carries them as well (with
        # the value the wrapper would use, or with another one): whatever the wrapper then does -- use it, override it,
        # reject the call -- the caller's dictionary stays as it was
        for d, p in ((self.rule_params, 0.3), (self.mes_params, 0.3)):
            if rng.random() < p:
                d.update(self.own_keys(rng, rng.random() < 0.7))
        # payment functions as callers have them: exact fractions, ints, and floats that are no multiple of any power of ten (the
        # shares a solver or a division leaves behind); drawn by a generator of their own, the other draws keep their seeds
        pr = random.Random((getattr(case, "seed", 0) or 0) ^ 0x9A7)
        pay_pool = [F(1, 2), F(1, 2), F(1, 3), 1, 0.5, 1 / 3, 0.1, 2 / 7, 0.30000000000000004, 1.0000000000000002]
        self.payment = [{self.projs[n]: (core.to_num(x) if isinstance(x, F) else x) for n in names
                         for x in [(pr.choice(pay_pool) if n in b else pr.choice([F(0), F(0), 0, 0.0]))]} for b in case.ballots]
        self.sat_profile = None
        self.details = None
        self.variant = variant
        if variant != "standard":
            self._apply_variant(variant, seed)

    def _apply_variant(self, variant, seed):
        """rebuilds the profile arguments from the same ballot objects (no draw from self.rng: the parameter objects above are
        the same as in the standard world of this seed)"""
        lp = self.listprof
        cls = type(lp)
        if variant == "profile_without_instance":
            kw = {}
        elif variant == "profile_other_instance":
            other = copy.deepcopy(self.inst)  # e.g. an earlier edition of the election: same projects, another budget
            other.budget_limit = self.inst.budget_limit + 1
            other.meta = {"description": "earlier edition"}
            kw = {"instance": other}
        elif variant == "validation_off":
            kw = {"instance": self.inst, "ballot_validation": False}
        elif variant == "profile_deepcopied":
            kw = None
        else:
            raise ValueError(variant)
        new = copy.deepcopy(lp) if kw is None else cls(list(lp), **kw)  # a plain list as initialiser: nothing is inherited
        self.listprof = new
        if not self.multi:
            self.prof = new
        elif seed & 1:
            self.prof = new.as_multiprofile()
        else:
            # the multiprofile built directly from frozen ballots
            mcls = type(lp.as_multiprofile())
            self.prof = mcls([b.frozen() for b in new], **({"instance": new.instance, "ballot_validation": new.ballot_validation} if kw is None else kw))

    def _earlier_stage(self, rng):
        """first stage of a two-stage process: a rule run with analytics=True on the same election with part of the budget;
        its outcome (a BudgetAllocation carrying the run's details: per-project records for greedy, iterations for Equal
        Shares) is the caller's initial allocation of the later calls"""
        import pabutools.rules as R
        from pabutools.election import Instance

        stage = Instance(list(self.inst), budget_limit=core.to_num(self.case.budget * F(rng.choice([1, 1, 2]), rng.choice([2, 3]))))
        which = rng.choice(["greedy", "greedy", "mes"])
        self.init_form = "earlier %s outcome with details" % which
        if which == "greedy":
            return R.greedy_utilitarian_welfare(stage, self.listprof, sat_class=self.sc, tie_breaking=self.tie, analytics=True)
        return R.method_of_equal_shares(stage, self.listprof, sat_class=self.sc, tie_breaking=self.tie, analytics=True)

    def own_keys(self, rng, same, resoluteness=True):
        """a few of the keyword arguments that the wrappers pass to the rules themselves, as entries of a caller-owned
        parameter dictionary; same=True: with the value the wrapper would pass"""
        from pabutools.rules import BudgetAllocation

        out = {}
        keys = rng.sample(["resoluteness", "initial_budget_allocation", "analytics", "sat_class", "tie_breaking"], rng.choice([1, 1, 2]))
        for k in keys:
            if k == "resoluteness":
                out[k] = resoluteness if same else not resoluteness
            elif k == "initial_budget_allocation":
                out[k] = self.init if same else BudgetAllocation(list(self.alloc))
            elif k == "analytics":
                out[k] = True
            elif k == "sat_class":
                out[k] = self.sc if same else core.sat_class(self.sat_any)
            else:
                out[k] = self.tie if same else core.tie_rule("lexico")
        return out

    def rules(self):
        import pabutools.rules as R

        return R

    def rule_sequence(self):
        R = self.rules()
        return [R.method_of_equal_shares, R.greedy_utilitarian_welfare]

    def rule_params_list(self, resoluteness=True):
        ps = [{"sat_class": self.sc, "tie_breaking": self.tie}, {"sat_class": self.sc}]
        rng = self.rng
        if rng.random() < 0.3:
            same = rng.random() < 0.7
            for d in ps:
                if rng.random() < 0.7:
                    d.update(self.own_keys(rng, same, resoluteness))
        return ps


def gen_case(rng: random.Random):
    # complete score ballots most of the time: the cardinal proportionality checkers index every project
    return core.gen_election(rng, m_lo=1, m_hi=6, n_hi=6, full_scores=rng.random() < 0.7)


# ----------------------------------------------------------------------------------------------
# entry points: name -> builder(world) -> (callable, kwargs)  [kwargs = the named caller arguments]


def _rules_entries(w: World):
    R = w.rules()
    rng = w.rng
    bt = w.case.btype
    E = {}
    sat_kw = lambda: ({"sat_profile": w.prof.as_sat_profile(w.sc)} if rng.random() < 0.3 else {"sat_class": w.sc})  # noqa: E731
    res = lambda: rng.random() < 0.7  # noqa: E731
    E["greedy_utilitarian_welfare"] = lambda: (R.greedy_utilitarian_welfare, dict(instance=w.inst, profile=w.prof, **({"sat_class": core.sat_class(w.sat_any)} if rng.random() < 0.5 else sat_kw()), tie_breaking=w.tie, resoluteness=res(), initial_budget_allocation=w.init, analytics=rng.random() < 0.5))
    E["method_of_equal_shares"] = lambda: (R.method_of_equal_shares, dict(instance=w.inst, profile=w.prof, **sat_kw(), tie_breaking=w.tie, resoluteness=res(), initial_budget_allocation=w.init, analytics=rng.random() < 0.5, voter_budget_increment=rng.choice([None, None, 1])))
    if bt == "app":
        E["sequential_phragmen"] = lambda: (R.sequential_phragmen, dict(instance=w.inst, profile=w.prof, initial_loads=rng.choice([None, w.loads]) if not w.multi else None, initial_budget_allocation=w.init, tie_breaking=w.tie, resoluteness=res()))
    E["max_additive_utilitarian_welfare"] = lambda: (R.max_additive_utilitarian_welfare, dict(instance=w.inst, profile=w.prof, **sat_kw(), resoluteness=True, initial_budget_allocation=w.init, inner_algo=R.MaxAddUtilWelfareAlgo.PRIMAL_DUAL))
    E["max_additive_utilitarian_welfare[ILP]"] = lambda: (R.max_additive_utilitarian_welfare, dict(instance=w.inst, profile=w.prof, sat_class=w.sc, resoluteness=res(), initial_budget_allocation=w.init, inner_algo=R.MaxAddUtilWelfareAlgo.ILP_SOLVER))

    def completion():
        r = res()
        return R.completion_by_rule_combination, dict(instance=w.inst, profile=w.prof, rule_sequence=w.rule_sequence(), rule_params=w.rule_params_list(r), initial_budget_allocation=w.init, resoluteness=r)

    E["completion_by_rule_combination"] = completion
    step = core.to_num(max(w.case.budget / 3, F(1, 2)))
    E["exhaustion_by_budget_increase"] = lambda: (R.exhaustion_by_budget_increase, dict(instance=w.inst, profile=w.prof, rule=R.method_of_equal_shares, rule_params=w.rule_params, initial_budget_allocation=w.init, resoluteness=res(), budget_step=step, budget_bound=core.to_num(w.case.budget * 3)))
    if not w.multi:
        E["social_welfare_comparison"] = lambda: (R.social_welfare_comparison, dict(instance=w.inst, profile=w.prof, sat_class=w.sc, rule_sequence=w.rule_sequence(), rule_params=w.rule_params_list(), initial_budget_allocation=w.init))
        E["popularity_comparison"] = lambda: (R.popularity_comparison, dict(instance=w.inst, profile=w.prof, sat_class=w.sc, rule_sequence=w.rule_sequence(), rule_params=w.rule_params_list(), initial_budget_allocation=w.init))
    E["BudgetAllocation"] = lambda: (R.BudgetAllocation, dict(init=w.alloc))
    # the two inner schemes of the greedy rule are exported by pabutools.rules.greedywelfare (`__all__`); they take the caller's
    # BudgetAllocation as it is.  Half of the calls start from an allocation nothing can be added to, in a random order (round 7,
    # C20-r7B: the irresolute leaf sorted the caller's object once the scheme's own copy was dropped)
    import pabutools.rules.greedywelfare as GW

    def scheme_alloc():
        names = [n for n, _ in w.case.projects]
        rng.shuffle(names)
        if rng.random() < 0.5:
            chosen, tot = [], F(0)
            for n in names:
                if tot + w.case.cost[n] <= w.case.budget:
                    chosen.append(n)
                    tot += w.case.cost[n]
            return R.BudgetAllocation([w.projs[n] for n in chosen])
        return R.BudgetAllocation(list(w.init))

    E["greedy_utilitarian_scheme"] = lambda: (GW.greedy_utilitarian_scheme, dict(instance=w.inst, profile=w.prof, sat_profile=w.prof.as_sat_profile(w.sc),
                                                                                budget_allocation=scheme_alloc(), tie_breaking=w.tie, resoluteness=res()))
    E["greedy_utilitarian_scheme_additive"] = lambda: (GW.greedy_utilitarian_scheme_additive, dict(instance=w.inst, profile=w.prof, sat_profile=w.prof.as_sat_profile(w.sc),
                                                                                                  budget_allocation=scheme_alloc(), tie_breaking=w.tie, resoluteness=res()))
    return E


def _analysis_entries(w: World):
    import pabutools.analysis as A
    import pabutools.analysis.cohesiveness as COH
    import pabutools.analysis.justifiedrepresentation as JR
    import pabutools.analysis.profileproperties as PP
    import pabutools.analysis.votersatisfaction as VS
    import pabutools.rules as R

    rng = w.rng
    bt = w.case.btype
    E = {}
    for n in ["sum_project_cost", "funding_scarcity", "avg_project_cost", "median_project_cost", "std_dev_project_cost"]:
        E[n] = (lambda f: lambda: (f, dict(instance=w.inst)))(getattr(A, n))
    for n in ["avg_ballot_length", "median_ballot_length", "avg_ballot_cost", "median_ballot_cost"]:
        E[n] = (lambda f: lambda: (f, dict(instance=w.inst, profile=w.prof)))(getattr(A, n))
    if bt == "app":
        for n in ["avg_approval_score", "median_approval_score"]:
            E[n] = (lambda f: lambda: (f, dict(instance=w.inst, profile=w.prof)))(getattr(A, n))
        E["category_proportionality"] = lambda: (A.category_proportionality, dict(instance=w.inst, profile=w.prof, budget_allocation=w.alloc))

        def uncategorised_instance():
            # a hand-built instance whose projects carry categories while the instance lists none: the documented answer is a ValueError,
            # and the caller's instance stays as it was (round 8, C20-r8B: the categories collected INTO the caller's instance)
            inst2 = copy.deepcopy(w.inst)
            inst2.categories = set()
            byname = {p.name: p for p in inst2}
            alloc2 = [byname[p.name] for p in w.alloc if p.name in byname]
            return A.category_proportionality, dict(instance=inst2, profile=w.prof, budget_allocation=alloc2)

        E["category_proportionality[instance lists no category]"] = uncategorised_instance
        E["percent_non_empty_handed"] = lambda: (A.percent_non_empty_handed, dict(instance=w.inst, profile=w.prof, budget_allocation=w.alloc))
        E["validate_price_system"] = lambda: (A.validate_price_system, dict(instance=w.inst, profile=w.listprof, budget_allocation=w.alloc, voter_budget=core.to_num(w.case.budget / max(1, len(w.case.ballots))), payment_functions=w.payment, stable=rng.random() < 0.3, exhaustive=rng.random() < 0.5))
        E["priceable"] = lambda: (A.priceable, dict(instance=w.inst, profile=w.listprof, budget_allocation=rng.choice([None, w.alloc]), stable=rng.random() < 0.3, max_seconds=20))
        for n in ["is_in_core", "is_strong_EJR_approval", "is_EJR_approval", "is_EJR_any_approval", "is_EJR_one_approval", "is_PJR_approval", "is_PJR_any_approval", "is_PJR_one_approval"]:
            E[n] = (lambda f: lambda: (f, dict(instance=w.inst, profile=w.prof, sat_class=w.sc, budget_allocation=w.alloc)))(getattr(JR, n))
        E["maximal_cohesive_for_projects_approval"] = lambda: (COH.maximal_cohesive_for_projects_approval, dict(instance=w.inst, profile=w.prof, projects=list(w.alloc)))
    if bt in ("card", "cum"):
        for n in ["avg_total_score", "median_total_score"]:
            E[n] = (lambda f: lambda: (f, dict(instance=w.inst, profile=w.prof)))(getattr(A, n))
        for n in ["is_strong_EJR_cardinal", "is_EJR_cardinal", "is_EJR_any_cardinal", "is_EJR_one_cardinal", "is_PJR_cardinal", "is_PJR_any_cardinal", "is_PJR_one_cardinal"]:
            E[n] = (lambda f: lambda: (f, dict(instance=w.inst, profile=w.prof, budget_allocation=w.alloc)))(getattr(JR, n))
        E["is_in_core"] = lambda: (JR.is_in_core, dict(instance=w.inst, profile=w.prof, sat_class=w.sc, budget_allocation=w.alloc))
        E["votes_count_by_project"] = lambda: (PP.votes_count_by_project, dict(profile=w.prof))
        E["voter_flow_matrix"] = lambda: (PP.voter_flow_matrix, dict(instance=w.inst, profile=w.prof))
    if bt in ("app", "card", "cum"):
        E["cohesive_groups"] = lambda: (lambda **kw: list(COH.cohesive_groups(**kw)), dict(instance=w.inst, profile=w.prof))
        E["maximal_cohesive_groups"] = lambda: (lambda **kw: list(COH.maximal_cohesive_groups(**kw)), dict(instance=w.inst, profile=w.prof))
    E["avg_satisfaction"] = lambda: (A.avg_satisfaction, dict(instance=w.inst, profile=w.prof, budget_allocation=w.alloc, sat_class=w.sc))
    E["gini_coefficient_of_satisfaction"] = lambda: (A.gini_coefficient_of_satisfaction, dict(instance=w.inst, profile=w.prof, budget_allocation=w.alloc, sat_class=w.sc, invert=rng.random() < 0.5))
    E["satisfaction_histogram"] = lambda: (A.satisfaction_histogram, dict(instance=w.inst, profile=w.prof, budget_allocation=w.alloc, sat_class=w.sc, max_satisfaction=10, num_bins=rng.choice([2, 5, 21])))
    E["percent_positive_satisfaction"] = lambda: (VS.percent_positive_satisfaction, dict(profile=w.prof, budget_allocation=w.alloc, sat_class=w.sc))

    def details():
        if w.details is None:
            w.details = R.method_of_equal_shares(copy.deepcopy(w.inst), copy.deepcopy(w.listprof), sat_class=w.sc, analytics=True).details
        return w.details

    E["calculate_project_loss"] = lambda: (A.calculate_project_loss, dict(allocation_details=details()))
    E["calculate_effective_supports"] = lambda: (A.calculate_effective_supports, dict(instance=w.inst, profile=w.prof, allocation=w.alloc, mes_params=w.mes_params))
    # … and for the outcome of an ITERATED Equal Shares run made with analytics=True, whose details record a run at a higher budget than the
    # instance's (round 8, C20-r8A: `final_budget` defaulted from those details, and the instance's budget limit overwritten with it)
    E["calculate_effective_supports[iterated outcome]"] = lambda: (A.calculate_effective_supports, dict(
        instance=w.inst, profile=w.prof, mes_params=w.mes_params,
        allocation=w.rules().method_of_equal_shares(w.inst, w.prof, sat_class=w.sc, voter_budget_increment=1, analytics=True)))
    someproj = lambda: w.projs[rng.choice([n for n, _ in w.case.projects])]  # noqa: E731
    E["calculate_effective_support"] = lambda: (A.calculate_effective_support, dict(instance=w.inst, profile=w.prof, project=someproj(), was_picked=rng.random() < 0.5, mes_params=w.mes_params))
    E["ProjectLoss"] = lambda: (A.ProjectLoss, dict(project=someproj(), supporters_budget=3, budget_lost={someproj(): 1}))
    return E


def _measure_entries(w: World):
    bt = w.case.btype
    E = {}
    names = core.SAT_BY_TYPE[bt] + core.SAT_NONADD.get(bt, []) + core.SAT_FLOAT_ADD.get(bt, []) + core.SAT_MIP.get(bt, [])

    def mk(name):
        def run_measure(instance, profile, ballot, projects, project):
            sat = core.sat_class(name)(instance, profile, ballot)
            return [sat.sat(projects), sat.sat_project(project), sat.sat(projects)]

        def build():
            ballots = list(w.prof)
            b = w.rng.choice(ballots)
            return run_measure, dict(instance=w.inst, profile=w.prof, ballot=b, projects=w.alloc, project=w.projs[w.rng.choice([n for n, _ in w.case.projects])])

        return build

    for n in names:
        E["sat:" + n] = mk(n)

    def sat_profile_entry():
        def f(profile, sat_class, projects):
            sp = profile.as_sat_profile(sat_class)
            return sp.total_satisfaction(projects)

        return f, dict(profile=w.prof, sat_class=w.sc, projects=w.alloc)

    E["as_sat_profile"] = sat_profile_entry
    return E


def all_entries(w: World):
    E = {}
    E.update(_rules_entries(w))
    E.update(_analysis_entries(w))
    E.update(_measure_entries(w))
    return E


def is_solver(name):
    return name in ("priceable", "max_additive_utilitarian_welfare[ILP]") or (name.startswith("sat:") and name[4:] in SOLVER_SATS)


def public_name(name):
    return name.split("[")[0]


# ----------------------------------------------------------------------------------------------
# one observed call


def canon_result(res):
    """order-insensitive, float-tolerant rendering of an answer (for shared-vs-fresh comparison)"""
    try:
        from pabutools.election import Project
    except ImportError:  # pragma: no cover
        Project = ()
    if isinstance(res, float):
        return "%.9g" % res
    if isinstance(res, Project):
        return "P:" + str(res.name)
    if isinstance(res, dict):
        return sorted(([canon_result(k), canon_result(v)] for k, v in res.items()), key=lambda kv: json.dumps(kv, default=str))
    if isinstance(res, (list, tuple, set, frozenset)):
        items = [canon_result(x) for x in res]
        if all(isinstance(x, str) and x.startswith("P:") for x in items) or isinstance(res, (set, frozenset)):
            return sorted(items, key=lambda x: json.dumps(x, default=str))
        if items and all(isinstance(x, list) for x in items):
            return sorted(items, key=lambda x: json.dumps(x, default=str))
        return items
    s = snapshot(res)
    if isinstance(s, list) and s and s[0] == "num":
        return s
    if isinstance(s, dict) and "attrs" in s:
        return {"type": s["type"]}
    return s


def observe(name, func, kwargs):
    """call func(**kwargs); returns (status, diffs, result) with diffs = [(arg, path, before, after)]"""
    before = {k: snapshot(v) for k, v in kwargs.items()}
    status, res = "ok", None
    try:
        res = func(**kwargs)
        if hasattr(res, "__next__"):
            res = list(res)
    except Exception as ex:  # noqa: BLE001
        status = "exc:" + type(ex).__name__
    diffs = []
    for k, v in kwargs.items():
        d = diff(before[k], snapshot(v))
        if d:
            diffs.append((k, d[0], brief(d[1], 120), brief(d[2], 120)))
    return status, diffs, res


def violation(name, case, multi, seed, status, d, mode, variant="standard"):
    arg, path, b, a = d
    return {
        "what": f"{public_name(name)} modified its argument `{arg}` at {path}: {b} -> {a}" + ("" if variant == "standard" else f" [{variant}]"),
        "case": case.to_json(),
        "cfg": {"multi": multi, "seed": seed, "entry": name, "mode": mode, "status": status, "variant": variant},
        "impl": a,
        "expected": b,
        "sig": {"call": public_name(name), "arg": arg},
    }


# ----------------------------------------------------------------------------------------------
# solver worker


def worker_main(path_in, path_out):
    tasks = json.load(open(path_in))
    with open(path_out, "a") as out:
        for t in tasks:
            case = Case.from_json(t["case"])
            w = World(case, t["multi"], t["seed"], t.get("variant", "standard"))
            E = all_entries(w)
            if t["entry"] not in E:
                out.write(json.dumps({"id": t["id"], "status": "n/a", "diffs": []}) + "\n")
                out.flush()
                continue
            func, kwargs = E[t["entry"]]()
            out.write(json.dumps({"id": t["id"], "start": True}) + "\n")
            out.flush()
            os.fsync(out.fileno())
            status, diffs, _ = observe(t["entry"], func, kwargs)
            out.write(json.dumps({"id": t["id"], "status": status, "diffs": diffs}) + "\n")
            out.flush()
            os.fsync(out.fileno())


def run_solver_tasks(ctx, tasks):
    """runs tasks in worker subprocesses; a task on which the worker dies is discarded (solver fault)"""
    results = {}
    pending = list(tasks)
    env = dict(os.environ)
    env["PYTHONPATH"] = core.VERIF + os.pathsep + env.get("PYTHONPATH", "")
    env["PABU_REPO"] = core.REPO
    guard = 0
    while pending and guard < 50:
        guard += 1
        with tempfile.TemporaryDirectory() as td:
            pin, pout = os.path.join(td, "in.json"), os.path.join(td, "out.jsonl")
            json.dump(pending, open(pin, "w"))
            open(pout, "w").close()
            try:
                subprocess.run([sys.executable, "-m", "harness.props.C20", "--worker", pin, pout], cwd=core.VERIF, env=env, stdout=subprocess.DEVNULL, stderr=subprocess.DEVNULL, timeout=600)
            except subprocess.TimeoutExpired:
                pass
            started = None
            for ln in open(pout):
                try:
                    r = json.loads(ln)
                except ValueError:
                    continue
                if r.get("start"):
                    started = r["id"]
                else:
                    results[r["id"]] = r
                    started = None
        done = set(results)
        if started is not None and started not in done:
            ctx.solver_faults += 1
            results[started] = {"id": started, "status": "aborted", "diffs": []}
            done.add(started)
        new_pending = [t for t in pending if t["id"] not in done]
        if len(new_pending) == len(pending):
            # no progress at all: give up on the first task
            ctx.solver_faults += 1
            results[new_pending[0]["id"]] = {"id": new_pending[0]["id"], "status": "aborted", "diffs": []}
            new_pending = new_pending[1:]
        pending = new_pending
    return results


# ----------------------------------------------------------------------------------------------
# run


def run_election(ctx, case, multi, seed, solver_tasks, solver_budget, variant="standard"):
    w = World(case, multi, seed, variant)
    E = all_entries(w)
    ctx.count("profile_construction", variant + ("/multi" if multi else "/list"))
    ctx.count("initial_allocation_form", w.init_form)
    for name in E:
        if is_solver(name):
            if len(solver_tasks) < solver_budget:
                solver_tasks.append({"id": len(solver_tasks), "case": case.to_json(), "multi": multi, "seed": seed, "entry": name, "variant": variant})
            continue
        func, kwargs = E[name]()
        status, diffs, _ = observe(name, func, kwargs)
        record(ctx, name, case, status)
        note_args(ctx, kwargs, status)
        if diffs:
            for d in diffs[:1]:
                ctx.violations.append(violation(name, case, multi, seed, status, d, "single", variant))
            # rebuild the world so that later calls are judged on untouched objects
            w = World(case, multi, seed, variant)
            E2 = all_entries(w)
            for k in E2:
                E[k] = E2[k]


OWN_KEYS = ("resoluteness", "initial_budget_allocation", "analytics", "sat_class", "tie_breaking")


def note_args(ctx, kwargs, status):
    """distribution of the caller-owned argument objects that matter for aliasing"""
    ds = []
    for k in ("rule_params", "mes_params"):
        v = kwargs.get(k)
        ds += [v] if isinstance(v, dict) else (list(v) if isinstance(v, list) else [])
    extra = sorted({k for d in ds for k in d if k in OWN_KEYS[:3]})
    if extra:
        ctx.count("params_carrying_wrapper_keys", "+".join(extra) + (" -> ok" if status == "ok" else " -> raises"))
    init = kwargs.get("initial_budget_allocation")
    if getattr(init, "details", None) is not None and kwargs.get("analytics"):
        ctx.count("analytics_call_on_init_with_details", type(init.details).__name__)


def record(ctx, name, case, status):
    ctx.evaluations += 1
    ctx.count("entry", public_name(name))
    ctx.count("status", status)
    ctx.count("btype", case.btype)
    if status == "ok" and len(case.projects) >= 2 and len(case.ballots) >= 2:
        ctx.nontrivial.add((name, case.key()))


def run_sequence(ctx, case, multi, seed, length, variant="standard"):
    """several calls sharing all objects; answers compared with answers on fresh deep copies"""
    w = World(case, multi, seed, variant)
    E = all_entries(w)
    names = [n for n in E if not is_solver(n)]
    rng = random.Random(seed ^ 0x5EED)
    chosen = [rng.choice(names) for _ in range(length)]
    # prefer the entries that take caller-owned parameter objects
    rich = [n for n in names if n in ("exhaustion_by_budget_increase", "completion_by_rule_combination", "calculate_effective_supports", "calculate_effective_support", "method_of_equal_shares", "greedy_utilitarian_welfare", "sequential_phragmen", "social_welfare_comparison")]
    for i in range(0, length, 2):
        if rich:
            chosen[i] = rng.choice(rich)
    ctx.count("sequences", "run")
    ctx.count("profile_construction", variant + ("/multi" if multi else "/list") + " (sequence)")
    ctx.count("initial_allocation_form", w.init_form + " (sequence)")
    for name in chosen:
        func, kwargs = E[name]()
        try:
            fresh = copy.deepcopy(kwargs)
        except Exception:  # noqa: BLE001  (recorded Equal Shares details cannot be deep-copied)
            fresh = None
            ctx.count("sequences", "no_fresh_copy")
        status, diffs, res = observe(name, func, kwargs)
        record(ctx, name, case, status)
        note_args(ctx, kwargs, status)
        ctx.count("sequence_calls", public_name(name))
        if diffs:
            ctx.violations.append(violation(name, case, multi, seed, status, diffs[0], "sequence", variant))
            ctx.violations[-1]["cfg"]["chosen"] = chosen  # the replay draws the same sequence (its length is part of the draw)
            return
        if fresh is None:
            continue
        fstatus, _, fres = observe(name, func, fresh)
        if fstatus != status or (status == "ok" and canon_result(res) != canon_result(fres)):
            ctx.violations.append(
                {
                    "what": f"{public_name(name)} answers differently on reused objects than on fresh copies: {brief(canon_result(res), 100)} vs {brief(canon_result(fres), 100)} ({status} vs {fstatus})",
                    "case": case.to_json(),
                    "cfg": {"multi": multi, "seed": seed, "entry": name, "mode": "sequence", "chosen": chosen, "variant": variant},
                    "sig": {"call": public_name(name), "arg": "<answer>"},
                }
            )
            return


def static_summary():
    """entry point -> list of write sites, from the translator (same code that writes Gen/Effects.lean)"""
    try:
        from .. import translate_effects

        return translate_effects.summary(core.REPO)
    except Exception as ex:  # noqa: BLE001
        return {"error": repr(ex)}


def run(ctx):
    ctx.rule = RULE
    n = ctx.scale(120, 1500)
    nseq = ctx.scale(100, 1000)
    solver_budget = ctx.scale(60, 400)
    solver_tasks = []
    for _ in range(n):
        case = gen_case(ctx.rng)
        multi = ctx.rng.random() < 0.35
        seed = ctx.rng.getrandbits(32)
        run_election(ctx, case, multi, seed, solver_tasks, solver_budget)
    for _ in range(nseq):
        case = gen_case(ctx.rng)
        multi = ctx.rng.random() < 0.3
        seed = ctx.rng.getrandbits(32)
        run_sequence(ctx, case, multi, seed, ctx.rng.randint(3, 6))
    # the same two streams over the less usual constructions of the profile argument (drawn after the standard ones: their
    # stream is unchanged); solver entries of these elections share the solver budget
    nvar = ctx.scale(48, 600)
    solver_budget += ctx.scale(16, 100)
    for k in range(nvar):
        case = gen_case(ctx.rng)
        multi = ctx.rng.random() < 0.4
        seed = ctx.rng.getrandbits(32)
        run_election(ctx, case, multi, seed, solver_tasks, solver_budget, VARIANTS[k % len(VARIANTS)])
    for k in range(ctx.scale(40, 400)):
        case = gen_case(ctx.rng)
        multi = ctx.rng.random() < 0.4
        seed = ctx.rng.getrandbits(32)
        run_sequence(ctx, case, multi, seed, ctx.rng.randint(3, 6), VARIANTS[k % len(VARIANTS)])
    results = run_solver_tasks(ctx, solver_tasks)
    for t in solver_tasks:
        r = results.get(t["id"])
        if r is None or r["status"] in ("aborted", "n/a"):
            continue
        case = Case.from_json(t["case"])
        record(ctx, t["entry"], case, r["status"])
        ctx.count("solver_calls", public_name(t["entry"]))
        for d in r["diffs"][:1]:
            ctx.violations.append(violation(t["entry"], case, t["multi"], t["seed"], r["status"], tuple(d), "solver", t.get("variant", "standard")))
    # correspondence with the static write summary (Lean side: regenerated Gen.Effects through the `effects` command):
    # an entry point whose summary is clean must show no difference here; a reported write must be in its summary
    summ = static_summary()
    ctx.extra["static_write_summary"] = {k: v for k, v in summ.items() if v} if isinstance(summ, dict) else summ
    ctx.extra["static_entry_points"] = len(summ) if isinstance(summ, dict) else 0
    exercised = sorted(ctx.dist.get("entry", {}))
    known = [e for e in exercised if isinstance(summ, dict) and e in summ]
    answers = core.run_driver(["effects F=%s" % e for e in known])
    model = dict(zip(known, answers))
    ctx.extra["entries_without_static_row"] = [e for e in exercised if e not in model]
    seen_dyn = {}
    for v in ctx.violations:
        if v["sig"]["arg"] != "<answer>":
            seen_dyn.setdefault(v["sig"]["call"], set()).add(v["sig"]["arg"])
    for e in known:
        m = model[e]
        dyn = seen_dyn.get(e, set())
        stat = set(m[len("ok writes "):].split(",")) if m.startswith("ok writes ") else set()
        if e == "calculate_effective_supports":
            stat.discard("instance")
        if not m.startswith("ok") or not dyn <= stat:
            ctx.disagreements.append({"line": "effects F=%s" % e, "impl": "writes to %s" % sorted(dyn), "model": m})
        ctx.sample(f"effects F={e} -> model {m} | impl writes {sorted(dyn)} in {ctx.dist['entry'][e]} calls", cap=8)
    # one violation per (call, arg) is enough
    first = {}
    for v in ctx.violations:
        k = (v["sig"]["call"], v["sig"]["arg"])
        ctx.count("violation_sites", "%s:%s" % k)
        first.setdefault(k, v)
    ctx.violations = list(first.values())
    ctx.sample("entries exercised: %d distinct; statuses %s" % (len(ctx.dist.get("entry", {})), ctx.dist.get("status")), cap=9)


def search(ctx, disagreements):
    ctx.rule = RULE
    tasks = []
    for k in range(600):
        case = gen_case(ctx.rng)
        run_election(ctx, case, ctx.rng.random() < 0.35, ctx.rng.getrandbits(32), tasks, 0, (["standard"] + VARIANTS)[k % (1 + len(VARIANTS))])
        if len(ctx.violations) >= 5:
            break


def replay(payload):
    case = Case.from_json(payload["case"])
    cfg = payload["cfg"]
    variant = cfg.get("variant", "standard")
    w = World(case, cfg["multi"], cfg["seed"], variant)
    E = all_entries(w)
    want = payload.get("sig", {})
    bad = []

    class C:  # minimal ctx
        def __init__(self):
            self.violations = []
            self.evaluations = 0
            self.nontrivial = set()
            self.solver_faults = 0

        def count(self, *a, **k):
            pass

    c = C()
    if cfg.get("mode") == "sequence":
        run_sequence(c, case, cfg["multi"], cfg["seed"], len(cfg.get("chosen", [])) or 6, variant)
        bad = c.violations
    elif cfg.get("mode") == "solver":
        t = {"id": 0, "case": payload["case"], "multi": cfg["multi"], "seed": cfg["seed"], "entry": cfg["entry"], "variant": variant}
        r = run_solver_tasks(c, [t]).get(0, {"diffs": [], "status": "aborted"})
        bad = [violation(cfg["entry"], case, cfg["multi"], cfg["seed"], r["status"], tuple(d), "solver", variant) for d in r["diffs"][:1]]
    else:
        run_election(c, case, cfg["multi"], cfg["seed"], [], 0, variant)
        bad = c.violations
    for v in bad:
        if v["sig"].get("call") == want.get("call"):
            return False, "still fails: " + v["what"]
    if bad:
        return False, "still fails (other site): " + bad[0]["what"]
    return True, "inputs untouched on the replayed election (%d entry points)" % len(E)


if __name__ == "__main__":
    if len(sys.argv) >= 4 and sys.argv[1] == "--worker":
        worker_main(sys.argv[2], sys.argv[3])
