"""C16 — multiprofiles are faithful multisets of ballots (any insertion order, any append/extend history, >=3 hash seeds).

Main process: generates histories, computes the expected multiset from the *content* of the ballots with its own
code, asks the Lean model (`multi` command) and compares everything with what worker processes observed on the
real classes.  Worker (`python -m harness.props.C16 --worker`, one per PYTHONHASHSEED, all histories batched):
builds the real ballots step by step, converts / appends / extends, and reports len, num_ballots, entries,
multiplicities, equality and hashes of the frozen ballots, contents and name/meta after freezing.
"""
from __future__ import annotations

import json
import os
import random
import subprocess
import sys
from collections import Counter
from fractions import Fraction as F

from .. import core

RULE = (
    "seeded histories: <=4 prototype contents x random construction orders (shuffled inserts, add/discard noise, overwritten "
    "scores, re-appended projects), start = as_multiprofile of a list profile | MultiProfile(init) | empty, then random "
    "append/extend/extend(profile) steps; every history runs under >=3 PYTHONHASHSEED values; non-trivial = some content "
    "occurs >=2 times with different construction steps; distinct by history hash; a second stream draws the project names from a "
    "pool of look-alikes (differing only in case / blanks / punctuation, prefixes of each other, numeric-looking, non-ASCII, empty); "
    "a third stream ('feeds') has up to 14 voters, delivers the ballots to extend / update / the constructors (init=, profile=) as list, "
    "tuple, one-shot iterator, generator of freshly built temporary ballots or (extend) generator refilling and re-yielding one ballot "
    "object, uses every container that may legally hold the ballots (typed multiprofile with default / FrozenBallot / abstract "
    "ballot_type or validation off, generic MultiProfile) and, for scores, mixes CardinalBallot and CumulativeBallot voters with equal "
    "scores; in every history each frozen ballot is also rebuilt in every other frozen class of the same builtin base and "
    "a == b => hash(a) == hash(b) is checked over all pairs"
)
ASSUMPTIONS = [
    "ballot content = approved set / final score mapping / ranking (first occurrences); projects are compared by name",
    "the model is given the net insertion sequence of a ballot (discarded / deleted projects removed)",
    "the multiset of a feed is the sequence of ballots as delivered (a generator may refill and re-yield one object: extend is documented to freeze what it receives)",
    "a CardinalBallot and a CumulativeBallot with the same scores are equal ballots iff the library's own == on them says so (it does: dict equality)",
    "the feeds stream is compared with the same Lean model (update = extend; every delivery mode = the list of ballots; mixed classes = cardinal)",
]
TRUSTED = ["CPython dict insertion order (entries are also compared as a multiset)", "subprocess workers started with PYTHONHASHSEED set in the environment"]

NAMES = ["p%d" % i for i in range(10)] + ["a", "b", "zz", "Ab", "q17", "x_y", "proj", "P", "k9", "0"]
SCORES = [0, 1, 2, 3, 5, F(1, 2), F(7, 3)]
# float scores are legal scores too ("f:<repr>" in the protocol).  Their content is their EXACT binary value: 0.1 is not 1/10,
# 0.5 is 1/2 (and hashes like it), 2.0 is 2.  Drawn by a generator of their own, so the exact-score histories keep their seeds.
FLOAT_SCORES = [0.1, 0.3, 0.1 + 0.2, 1 / 3, 0.5, 2.0, 1e-3, 2.5, 0.7]


def _tok(s):
    return "f:" + repr(s) if isinstance(s, float) else core.q2s(s)


def score_exact(tok):
    """the exact rational value of a protocol score"""
    tok = str(tok)
    return F(float(tok[2:])) if tok.startswith("f:") else F(tok)


def score_value(tok):
    """the object handed to the library: a Python float, or the exact number type of the library"""
    tok = str(tok)
    return float(tok[2:]) if tok.startswith("f:") else core.to_num(F(tok))
# second pool ("close" names): names that differ only in letter case, are prefixes of each other, look like numbers, differ only in
# blanks / punctuation, or are not ASCII.  Project identity is the exact name (Project.__eq__/__hash__), so all of these are DISTINCT
# projects; whatever canonical order the frozen classes use must be a total order on them (an order that identifies or cannot compare
# two of them leaves them in arrival order, and equal approval sets freeze to unequal tuples).
CLOSE_NAMES = [
    "Park", "park", "PARK", "pArk", "parK", "Parks", "par",
    "a", "A", "ab", "aB", "Ab", "AB", "a b", "a_b", "A_B", "a-b", "a ", " a", "",
    "p", "p1", "P1", "p10", "p2", "p01",
    "1", "01", "10", "2", "1.0", "-1", "1e1",
    "\u00e9", "\u00c9", "e", "e\u0301", "\u00df", "ss", "SS", "\u0130", "i", "I", "\u0131",
]
POOLS = {"plain": NAMES, "close": CLOSE_NAMES}


# ----------------------------------------------------------------------------------------------
# generation (main process)


def _shuffled(rng, l):
    l = list(l)
    rng.shuffle(l)
    return l


def gen_voter_steps(rng, btype, proto, names):
    """a random construction of the prototype content `proto`"""
    steps = []
    if btype == "app":
        others = [n for n in names if n not in proto]
        order = _shuffled(rng, proto)
        noise = rng.random() < 0.5 and others
        if noise:
            extra = rng.sample(others, rng.randint(1, min(4, len(others))))
            seq = _shuffled(rng, [("add", n) for n in order] + [("add", n) for n in extra])
            steps = [[a, n] for a, n in seq]
            # re-add some members, then discard the extras in random order
            for n in rng.sample(order, rng.randint(0, len(order))):
                steps.append(["add", n])
            for n in _shuffled(rng, extra):
                steps.append(["discard", n])
        else:
            steps = [["add", n] for n in order]
            if order and rng.random() < 0.3:
                steps.append(["add", rng.choice(order)])
        if rng.random() < 0.2:
            # one bulk update instead of single adds
            steps = [["update", order]] + [s for s in steps if s[0] != "add"]
            if noise:
                steps = [["update", order + extra]] + [["discard", n] for n in _shuffled(rng, extra)]
    elif btype in ("card", "cum"):
        items = _shuffled(rng, list(proto.items()))
        for n, s in items:
            if rng.random() < 0.25:
                steps.append(["set", n, _tok(rng.choice(SCORES))])  # overwritten below
        steps = _shuffled(rng, steps)
        for n, s in items:
            steps.append(["set", n, _tok(s)])
        others = [n for n in names if n not in proto]
        if others and rng.random() < 0.3:
            n = rng.choice(others)
            k = rng.randint(0, len(steps))
            steps.insert(k, ["set", n, "1"])
            steps.append(["del", n])
    else:
        steps = [["append", n] for n in proto]
        # re-appending a ranked project does not move it
        for _ in range(rng.randint(0, 2)):
            if proto:
                steps.insert(rng.randint(1, len(steps)), ["append", None])
        seen = []
        out = []
        for s in steps:
            if s[1] is None:
                if seen:
                    out.append(["append", rng.choice(seen)])
            else:
                out.append(s)
                seen.append(s[1])
        steps = out
    # a ballot may be frozen in the middle of its construction and edited afterwards (anything remembered by that early
    # freeze must not survive the later edits); cardinal ballots are also edited through the other dict mutators
    if steps and rng.random() < 0.35:
        if btype in ("card", "cum"):
            steps = [(["updset", st[1], st[2]] if st[0] == "set" and rng.random() < 0.5 else (["pop", st[1]] if st[0] == "del" and rng.random() < 0.5 else st)) for st in steps]
        steps.insert(rng.randint(1, len(steps)) if len(steps) > 1 else 0, ["freeze"])
        if len(steps) > 3 and rng.random() < 0.3:
            steps.insert(rng.randint(0, len(steps) - 1), ["freeze"])
    return steps


def _close_sample(r, m):
    """m names of the close pool, biased towards whole clusters of look-alikes (case-folded / stripped of non-alphanumerics equal)"""
    fold = lambda n: "".join(ch for ch in n.casefold() if ch.isalnum())
    clusters = {}
    for n in CLOSE_NAMES:
        clusters.setdefault(fold(n), []).append(n)
    groups = _shuffled(r, list(clusters.values()))
    out = []
    for g in groups:
        g = _shuffled(r, g)
        out.extend(g[: r.randint(1, len(g))])
        if len(out) >= m:
            break
    return _shuffled(r, out[:m])


def gen_history(rng: random.Random, pool="plain", feeds=False):
    sub = rng.getrandbits(48)
    r = random.Random(sub)
    btype = r.choice(["app", "card", "cum", "ord"]) if pool == "plain" else r.choice(["app", "app", "app", "card", "cum", "ord"])
    m = r.randint(1, 9) if pool == "plain" else r.randint(2, 9)
    names = r.sample(NAMES, m) if pool == "plain" else _close_sample(r, m)
    k = r.randint(1, 4)
    protos = []
    for _ in range(k):
        if btype == "app":
            x = r.random()
            protos.append([] if x < 0.08 else list(names) if x < 0.16 else [n for n in names if r.random() < 0.6])
        elif btype in ("card", "cum"):
            protos.append({n: r.choice(SCORES) for n in names if r.random() < 0.6})
        else:
            protos.append(r.sample(names, r.randint(0, m)))
    if btype in ("card", "cum") and len(protos) >= 2 and protos[0] and r.random() < 0.4:
        # same keys, one different score: must stay a different entry
        d = dict(protos[0])
        key = r.choice(list(d))
        d[key] = d[key] + 1
        protos[1] = d
    if btype in ("card", "cum"):
        fr = random.Random(sub ^ 0xF10A7)
        if fr.random() < 0.3:
            # some scores are floats; sometimes one voter casts the float and another the fraction a reader would take it for
            # (0.1 vs 1/10: different ballots), or the fraction it IS (0.5 vs 1/2, the exact value of 0.1: equal ballots)
            for d in list(protos):
                for key in list(d):
                    if fr.random() < 0.4:
                        d[key] = fr.choice(FLOAT_SCORES)
            src = [d for d in protos if any(isinstance(v, float) for v in d.values())]
            if src and fr.random() < 0.7:
                d0 = fr.choice(src)
                how = fr.choice(["looks-like", "exact"])
                protos.append({k2: ((F(repr(v)) if how == "looks-like" else F(v)) if isinstance(v, float) else v) for k2, v in d0.items()})
                k = len(protos)
    if btype == "ord" and len(protos) >= 2 and len(protos[0]) >= 2 and r.random() < 0.4:
        # same set, different ranking: must stay a different entry
        protos[1] = list(reversed(protos[0]))
    n = r.randint(1, 8)
    voters = []
    for i in range(n):
        proto = protos[i] if i < k else r.choice(protos)
        voters.append({"steps": gen_voter_steps(r, btype, proto, names), "name": r.choice(["", "v%d" % i, "voter"]), "meta": r.choice([{}, {"district": "d%d" % (i % 3)}, {"age": "3%d" % i, "x": "y"}]),
                       # how the frozen ballot of this voter is constructed: ballot.frozen(), or the frozen class called directly on the
                       # content in a shuffled order (tuple / list), on another frozen ballot, or as a concatenation of two frozen halves
                       "fmode": r.choice(["frozen"] * 6 + ["direct_tuple", "direct_list", "from_frozen", "concat"]), "fseed": r.getrandbits(16)})
    r.shuffle(voters)
    kind = r.choice(["conv", "conv", "ctor", "empty"])
    n0 = 0 if kind == "empty" else r.randint(0, n)
    ops = []
    i = n0
    while i < n:
        x = r.random()
        if x < 0.4:
            ops.append({"op": "append", "voters": [i]})
            i += 1
        else:
            j = r.randint(i, n)  # possibly an empty extend
            ops.append({"op": r.choice(["extend", "extend_frozen", "extend_profile"]), "voters": list(range(i, j))})
            i = j
    h = {"btype": btype, "names": names, "voters": voters, "start": {"kind": kind, "n": n0}, "ops": ops, "seed": sub}
    if pool != "plain":
        h["pool"] = pool
    if feeds:
        decorate_feeds(h, r)
    return h


# how a sequence of ballots is DELIVERED to extend / update / a constructor: as a list (every ballot alive and unchanged during the
# call), a tuple, a one-shot iterator, a generator of freshly built temporaries (nobody but the consumer holds the ballot; it is
# gone when the next one is built) or - extend only, which is documented to freeze what it is given - a generator that refills and
# re-yields ONE ballot object.  The multiset is the sequence of ballots as they were delivered.
FEEDS_MUTABLE = ["list", "gen", "gen", "gen", "reuse", "reuse", "iter", "tuple"]
FEEDS_FROZEN = ["list", "gen", "gen", "iter", "tuple"]
# containers that may legally hold the frozen ballots of a history (typed = the multiprofile class of the ballot type)
CONTAINERS = [{"kind": "typed"}] * 4 + [{"kind": "typed", "ballot_type": "FrozenBallot"}, {"kind": "typed", "ballot_type": "abstract_kind"},
                                         {"kind": "typed", "ballot_type": "AbstractBallot"}, {"kind": "typed", "validation": False}, {"kind": "generic"}, {"kind": "generic"}]
CONTAINERS_MIXED = [c for c in CONTAINERS if c != {"kind": "typed"}]


def _proto_of(btype, steps):
    c = content_of_steps(btype, steps)
    return {n: F(s) for n, s in c} if btype in ("card", "cum") else list(c)


def decorate_feeds(h, r):
    """second family of histories (drawn after the plain history is complete, from the same per-history generator): more voters,
    longer feeds, delivery modes, containers of other legal configurations, and - cardinal scores - voters whose equal ballots are
    partly CardinalBallot and partly CumulativeBallot objects (a CumulativeBallot is a CardinalBallot: one CardinalProfile, a generic
    MultiProfile, a CardinalMultiProfile validating against a common base class hold both)"""
    bt = h["btype"]
    voters = h["voters"]
    for _ in range(r.randint(0, 6)):
        src = r.choice(voters)
        i = len(voters)
        voters.append({"steps": gen_voter_steps(r, bt, _proto_of(bt, src["steps"]), h["names"]), "name": r.choice(["", "v%d" % i, "voter"]),
                       "meta": r.choice([{}, {"district": "d%d" % (i % 3)}]), "fmode": r.choice(["frozen"] * 6 + ["direct_tuple", "direct_list", "from_frozen", "concat"]), "fseed": r.getrandbits(16)})
    r.shuffle(voters)
    n = len(voters)
    mixed = bt in ("card", "cum") and r.random() < 0.6
    if mixed:
        h["btype"] = bt = "card"
        h["mixed"] = True
        for v in voters:
            v["cls"] = r.choice(["card", "cum"])
    h["container"] = dict(r.choice(CONTAINERS_MIXED if mixed else CONTAINERS))
    typed = h["container"]["kind"] == "typed"
    st = h["start"]
    if r.random() < 0.5:
        st["n"] = min(st["n"], r.randint(0, 2))
    n0 = st["n"]
    if st["kind"] == "conv" and mixed:
        # CardinalProfile.as_multiprofile validates against FrozenCardinalBallot and refuses the frozen cumulative ballots
        st["kind"] = "ctor_profile" if typed else "ctor"
    elif st["kind"] == "ctor" and typed and r.random() < 0.35:
        st["kind"] = "ctor_profile"
    if st["kind"] == "ctor_profile":
        st["k"] = r.randint(0, n0)
    if st["kind"] != "empty":
        st["feed"] = r.choice(["list", "gen", "gen", "iter", "tuple"])
    ops = []
    i = n0
    while i < n:
        x = r.random()
        if x < 0.15:
            ops.append({"op": "append", "voters": [i]})
            i += 1
            continue
        j = max(r.randint(i, n), r.randint(i, n))
        op = r.choice(["extend", "extend", "extend", "extend_frozen", "update", "extend_profile"])
        o = {"op": op, "voters": list(range(i, j))}
        if op == "extend":
            o["feed"] = r.choice(FEEDS_MUTABLE)
        elif op != "extend_profile":
            o["feed"] = r.choice(FEEDS_FROZEN)
        ops.append(o)
        i = j
    h["ops"] = ops
    h["variant"] = "feeds"


# ----------------------------------------------------------------------------------------------
# independent content (main process; no library code)


def content_of_steps(btype, steps):
    steps = [st for st in steps if st[0] != "freeze"]
    steps = [(["set", st[1], st[2]] if st[0] == "updset" else (["del", st[1]] if st[0] == "pop" else st)) for st in steps]
    if btype == "app":
        s = set()
        for st in steps:
            if st[0] == "add":
                s.add(st[1])
            elif st[0] == "discard":
                s.discard(st[1])
            else:
                s.update(st[1])
        return sorted(s)
    if btype in ("card", "cum"):
        d = {}
        for st in steps:
            if st[0] == "set":
                d[st[1]] = score_exact(st[2])
            else:
                d.pop(st[1], None)
        return sorted([n, core.q2s(v)] for n, v in d.items())
    out = []
    for st in steps:
        if st[1] not in out:
            out.append(st[1])
    return out


def net_raw(btype, steps):
    """net insertion sequence handed to the model (same content, an insertion order of it)"""
    steps = [st for st in steps if st[0] != "freeze"]
    steps = [(["set", st[1], st[2]] if st[0] == "updset" else (["del", st[1]] if st[0] == "pop" else st)) for st in steps]
    if btype == "app":
        seq = []
        for st in steps:
            if st[0] == "add":
                seq.append(st[1])
            elif st[0] == "update":
                seq.extend(st[1])
            else:
                seq = [x for x in seq if x != st[1]]
        return seq
    if btype in ("card", "cum"):
        seq = []
        for st in steps:
            if st[0] == "set":
                seq.append((st[1], st[2]))
            else:
                seq = [x for x in seq if x[0] != st[1]]
        return seq
    return [st[1] for st in steps]


def enc_raw(btype, raw, rank):
    if not raw:
        return "_"
    if btype in ("card", "cum"):
        return ".".join(f"{rank[n]}~{core.q2s(score_exact(s))}" for n, s in raw)  # a float score enters the model as its exact value
    return ".".join(str(rank[n]) for n in raw)


def model_line(h):
    rank = {n: i for i, n in enumerate(sorted(h["names"]))}
    bt = h["btype"]
    ty = {"app": "app", "card": "card", "cum": "card", "ord": "ord"}[bt]
    raws = [enc_raw(bt, net_raw(bt, v["steps"]), rank) for v in h["voters"]]
    n0 = h["start"]["n"]
    ops = []
    for op in h["ops"]:
        if op["op"] == "append":
            ops.append("a:" + raws[op["voters"][0]])
        else:
            ops.append("e:" + "|".join(raws[i] for i in op["voters"]))
    return f"multi T={ty} I={'|'.join(raws[:n0])} O={';'.join(ops)}"


def enc_content(btype, c, rank):
    if not c:
        return "_"
    if btype in ("card", "cum"):
        return ".".join(f"{rank[n]}~{s}" for n, s in c)
    return ".".join(str(rank[n]) for n in c)


def impl_line(h, obs):
    rank = {n: i for i, n in enumerate(sorted(h["names"]))}
    return f"ok {obs['num']} {obs['len']} " + "|".join(f"{m}*{enc_content(h['btype'], c, rank)}" for c, m in obs["entries"])


# ----------------------------------------------------------------------------------------------
# worker (runs the real library)


def _content(btype, b):
    if btype == "app":
        return sorted(p.name for p in b)
    if btype in ("card", "cum"):
        return sorted([p.name, core.q2s(s)] for p, s in b.items())
    return [p.name for p in b]


def _frozen_classes(e):
    """every concrete frozen ballot class the library exports, grouped by its builtin base (dict-based classes can compare equal
    to each other, tuple-based ones too)"""
    out = {}
    for k in sorted(vars(e)):
        c = getattr(e, k)
        if isinstance(c, type) and issubclass(c, e.FrozenBallot) and c is not e.FrozenBallot and not getattr(c, "__abstractmethods__", None):
            base = dict if issubclass(c, dict) else tuple if issubclass(c, tuple) else None
            if base is not None:
                out.setdefault(base, []).append(c)
    return out


def worker_run(h):
    import pabutools.election as e

    bt = h["btype"]
    BALS = {"app": e.ApprovalBallot, "card": e.CardinalBallot, "cum": e.CumulativeBallot, "ord": e.OrdinalBallot}
    FROZS = {"app": e.FrozenApprovalBallot, "card": e.FrozenCardinalBallot, "cum": e.FrozenCumulativeBallot, "ord": e.FrozenOrdinalBallot}
    PROF = {"app": e.ApprovalProfile, "card": e.CardinalProfile, "cum": e.CumulativeProfile, "ord": e.OrdinalProfile}[bt]
    MULTI = {"app": e.ApprovalMultiProfile, "card": e.CardinalMultiProfile, "cum": e.CumulativeMultiProfile, "ord": e.OrdinalMultiProfile}[bt]
    projs = {n: e.Project(n, 1) for n in h["names"]}
    inst = e.Instance(projs.values(), budget_limit=3)
    voters = h["voters"]

    def cls_of(v):
        return v.get("cls", bt)  # mixed histories: cardinal and cumulative ballots side by side

    def build(v, into=None):
        """the ballot of voter `v`, built step by step - a new object, or `into` emptied and refilled"""
        if into is None:
            b = BALS[cls_of(v)](name=v["name"], meta=dict(v["meta"]))
        else:
            b = into
            b.clear()
            b.name, b.meta = v["name"], dict(v["meta"])
        for st in v["steps"]:
            if st[0] == "freeze":
                b.frozen()
            elif st[0] == "updset":
                b.update({projs[st[1]]: score_value(st[2])})
            elif st[0] == "pop":
                b.pop(projs[st[1]])
            elif st[0] == "add":
                b.add(projs[st[1]])
            elif st[0] == "discard":
                b.discard(projs[st[1]])
            elif st[0] == "update":
                b.update([projs[n] for n in st[1]])
            elif st[0] == "set":
                b[projs[st[1]]] = score_value(st[2])
            elif st[0] == "del":
                del b[projs[st[1]]]
            else:
                b.append(projs[st[1]])
        return b

    ballots = [build(v) for v in voters]

    def freeze(b, v):
        mode, fs = v.get("fmode", "frozen"), v.get("fseed", 0)
        FROZ = FROZS[cls_of(v)]
        if mode == "frozen":
            return b.frozen()
        rr = random.Random(fs)
        if mode == "from_frozen":
            return FROZ(b.frozen())
        if bt in ("card", "cum"):
            items = list(b.items())
            rr.shuffle(items)
            return FROZ(dict(items), name=b.name, meta=b.meta)
        if bt == "app":
            items = list(b)
            rr.shuffle(items)
        else:
            items = list(b)  # a ranking: the order is the content
        if mode == "concat" and len(items) >= 2:
            k = rr.randint(1, len(items) - 1)
            return FROZ(tuple(items[:k]), name=b.name, meta=b.meta) + FROZ(tuple(items[k:]), name=b.name, meta=b.meta)
        return FROZ(tuple(items) if mode == "direct_tuple" else list(items), name=b.name, meta=b.meta)

    def fresh(idx, frozen):
        # temporaries: built when asked for, handed over, not kept
        for i in idx:
            if frozen:
                yield freeze(build(voters[i]), voters[i])
            else:
                yield build(voters[i])

    def refilled(idx):
        # one ballot object (per ballot class) emptied, refilled and handed over again for every voter
        slot = {}
        for i in idx:
            k = cls_of(voters[i])
            slot[k] = build(voters[i], slot.get(k))
            yield slot[k]

    def feed(idx, mode, frozen):
        if mode == "gen":
            return fresh(idx, frozen)
        if mode == "reuse" and not frozen:
            return refilled(idx)
        live = [freeze(ballots[i], voters[i]) if frozen else ballots[i] for i in idx]
        return {"list": list, "tuple": tuple, "iter": iter}.get(mode, list)(live)

    cont = h.get("container", {"kind": "typed"})

    def new_multi(init=(), profile=None):
        kw = {"instance": inst}
        if cont.get("ballot_type"):
            abstract = {"app": "AbstractApprovalBallot", "card": "AbstractCardinalBallot", "cum": "AbstractCumulativeBallot", "ord": "AbstractOrdinalBallot"}[bt]
            kw["ballot_type"] = {"FrozenBallot": e.FrozenBallot, "AbstractBallot": e.AbstractBallot, "abstract_kind": getattr(e, abstract)}[cont["ballot_type"]]
        if cont.get("validation") is False:
            kw["ballot_validation"] = False
        if profile is not None:
            kw["profile"] = profile
        return (e.MultiProfile if cont["kind"] == "generic" else MULTI)(init, **kw)

    n0 = h["start"]["n"]
    kind = h["start"]["kind"]
    sfeed = h["start"].get("feed", "list")
    if kind == "conv":
        mp = PROF(feed(range(n0), sfeed, False), instance=inst).as_multiprofile()
    elif kind == "ctor":
        mp = new_multi(feed(range(n0), sfeed, True))
    elif kind == "ctor_profile":
        k0 = h["start"]["k"]
        mp = new_multi(feed(range(k0), sfeed, True), profile=PROF(ballots[k0:n0], instance=inst))
    else:
        mp = new_multi()
    for op in h["ops"]:
        idx = op["voters"]
        mode = op.get("feed", "list")
        if op["op"] == "append":
            mp.append(freeze(ballots[idx[0]], voters[idx[0]]))
        elif op["op"] == "extend":
            mp.extend(feed(idx, mode, False))
        elif op["op"] == "extend_frozen":
            mp.extend(feed(idx, mode, True))
        elif op["op"] == "update":
            mp.update(feed(idx, mode, True))
        else:
            mp.extend(PROF([ballots[i] for i in idx], instance=inst))
    frozen = [freeze(b, v) for b, v in zip(ballots, voters)]
    # the law a == b => hash(a) == hash(b) over every pair of frozen ballot classes that can compare equal: besides the frozen
    # ballots of the voters, the same content held by each of the other frozen classes with the same builtin base
    twins = []
    fclasses = _frozen_classes(e)
    for f in frozen:
        base = dict if isinstance(f, dict) else tuple
        for K in fclasses.get(base, []):
            if K is not type(f):
                try:
                    twins.append(K(base(f), name=f.name, meta=f.meta))
                except Exception:  # noqa: BLE001 - that class does not take this content (a ranking with a repeated project, ...)
                    pass
    pool = frozen + twins
    xhash = []
    for i, x in enumerate(pool):
        for y in pool[i + 1:]:
            if type(x) is not type(y) and x == y and hash(x) != hash(y):
                xhash.append([type(x).__name__, type(y).__name__, _content(bt, x)])
    obs = {
        "type": type(mp).__name__,
        "len": len(mp),
        "num": mp.num_ballots(),
        "entries": [[_content(bt, fb), mp[fb]] for fb in mp],
        "entry_types": sorted({type(fb).__name__ for fb in mp}),
        "mult": [mp.multiplicity(f) for f in frozen],
        "in": [f in mp for f in frozen],
        "hash": [hash(f) for f in frozen],
        "eq": ["".join("1" if f == g else "0" for g in frozen) for f in frozen],
        "beq": ["".join("1" if f == g else "0" for g in ballots) for f in ballots] if h.get("mixed") else None,
        "xhash": xhash[:3],
        "fcontent": [_content(bt, f) for f in frozen],
        "bcontent": [_content(bt, b) for b in ballots],
        "fname": [f.name for f in frozen],
        "fmeta": [f.meta if isinstance(f.meta, dict) else repr(f.meta) for f in frozen],
        "bname": [b.name for b in ballots],
        "bmeta": [b.meta if isinstance(b.meta, dict) else repr(b.meta) for b in ballots],
        "forder": [[p.name for p in f] for f in frozen] if bt == "app" else None,
        "refreeze_eq": all(b.frozen() == f and hash(b.frozen()) == hash(f) for b, f in zip(ballots, frozen)),
    }
    return obs


def worker_main():
    hs = json.load(sys.stdin)
    out = []
    for h in hs:
        try:
            out.append({"ok": worker_run(h)})
        except Exception as ex:  # noqa: BLE001
            out.append({"exc": f"{type(ex).__name__}: {ex}"})
    json.dump({"hashseed": os.environ.get("PYTHONHASHSEED"), "flags_hash_randomization": sys.flags.hash_randomization, "results": out}, sys.stdout)


def run_workers(histories, seeds):
    env = dict(os.environ)
    env["PYTHONPATH"] = core.VERIF + os.pathsep + env.get("PYTHONPATH", "")
    env["PABU_REPO"] = core.REPO
    procs = []
    data = json.dumps(histories).encode()
    for s in seeds:
        e2 = dict(env)
        e2["PYTHONHASHSEED"] = str(s)
        p = subprocess.Popen([sys.executable, "-m", "harness.props.C16", "--worker"], cwd=core.VERIF, env=e2, stdin=subprocess.PIPE, stdout=subprocess.PIPE, stderr=subprocess.PIPE)
        procs.append((s, p))
    res = {}
    # feed sequentially (inputs are small), processes run concurrently
    import threading

    def feed(s, p):
        out, err = p.communicate(data, timeout=900)
        res[s] = (p.returncode, out, err)

    ts = [threading.Thread(target=feed, args=sp) for sp in procs]
    for t in ts:
        t.start()
    for t in ts:
        t.join()
    outs = {}
    for s in seeds:
        rc, out, err = res[s]
        if rc != 0:
            raise core.DriverError(f"C16 worker (PYTHONHASHSEED={s}) exit {rc}: {err.decode()[-400:]}")
        d = json.loads(out.decode())
        if str(d["hashseed"]) != str(s):
            raise core.DriverError("worker did not see its PYTHONHASHSEED")
        outs[s] = d["results"]
    return outs


# ----------------------------------------------------------------------------------------------
# predicate


def _call_of(h):
    calls = {"conv": "as_multiprofile", "ctor": "MultiProfile.__init__", "ctor_profile": "MultiProfile.__init__", "empty": "MultiProfile.__init__"}
    return calls[h["start"]["kind"]]


def predicate(h, obs, seed):
    """list of violations for one history under one hash seed"""
    bt = h["btype"]
    contents = [content_of_steps(bt, v["steps"]) for v in h["voters"]]
    keys = [json.dumps(c) for c in contents]
    n = len(keys)
    out = []
    if h.get("mixed") and "ok" in obs and obs["ok"].get("beq"):
        # voters "who cast an equal ballot": a cardinal and a cumulative ballot with the same scores are equal ballots exactly when the
        # library's own == on the (mutable) ballots says so (a CumulativeBallot is a CardinalBallot and both compare as dicts); were
        # they declared unequal, the two classes would be counted apart
        beq = obs["ok"]["beq"]
        cls = [x.get("cls") for x in h["voters"]]
        if any(keys[i] == keys[j] and cls[i] != cls[j] and beq[i][j] != "1" for i in range(n) for j in range(n)):
            keys = [json.dumps([c, k]) for c, k in zip(contents, cls)]

    def v(check, what, impl=None, expected=None, call=None):
        out.append({"what": what, "case": h, "cfg": {"hashseed": seed}, "impl": impl, "expected": expected, "sig": {"call": call or _call_of(h), "btype": bt, "check": check}})

    if "exc" in obs:
        v("exception", "history raised " + obs["exc"], impl=obs["exc"])
        return out
    o = obs["ok"]
    if o["bcontent"] != contents:
        v("ballot_content", "mutable ballots do not hold the inserted content", impl=o["bcontent"], expected=contents, call="Ballot")
    if o["fcontent"] != contents:
        v("frozen_content", "freezing changed the content of a ballot", impl=o["fcontent"], expected=contents, call="frozen")
    names = [x["name"] for x in h["voters"]]
    metas = [x["meta"] for x in h["voters"]]
    if o["bname"] != names or o["bmeta"] != metas:
        v("ballot_name_meta", "ballot lost the name/meta it was created with", impl=[o["bname"], o["bmeta"]], expected=[names, metas], call="Ballot.__init__")
    elif o["fname"] != names or o["fmeta"] != metas:
        v("frozen_name_meta", "freezing lost name/meta", impl=[o["fname"], o["fmeta"]], expected=[names, metas], call="frozen")
    cnt = Counter(keys)
    if o["num"] != n:
        v("num_ballots", f"num_ballots()={o['num']} for {n} voters", impl=o["num"], expected=n)
    if o["len"] != len(cnt):
        v("len", f"{o['len']} entries for {len(cnt)} distinct ballots", impl=o["len"], expected=len(cnt))
    exp_mult = [cnt[k] for k in keys]
    if o["mult"] != exp_mult:
        v("multiplicity", "multiplicity(b.frozen()) differs from the number of voters with equal content", impl=o["mult"], expected=exp_mult)
    if not all(o["in"]) and n:
        v("membership", "a voter's frozen ballot is not a key of the multiprofile", impl=o["in"])
    got = Counter()
    for c, m in o["entries"]:
        got[json.dumps(c)] += m
    cnt_content = Counter(json.dumps(c) for c in contents)
    if got != cnt_content or len(o["entries"]) != len(cnt):
        v("entries", "entries are not the multiset of contents", impl=o["entries"], expected=sorted(cnt.items()))
    for i in range(n):
        for j in range(n):
            same = keys[i] == keys[j]
            if (o["eq"][i][j] == "1") != same:
                v("frozen_eq", f"frozen ballots {i},{j}: == is {o['eq'][i][j]} but content equality is {same}", call="frozen.__eq__")
                break
            if same and o["hash"][i] != o["hash"][j]:
                v("frozen_hash", f"equal frozen ballots {i},{j} have different hashes", call="frozen.__hash__")
                break
        else:
            continue
        break
    for tx, ty, c in o.get("xhash") or []:
        v("frozen_hash_across_classes", f"a {tx} and a {ty} holding {c} are equal but their hashes differ", impl=[tx, ty, c], call="frozen.__hash__")
        break
    if not o["refreeze_eq"]:
        v("refreeze", "freezing the same ballot twice gives unequal ballots / hashes", call="frozen")
    return out


def nontrivial(h):
    bt = h["btype"]
    groups = {}
    for v in h["voters"]:
        groups.setdefault(json.dumps(content_of_steps(bt, v["steps"])), set()).add(json.dumps(v["steps"]))
    return any(len(s) >= 2 for s in groups.values())


def hkey(h):
    import hashlib

    return hashlib.sha1(json.dumps(h, sort_keys=True).encode()).hexdigest()


def pick_seeds(rng, k):
    seeds = [0]
    while len(seeds) < k:
        s = rng.randrange(1, 2**32 - 1)
        if s not in seeds:
            seeds.append(s)
    return seeds


def run_batch(ctx, histories, seeds, compare=True):
    outs = run_workers(histories, seeds)
    model = core.run_driver([model_line(h) for h in histories]) if compare else [None] * len(histories)
    for idx, h in enumerate(histories):
        ctx.count("btype", h["btype"])
        ctx.count("name_pool", h.get("pool", "plain"))
        if len({n.casefold() for n in h["names"]}) < len(h["names"]):
            ctx.count("names", "two names differ only in case")
        if any(a != b and b.startswith(a) for a in h["names"] for b in h["names"]):
            ctx.count("names", "one name is a prefix of another")
        ctx.count("start", h["start"]["kind"])
        ctx.count("voters", str(len(h["voters"])))
        for op in h["ops"]:
            ctx.count("ops", op["op"])
        if h.get("variant") == "feeds":
            ctx.count("stream", "feeds")
            c = h["container"]
            ctx.count("container", c["kind"] + (":ballot_type=" + c["ballot_type"] if c.get("ballot_type") else "") + (":validation off" if c.get("validation") is False else ""))
            if h["start"]["kind"] != "empty":
                ctx.count("feed", "%s <- %s" % (_call_of(h), h["start"].get("feed", "list")))
            for op in h["ops"]:
                if "feed" in op:
                    ctx.count("feed", "%s <- %s" % (op["op"], op["feed"]))
                    if op["feed"] in ("gen", "reuse") and len(op["voters"]) >= 3:
                        ctx.count("feed_long", "%s of >=3 ballots" % op["feed"])
            if h.get("mixed"):
                cs = [content_of_steps(h["btype"], x["steps"]) for x in h["voters"]]
                both = any(cs[i] == cs[j] and h["voters"][i]["cls"] != h["voters"][j]["cls"] for i in range(len(cs)) for j in range(i))
                ctx.count("mixed_classes", "equal scores cast as CardinalBallot and as CumulativeBallot" if both else "cardinal and cumulative ballots, no equal pair across classes")
        else:
            ctx.count("stream", "plain")
        if nontrivial(h):
            ctx.nontrivial.add(hkey(h))
            ctx.count("nontrivial", "yes")
        lines = set()
        orders = set()
        for s in seeds:
            obs = outs[s][idx]
            ctx.evaluations += 1
            vs = predicate(h, obs, s)
            # one violation per (history, check) is enough
            seen = set()
            for x in vs:
                k = (x["sig"]["check"],)
                if k not in seen:
                    seen.add(k)
                    ctx.violations.append(x)
            if "ok" in obs:
                il = impl_line(h, obs["ok"])
                lines.add(il)
                if obs["ok"]["forder"] is not None:
                    orders.add(json.dumps(obs["ok"]["forder"]))
                if compare and il != model[idx]:
                    ctx.disagreements.append({"line": model_line(h), "impl": il, "model": model[idx], "hashseed": s})
            else:
                ctx.count("exceptions", obs["exc"].split(":")[0])
        if len(lines) > 1:
            ctx.count("seed_dependent", "entries")
        if len(orders) > 1:
            ctx.count("seed_dependent", "frozen_approval_tuple_order")
        if compare and model[idx] is not None:
            ctx.sample(f"{model_line(h)} -> model {model[idx]} | impl({len(seeds)} seeds) {sorted(lines)[:2]}")


def dedupe(ctx):
    """one violation per (call, ballot type, check); the rest is counted in the distribution"""
    first = {}
    for x in ctx.violations:
        k = (x["sig"]["call"], x["sig"]["btype"], x["sig"]["check"])
        ctx.count("violation_sites", "%s:%s:%s" % k)
        first.setdefault(k, x)
    ctx.violations = list(first.values())


def run(ctx):
    ctx.rule = RULE
    n = ctx.scale(1500, 8000)
    seeds = pick_seeds(ctx.rng, ctx.scale(3, 5))
    ctx.extra["hash_seeds"] = seeds
    histories = [gen_history(ctx.rng) for _ in range(n)]
    # same histories over the pool of look-alike names (drawn after the plain ones: their stream is unchanged)
    histories += [gen_history(ctx.rng, pool="close") for _ in range(ctx.scale(600, 3000))]
    # delivery modes (generators of temporaries, one refilled ballot object, one-shot iterators) into extend / update / constructors,
    # other legal container configurations, cardinal and cumulative ballots with equal scores side by side (drawn last)
    histories += [gen_history(ctx.rng, pool="close" if i % 5 == 4 else "plain", feeds=True) for i in range(ctx.scale(1200, 6000))]
    run_batch(ctx, histories, seeds)
    dedupe(ctx)
    own_equality_stream(ctx, ctx.scale(1500, 8000))  # round 7, drawn last


def own_equality_case(seed):
    """Names of several kinds side by side: the integers 1 … 12 and their decimal strings are DIFFERENT names (`3 != "3"`), so
    they are different projects and ballots over them are different ballots.  The multiprofile is judged by the library's own
    equality of the ballots as cast: multiplicity(frozen b) = number of voters whose ballot == b; one entry per class of equal
    ballots; frozen ballots that compare equal hash alike (round 7, C16-r7B: `Project.__eq__` / `__hash__` through `str(name)`
    while `__lt__` compares the raw names).  Returns a violation or None."""
    import pabutools.election as e

    r = random.Random(seed)
    ids = r.sample(range(1, 13), r.randint(2, 5))
    kind = r.choice(["app", "card"])
    mk = {}
    voters = []
    for _ in range(r.randint(2, 6)):
        sub = r.sample(ids, r.randint(1, len(ids)))
        as_int = r.random() < 0.5
        names = [i if as_int else str(i) for i in sub]
        ps = [mk.setdefault(nm, e.Project(nm, 1)) for nm in names]
        r.shuffle(ps)
        voters.append(e.ApprovalBallot(ps) if kind == "app" else e.CardinalBallot({p: 1 + (int(p.name) % 3) for p in ps}))
    try:
        prof = (e.ApprovalProfile if kind == "app" else e.CardinalProfile)(voters)
        M = prof.as_multiprofile()
        frozen = [b.frozen() for b in voters]
        classes = []
        for i, b in enumerate(voters):
            for c in classes:
                if voters[c[0]] == b:
                    c.append(i)
                    break
            else:
                classes.append([i])
        desc = f"{kind} ballots {[sorted(map(repr, (p.name for p in b))) for b in voters]}"
        if len(M) != len(classes):
            return {"what": f"{desc}: {len(classes)} classes of equal ballots (the library's ==) but {len(M)} multiprofile entries", "case": None,
                    "cfg": {"own_equality_seed": seed}, "sig": {"kind": "own_equality", "clause": "entries"}}
        for c in classes:
            m = M.multiplicity(frozen[c[0]])
            if m != len(c):
                return {"what": f"{desc}: voters {c} cast equal ballots (the library's ==) but the multiplicity of that ballot is {m}", "case": None,
                        "cfg": {"own_equality_seed": seed}, "sig": {"kind": "own_equality", "clause": "multiplicity"}}
        for i in range(len(frozen)):
            for j in range(i):
                if frozen[i] == frozen[j] and hash(frozen[i]) != hash(frozen[j]):
                    return {"what": f"{desc}: the frozen ballots of voters {j} and {i} are equal and hash differently", "case": None,
                            "cfg": {"own_equality_seed": seed}, "sig": {"kind": "own_equality", "clause": "hash"}}
                if (frozen[i] == frozen[j]) != (voters[i] == voters[j]):
                    return {"what": f"{desc}: voters {j} and {i}: the ballots are {'equal' if voters[i] == voters[j] else 'different'}, their frozen forms are not", "case": None,
                            "cfg": {"own_equality_seed": seed}, "sig": {"kind": "own_equality", "clause": "freeze_eq"}}
    except Exception as ex:  # noqa: BLE001
        return {"what": f"int- and str-named projects side by side: {type(ex).__name__}: {ex}", "case": None, "cfg": {"own_equality_seed": seed},
                "sig": {"kind": "own_equality", "err": type(ex).__name__}}
    return None


def mapping_case(seed):
    """a multiprofile built from a MAPPING ballot -> multiplicity (a Counter, a dict), and the copies the library itself builds that way
    (`copy.deepcopy`, pickle: `__reduce__` hands `dict(self)` to the constructor): the number of voters and every multiplicity are
    those of the voters counted; and a frozen ballot built from a ballot with only `name=` / only `meta=` given keeps the other
    identifying attribute (round 8, C16-r8A / C16-r8B).  Returns a violation or None."""
    import copy
    import pickle
    from collections import Counter as PyCounter

    import pabutools.election as e

    r = random.Random(seed)
    ps = [e.Project("p%d" % i, 1) for i in range(r.randint(2, 5))]
    kind = r.choice(["app", "card", "ord"])
    distinct = []
    for _ in range(r.randint(1, 3)):
        sub = r.sample(ps, r.randint(1, len(ps)))
        distinct.append(e.ApprovalBallot(sub, name="v", meta={"d": 1}) if kind == "app" else
                        e.CardinalBallot({p: r.randint(1, 3) for p in sub}, name="v", meta={"d": 1}) if kind == "card" else e.OrdinalBallot(sub, name="v", meta={"d": 1}))
    voters = [r.choice(distinct) for _ in range(r.randint(2, 7))]
    frozen = [b.frozen() for b in voters]
    want = PyCounter(frozen)
    cls = {"app": e.ApprovalMultiProfile, "card": e.CardinalMultiProfile, "ord": e.OrdinalMultiProfile}[kind]
    prof = {"app": e.ApprovalProfile, "card": e.CardinalProfile, "ord": e.OrdinalProfile}[kind](voters)
    try:
        M = prof.as_multiprofile()
        built = {"Counter": cls(PyCounter(frozen)), "dict": cls(dict(want)), "deepcopy": copy.deepcopy(M), "pickle": pickle.loads(pickle.dumps(M)), "copy": copy.copy(M)}
        for how, X in built.items():
            if X.num_ballots() != len(voters) or any(X.multiplicity(b) != k for b, k in want.items()) or len(X) != len(want):
                return {"what": f"{kind} multiprofile via {how}: {len(voters)} voters with multiplicities {sorted(want.values())}, but it reports "
                                f"{X.num_ballots()} voters and multiplicities {sorted(X.multiplicity(b) for b in want)}", "case": None,
                        "cfg": {"mapping_seed": seed}, "sig": {"kind": "mapping", "how": how}}
        b = voters[0]
        F_ = type(b.frozen())
        f1, f2 = F_(b, name="renamed"), F_(b, meta={"given": 1})
        if f1.name != "renamed" or dict(f1.meta) != {"d": 1} or f2.name != "v" or dict(f2.meta) != {"given": 1}:
            return {"what": f"{F_.__name__}(ballot, name=...) has name {f1.name!r}, meta {f1.meta!r}; {F_.__name__}(ballot, meta=...) has name {f2.name!r}, "
                            f"meta {f2.meta!r}; the ballot's own are 'v', {{'d': 1}}", "case": None, "cfg": {"mapping_seed": seed}, "sig": {"kind": "mapping", "how": "freeze_partial"}}
    except Exception as ex:  # noqa: BLE001
        return {"what": f"multiprofile from a mapping / copies: {type(ex).__name__}: {ex}", "case": None, "cfg": {"mapping_seed": seed}, "sig": {"kind": "mapping", "err": type(ex).__name__}}
    return None


def own_equality_stream(ctx, n):
    hits = 0
    for _ in range(n):
        v = own_equality_case(ctx.rng.getrandbits(48))
        ctx.evaluations += 1
        ctx.count("stream", "names of two kinds (int / str) side by side")
        if v is not None and hits < 3:
            hits += 1
            ctx.violations.append(v)
        if _ % 3 == 0:
            v = mapping_case(ctx.rng.getrandbits(48))
            ctx.evaluations += 1
            ctx.count("stream", "multiprofile from a mapping, copies, partially named frozen ballots")
            if v is not None and hits < 5:
                hits += 1
                ctx.violations.append(v)


def search(ctx, disagreements):
    ctx.rule = RULE
    own_equality_stream(ctx, 4000)
    seeds = pick_seeds(ctx.rng, 3)
    histories = [gen_history(ctx.rng) for _ in range(3000)] + [gen_history(ctx.rng, pool="close") for _ in range(1000)] + [gen_history(ctx.rng, feeds=True) for _ in range(3000)]
    run_batch(ctx, histories, seeds, compare=False)
    dedupe(ctx)


def replay(payload):
    if payload.get("cfg", {}).get("mapping_seed") is not None:
        v = mapping_case(payload["cfg"]["mapping_seed"])
        return (False, "still fails: " + v["what"]) if v else (True, "multiprofiles built from mappings and copies count every voter on the replayed ballots")
    if payload.get("cfg", {}).get("own_equality_seed") is not None:
        v = own_equality_case(payload["cfg"]["own_equality_seed"])
        return (False, "still fails: " + v["what"]) if v else (True, "the multiprofile follows the library's own equality of the ballots on the replayed voters")
    h = payload["case"]
    seed = payload.get("cfg", {}).get("hashseed", 0)
    outs = run_workers([h], [seed])
    vs = predicate(h, outs[seed][0], seed)
    if vs:
        return False, "still fails: " + vs[0]["what"]
    return True, "property holds on the replayed history (hash seed %s)" % seed


if __name__ == "__main__":
    if "--worker" in sys.argv:
        worker_main()
