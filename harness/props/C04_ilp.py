"""C04 (ILP path) / C15 (MIP helper) — the integer programs the library REALLY builds vs. the programs of the Lean model.

The theorems of lean/PabuProofs/Properties/C04ILP.lean are about `PabuModel.WelfareILP`: the 0/1 program, the
equality `Σ score·x == opt_value`, the two integer cuts per found allocation and the enumeration loop, under the
single hypothesis that the solver returns an optimal feasible point of the program it is given (or reports
infeasibility).  This module ties that model to the code:

* worker side (`python -m harness.props.C04_ilp --interactive`, run through `solverbox.Box`, because CBC can kill the
  process): `mip.Model.add_constr`, the `objective` setter and `mip.Model.optimize` are OBSERVED (wrapped, /repo is not
  touched).  At every `optimize()` call of one library call the whole program is dumped twice: the linear expressions
  as the library built them (coefficients with their exact Python types: int / mpq are exact rationals) and the rows
  read back from the solver (doubles); the two dumps must agree (<= 1e-12 relative), then the solver's status and
  0/1 solution are recorded.  `mipcheck` re-validates every solver answer exactly (faults are discarded).
* parent side: the recorded solver answers are fed, in order, to the Lean driver (`welfareilp … ans=a0|a1|…|none`) as
  the answers of the model's oracle.  The model must then pose the SAME sequence of programs (same variables in the
  same order, same objective, same multiset of constraints — exact rationals; numbers that are floats on the Python
  side, i.e. the right-hand sides that went through `0.0 - mpq`, within 1e-12; the re-imposed optimum `== opt_value`
  is the solver's FLOAT objective value and is compared within 1e-9: a modelled-not-verified runtime point) and return
  the SAME list of allocations in the same discovery order.  Any difference is a correspondence disagreement.
"""
from __future__ import annotations

import json
import sys
from fractions import Fraction as F

REL_FLOAT = F(1, 10**12)  # numbers that are already floats/mpfr in the library's own expression
REL_OPT = F(1, 10**9)  # the float objective value re-imposed as an equality
MAX_OPTIMA = 24  # random irresolute cases with more tied optima are skipped (time); the hand-written corner cases have 10


# ----------------------------------------------------------------------------------------------
# numbers: ("n/d", exact?)  — exact iff the Python object the library used is an exact rational type


def _num(x):
    from .. import core

    t = type(x).__name__
    if isinstance(x, bool):
        return [core.q2s(int(x)), True]
    if isinstance(x, int) or t in ("mpz", "mpq") or isinstance(x, F):
        return [core.q2s(core.toF(x)), True]
    return [core.q2s(F(float(x))), False]  # float / mpfr(53 bits) / numpy float: exact value of the double


def _close(a: F, b: F, rel: F) -> bool:
    return a == b or abs(a - b) <= rel * max(abs(a), abs(b), F(1))


# ----------------------------------------------------------------------------------------------
# worker side: observation of python-mip

_CALLS = []


def _snap(lin):
    """LinExpr -> {"terms": {var name: num}, "const": num, "sense": str}"""
    return {"terms": {v.name: _num(c) for v, c in lin.expr.items()}, "const": _num(lin.const), "sense": lin.sense}


def _rec(model):
    r = getattr(model, "_pabu_ilp", None)
    if r is None:
        r = {"objective": None, "constrs": []}
        model._pabu_ilp = r
    return r


def install_capture():
    import mip

    if getattr(mip.Model, "_pabu_ilp_wrapped", False):
        return
    orig_add = mip.Model.add_constr
    orig_obj = mip.Model.objective
    orig_opt = mip.Model.optimize  # possibly already the validating wrapper of mipcheck

    def add_constr(self, lin_expr, *a, **k):
        try:
            _rec(self)["constrs"].append(_snap(lin_expr))
        except Exception as e:  # noqa: BLE001
            _rec(self)["constrs"].append({"error": repr(e)})
        return orig_add(self, lin_expr, *a, **k)

    def set_objective(self, value):
        try:
            _rec(self)["objective"] = _snap(value) if isinstance(value, mip.LinExpr) else {"error": "objective of type " + type(value).__name__}
        except Exception as e:  # noqa: BLE001
            _rec(self)["objective"] = {"error": repr(e)}
        return orig_obj.fset(self, value)

    def optimize(self, *a, **k):
        call = {"vars": [v.name for v in self.vars], "types": sorted({str(v.var_type) for v in self.vars}),
                "bounds": sorted({(float(v.lb), float(v.ub)) for v in self.vars}),
                "built": {"objective": _rec(self)["objective"], "constrs": list(_rec(self)["constrs"])}}
        try:
            call["solver"] = {"objective": _snap(self.objective), "constrs": [_snap(c.expr) for c in self.constrs],
                              "sense": str(self.sense)}
        except Exception as e:  # noqa: BLE001
            call["solver"] = {"error": repr(e)}
        _CALLS.append(call)
        st = orig_opt(self, *a, **k)
        call["status"] = getattr(st, "name", str(st))
        try:
            call["x"] = {v.name: (None if v.x is None else float(v.x)) for v in self.vars}
            ov = self.objective_value
            call["objective_value"] = None if ov is None else _num(ov)
        except Exception as e:  # noqa: BLE001
            call["x_error"] = repr(e)
        return st

    mip.Model.add_constr = add_constr
    mip.Model.objective = property(orig_obj.fget, set_objective)
    mip.Model.optimize = optimize
    mip.Model._pabu_ilp_wrapped = True


def job_welfare(d):
    from .. import core, rulegen, rules, ruleprops

    case = core.Case.from_json(d["case"])
    cfg = ruleprops.cfg_from_json(d["cfg"])
    built = rules.Built(case, multi=cfg.get("multi", False), order=cfg.get("order"))
    rulegen.fix_loads(cfg, built)
    ans, raw = rules.impl_answer(built, cfg)
    init = ".".join(str(i) for i in case.ids(cfg.get("init") or []))
    line = " ".join(t for t in ["welfareilp", case.enc_common(built.entries(), built.enum()), f"init={init}", rules.sat_tokens(built, cfg),
                                "mode=" + ("res" if cfg.get("res", True) else "irres")] if t)
    if ans[0] == "err":
        ordered = None
    elif cfg.get("res", True):
        ordered = [sorted(ans[1])]
    else:
        ordered = [sorted(o) for o in ans[1]]
    return {"answer": rules.canon(ans), "ordered": ordered, "line": line, "names": {"x_" + n: case.rank[n] for n in case.names}, "threshold": 0.99}


def job_maxcost(d):
    from pabutools.election import Project
    from pabutools.election.instance import max_budget_allocation_cost

    from .. import core

    projs = [Project(n, core.to_cost(F(c))) for n, c in d["projects"]]
    names = {"x_" + n: i for i, (n, _) in enumerate(d["projects"])}
    line = "welfareilp P={} mode=knap L={} Q={} val=cost".format(
        ",".join(f"{i}:{core.q2s(F(c))}" for i, (_, c) in enumerate(d["projects"])), ".".join(str(i) for i in range(len(projs))), core.q2s(F(d["budget"])))
    try:
        v = max_budget_allocation_cost(projs, core.to_cost(F(d["budget"])))
        answer = "ok " + core.q2s(v) + " " + type(v).__name__
    except Exception as e:  # noqa: BLE001
        answer = "err " + core.err_enum(e)
    return {"answer": answer, "ordered": None, "line": line, "names": names, "threshold": 0.5}


def job_relsat(d):
    """normaliser of Additive_Cardinal_Relative_Sat: the same program with the ballot's scores as objective"""
    from .. import core

    case = core.Case.from_json(d["case"])
    inst, projs = core.build_instance(case)
    prof = core.build_profile(case, inst, projs, multi=False)
    ballot = list(prof)[d["index"]]
    enum = [p.name for p in inst]
    score = {p.name: core.toF(ballot.get(p, 0)) for p in inst}
    line = "welfareilp P={} mode=knap L={} Q={} val=tab W={}".format(
        ",".join(f"{case.rank[n]}:{core.q2s(case.cost[n])}" for n in enum), ".".join(str(case.rank[n]) for n in enum), core.q2s(case.budget),
        ",".join(f"{case.rank[n]}:{core.q2s(score[n])}" for n in enum))
    try:
        s = core.sat_class("Additive_Cardinal_Relative_Sat")(inst, prof, ballot)
        v = s.precomputed_values["max_budget_allocation_score"]
        answer = "ok " + core.q2s(v) + " " + type(v).__name__
    except Exception as e:  # noqa: BLE001
        answer = "err " + core.err_enum(e)
    return {"answer": answer, "ordered": None, "line": line, "names": {"x_" + n: case.rank[n] for n in case.names}, "threshold": 0.5}


JOBS = {"welfare": job_welfare, "maxcost": job_maxcost, "relsat": job_relsat}


def worker_main():
    from .. import mipcheck

    mipcheck.install()
    install_capture()
    while True:
        line = sys.stdin.readline()
        if not line:
            break
        line = line.strip()
        if not line:
            continue
        d = json.loads(line)
        del _CALLS[:]
        try:
            out = JOBS[d["job"]](d)
            out["calls"] = list(_CALLS)
            out["faults"] = mipcheck.take_faults()
        except Exception as e:  # noqa: BLE001
            mipcheck.take_faults()
            out = {"harness_error": repr(e)[:300]}
        sys.stdout.write("ANS " + json.dumps(out) + "\n")
        sys.stdout.flush()


# ----------------------------------------------------------------------------------------------
# parent side: canonical programs and the comparison with the model


def _canon_expr(snap, names, drop_const=False):
    """recorded LinExpr -> ({id: (Fraction, exact)}, sense, (rhs Fraction, exact)) with zero coefficients dropped and the
    constant moved to the right-hand side (`Σ c·x + const ~ 0`  ->  `Σ c·x ~ -const`)"""
    terms = {}
    for vn, (s, ex) in snap["terms"].items():
        q = F(s)
        if q != 0:
            terms[names[vn]] = (q, ex)
    cs, cex = snap["const"]
    return terms, snap["sense"], (F(0) if drop_const else -F(cs), cex)


def check_capture(call, names):
    """the expressions the library built and the rows the solver holds are the same program; -> (problem|None)"""
    b, s = call["built"], call.get("solver", {})
    if "error" in s:
        return "solver rows unreadable: " + s["error"]
    if b["objective"] is None or "error" in b["objective"]:
        return "objective not observed"
    if any("error" in c for c in b["constrs"]):
        return "a constraint could not be observed"
    if len(b["constrs"]) != len(s["constrs"]):
        return f"{len(b['constrs'])} constraints built, {len(s['constrs'])} rows in the solver"
    if s.get("sense") != "MAX" or b["objective"]["sense"] != "MAX":
        return "objective sense is not MAX"
    pairs = [(b["objective"], s["objective"], True)] + [(x, y, False) for x, y in zip(b["constrs"], s["constrs"])]
    for x, y, is_obj in pairs:
        tx, sx, rx = _canon_expr(x, names, drop_const=is_obj)
        ty, sy, ry = _canon_expr(y, names, drop_const=is_obj)
        if not is_obj and sx != sy:
            return "row sense differs between expression and solver"
        if set(tx) != set(ty) or any(not _close(tx[i][0], ty[i][0], REL_FLOAT) for i in tx) or not _close(rx[0], ry[0], REL_FLOAT):
            return f"expression {x} and solver row {y} differ"
    if call.get("types") not in (["B"], []) and call.get("vars"):
        return "variables are not all binary: %s" % call.get("types")
    return None


def parse_model_answer(s):
    """'ok out=… progs=…' -> (head, out, [program]) ; program = (vars, {id: F}, [(terms, sense, rhs)])"""
    head, _, rest = s.partition(" progs=")
    progs = []
    for ptxt in [p for p in rest.split("#") if p != ""]:
        f = dict(part.split(":", 1) for part in ptxt.split(";"))
        vs = [int(x) for x in f["v"].split(".") if x != ""]
        obj = _terms(f["o"])
        cons = []
        for c in [c for c in f["c"].split("&") if c != ""]:
            for op, sense in (("<=", "<"), (">=", ">"), ("==", "=")):
                if op in c:
                    l, r = c.split(op)
                    cons.append((_terms(l), sense, F(r)))
                    break
        progs.append((vs, obj, cons))
    return head, progs


def _terms(s):
    out = {}
    for t in [t for t in s.split(",") if t != ""]:
        i, c = t.split(":")
        out[int(i)] = F(c)
    return out


def _num_match(model_q, cap, counts, opt=False):
    q, exact = cap
    if exact:
        if q == model_q:
            counts["exact"] += 1
            return True
        return False
    if q == model_q:
        counts["float_exact"] += 1
        return True
    if _close(q, model_q, REL_OPT if opt else REL_FLOAT):
        counts["float_opt" if opt else "float_rounded"] += 1
        return True
    return False


def _constr_match(mc, cc, counts):
    mt, ms, mr = mc
    ct, cs, cr = cc
    if ms != cs or set(mt) != set(ct):
        return False
    tmp = {"exact": 0, "float_exact": 0, "float_rounded": 0, "float_opt": 0}
    if not all(_num_match(mt[i], ct[i], tmp) for i in mt):
        return False
    # the equality row re-imposes the solver's float objective value
    if not _num_match(mr, cr, tmp, opt=(ms == "=")):
        return False
    for k, v in tmp.items():
        counts[k] += v
    return True


def compare_programs(calls, names, model_progs, counts):
    """-> list of differences (strings); counts: how the numbers matched"""
    diffs = []
    if len(calls) != len(model_progs):
        return [f"the library called optimize() {len(calls)} times, the model poses {len(model_progs)} programs"]
    for k, (call, (mv, mobj, mcons)) in enumerate(zip(calls, model_progs)):
        pb = check_capture(call, names)
        if pb:
            diffs.append(f"call {k}: {pb}")
            continue
        cv = [names[v] for v in call["vars"]]
        if cv != mv:
            diffs.append(f"call {k}: variables {cv} vs model {mv}")
            continue
        ot, _, _ = _canon_expr(call["built"]["objective"], names, drop_const=True)
        if set(ot) != set(mobj) or not all(_num_match(mobj[i], ot[i], counts) for i in mobj):
            diffs.append(f"call {k}: objective {call['built']['objective']['terms']} vs model {mobj}")
        ccons = [_canon_expr(c, names) for c in call["built"]["constrs"]]
        if len(ccons) != len(mcons):
            diffs.append(f"call {k}: {len(ccons)} constraints vs model {len(mcons)}")
            continue
        used = [False] * len(ccons)
        for j, mc in enumerate(mcons):
            order = [j] + [i for i in range(len(ccons)) if i != j]  # same position first, then anywhere (multiset)
            for i in order:
                if not used[i] and _constr_match(mc, ccons[i], counts):
                    used[i] = True
                    break
            else:
                diffs.append(f"call {k}: model constraint {fmt_constr(mc)} is not among the library's constraints "
                             f"{[fmt_constr((dict((a, b[0]) for a, b in c[0].items()), c[1], c[2][0])) for c, u in zip(ccons, used) if not u][:4]}")
                break
    return diffs


def fmt_constr(c):
    from .. import core

    t, s, r = c
    return ",".join(f"{i}:{core.q2s(v)}" for i, v in sorted(t.items())) + {"<": "<=", ">": ">=", "=": "=="}[s] + core.q2s(r)


def answers_token(res):
    """the solver's answers, in call order, as the model's oracle script"""
    toks = []
    thr = res["threshold"]
    for call in res["calls"]:
        if call.get("status") != "OPTIMAL" or "x" not in call:
            toks.append("none")
            continue
        sup = sorted(res["names"][v] for v, x in call["x"].items() if x is not None and x >= thr)
        toks.append(".".join(str(i) for i in sup) if sup else "-")
    return "|".join(toks)


def model_line(res):
    return res["line"] + " ans=" + answers_token(res)


def diff_result(res, mline, counts):
    """all differences between one captured library call and the model's answer"""
    from .. import core

    head, progs = parse_model_answer(mline)
    diffs = compare_programs(res["calls"], res["names"], progs, counts)
    if res["ordered"] is not None:
        # allocations: same list, same discovery order
        want = "ok out=" + ("|".join(",".join(str(i) for i in o) if o else "-" for o in res["ordered"]) if res["ordered"] else "-")
        if head.strip() != want:
            diffs.append(f"returned allocations (in order) {want!r} vs model {head.strip()!r}")
    elif res["answer"].startswith("ok "):
        val = res["answer"].split(" ")[1]
        if head.strip() != "ok out=" + val:
            diffs.append(f"returned value {val} vs model {head.strip()!r}")
    else:
        if not head.startswith("err"):
            diffs.append(f"library raised ({res['answer']}), model answered {head.strip()!r}")
    return diffs


class IlpBox:
    def __init__(self):
        from .. import solverbox

        self.box = solverbox.Box(module="harness.props.C04_ilp", timeout=60)

    def ask(self, req):
        """-> dict | None (solver fault: crash, timeout or an answer mipcheck rejected)"""
        line = self.box.ask(req)
        if not line.startswith("ANS "):
            return None
        res = json.loads(line[4:])
        if "harness_error" in res:
            from .. import core

            raise core.DriverError("C04_ilp worker: " + res["harness_error"])
        if res.get("faults"):
            return None
        return res

    def close(self):
        self.box.close()


def _run(ctx, reqs, label, nontrivial_min_calls=3):
    """reqs: iterable of (request dict, case-json for reports).  Captures, feeds the model, diffs."""
    from .. import core

    box = IlpBox()
    pending = []
    counts = ctx.extra.setdefault("ilp_numbers", {"exact": 0, "float_exact": 0, "float_rounded": 0, "float_opt": 0})
    stats = ctx.extra.setdefault("ilp_programs", {"library_calls": 0, "optimize_calls": 0, "constraints": 0, "cuts": 0, "solver_faults": 0})
    try:
        for req, cj in reqs:
            if ctx.budget_s is not None and ctx.elapsed() > ctx.budget_s:
                break
            res = box.ask(req)
            ctx.evaluations += 1
            ctx.count("ilp_capture", label)
            if res is None:
                ctx.solver_faults += 1
                stats["solver_faults"] += 1
                continue
            pending.append((req, cj, res, model_line(res)))
    finally:
        box.close()
    outs = core.run_driver([p[3] for p in pending]) if pending else []
    for (req, cj, res, line), mline in zip(pending, outs):
        diffs = diff_result(res, mline, counts)
        stats["library_calls"] += 1
        stats["optimize_calls"] += len(res["calls"])
        ncons = sum(len(c["built"]["constrs"]) for c in res["calls"])
        stats["constraints"] += ncons
        stats["cuts"] += sum(max(0, len(c["built"]["constrs"]) - 2) for c in res["calls"][-1:])
        if len(res["calls"]) >= nontrivial_min_calls:
            ctx.nontrivial.add("ilpprog:" + label + ":" + json.dumps(cj, sort_keys=True))
        if diffs:
            ctx.disagreements.append({"line": line[:2000], "impl": res["answer"], "model": mline[:600], "fields": diffs[:6], "case": cj,
                                      "what": "the integer programs built by the library differ from the programs of the Lean model (" + label + ")"})
        smp = ctx.extra.setdefault("ilp_samples", [])
        if len(smp) < 4 and (len(res["calls"]) >= 3 or label != "welfare"):
            smp.append(f"{line[:400]} -> {len(res['calls'])} optimize() calls, {ncons} constraints captured; impl {res['answer'][:80]} | model {mline[:200]}…")


def run(ctx, pairs_fn, n):
    """called from harness/props/C04.py: `n` ILP configurations (half resolute), program-by-program comparison"""
    from .. import oracle, ruleprops
    from . import C04

    def reqs():
        for case, cfg in pairs_fn(n):
            cfg = dict(cfg, algo="ilp", res=ctx.rng.random() < 0.35)
            if not cfg["res"]:
                _, arg = oracle.welfare_opt(case, C04.profit_for(case, cfg), cfg.get("init") or [])
                if len(arg) > MAX_OPTIMA:
                    ctx.count("ilp_capture", "skipped: more than %d optima" % MAX_OPTIMA)
                    continue  # k optima cost k+1 solver calls on programs with up to 2k+2 rows, each re-validated by brute force
            yield {"job": "welfare", "case": case.to_json(), "cfg": ruleprops.cfg_json(cfg)}, {"case": case.to_json(), "cfg": ruleprops.cfg_json(cfg)}
        for case, cfg in corner_pairs():
            yield {"job": "welfare", "case": case.to_json(), "cfg": ruleprops.cfg_json(cfg)}, {"case": case.to_json(), "cfg": ruleprops.cfg_json(cfg)}

    _run(ctx, reqs(), "welfare")


def replay(case, cfg):
    """re-run one ILP configuration: the property predicate (brute force over all subsets) on the library's answer, and
    the program-by-program comparison with the model"""
    from .. import core, oracle, ruleprops
    from . import C04

    box = IlpBox()
    try:
        res = box.ask({"job": "welfare", "case": case.to_json(), "cfg": ruleprops.cfg_json(cfg)})
    finally:
        box.close()
    if res is None:
        return True, "solver fault on replay (discarded, as the property states)"
    profit = C04.profit_for(case, cfg)
    best, arg = oracle.welfare_opt(case, profit, cfg.get("init") or [])
    opt_sets = sorted(sorted(case.rank[p] for p in s) for s in arg)
    if res["ordered"] is None:
        return False, "still fails: ILP welfare maximiser raised: " + res["answer"]
    got = sorted(res["ordered"])
    if cfg.get("res", True):
        if got[0] not in opt_sets:
            return False, f"still fails: ILP outcome {got[0]} is not a welfare-maximal feasible allocation (optima {opt_sets[:4]})"
    elif got != opt_sets:
        return False, f"still fails: irresolute ILP outcomes {got} are not exactly the optima {opt_sets}"
    counts = {"exact": 0, "float_exact": 0, "float_rounded": 0, "float_opt": 0}
    diffs = diff_result(res, core.run_driver([model_line(res)])[0], counts)
    if diffs:
        return False, "property holds on the replayed input, but the programs differ from the model: " + "; ".join(diffs[:3])
    return True, f"property holds on the replayed input: {res['answer']} ({len(res['calls'])} optimize() calls, programs equal to the model's)"


def float_equality_witness():
    """FINDING (float `== opt_value`): 3 projects costing 2, 1, 1, budget 2, one cardinal ballot with the scores
    140000000006/7, 70000000001/7, 70000000005/7.  {p0} and {p1, p2} have exactly the same welfare, but the doubles of the
    three scores do not add up (difference 3.8e-6), so the row `Σ score·x == opt_value` cuts the second optimum off: the
    irresolute call returns one of the two optima only.  `replay(*float_equality_witness())` -> (False, …)."""
    from ..core import Case

    case = Case([("p0", F(2)), ("p1", F(1)), ("p2", F(1))], F(2), "card",
                [{"p0": F(140000000006, 7), "p1": F(70000000001, 7), "p2": F(70000000005, 7)}], seed=0)
    return case, {"rule": "maxw", "sat": "Additive_Cardinal_Sat", "algo": "ilp", "res": False, "init": [], "multi": False, "tie": "lexico"}


def corner_pairs():
    """hand-written elections with many tied optima / fractional scores / an initial allocation"""
    from ..core import Case

    out = []
    names = ["p%d" % i for i in range(5)]
    # 5 unit-cost projects, budget 2, everybody approves everything: 10 optima, 11 optimize() calls
    out.append((Case([(n, F(1)) for n in names], F(2), "app", [list(names)], seed=0), {"rule": "maxw", "sat": "Cardinality_Sat", "algo": "ilp", "res": False, "init": []}))
    # fractional costs and fraction-valued scores, initial allocation
    out.append((Case([("p0", F(1, 3)), ("p1", F(1, 3)), ("p2", F(2, 3)), ("p3", F(1, 2))], F(4, 3), "app", [["p0", "p1", "p2"], ["p1", "p3"], ["p2", "p3"]], seed=0),
                {"rule": "maxw", "sat": "Relative_Cardinality_Sat", "algo": "ilp", "res": False, "init": ["p3"]}))
    out.append((Case([("p0", F(1, 3)), ("p1", F(1, 3)), ("p2", F(2, 3)), ("p3", F(1, 2))], F(4, 3), "app", [["p0", "p1", "p2"], ["p1", "p3"], ["p2", "p3"]], seed=0),
                {"rule": "maxw", "sat": "Cost_Sat", "algo": "ilp", "res": False, "init": []}))
    # nothing left to decide (D46): every project in the initial allocation / an instance without projects — no optimize() call
    for res in (True, False):
        out.append((Case([("p0", F(1)), ("p1", F(2))], F(5), "app", [["p0"], ["p1", "p0"]], seed=0),
                    {"rule": "maxw", "sat": "Cost_Sat", "algo": "ilp", "res": res, "init": ["p0", "p1"]}))
        out.append((Case([], F(5), "app", [[], []], seed=0), {"rule": "maxw", "sat": "Cardinality_Sat", "algo": "ilp", "res": res, "init": []}))
        out.append((Case([("p0", F(1, 2))], F(1, 2), "card", [{"p0": F(-3)}], seed=0),
                    {"rule": "maxw", "sat": "Additive_Cardinal_Sat", "algo": "ilp", "res": res, "init": ["p0"]}))
    # a project nobody approves (score 0: the zero coefficient disappears from the solver's row)
    out.append((Case([("p0", F(1)), ("p1", F(2)), ("p2", F(2))], F(3), "app", [["p0", "p1"], ["p1"]], seed=0),
                {"rule": "maxw", "sat": "Cardinality_Sat", "algo": "ilp", "res": False, "init": []}))
    return out


def run_helpers(ctx, cases):
    """called from harness/props/C15.py: `max_budget_allocation_cost` on the list L / budgets Q of each case, and (for
    the normaliser of Additive_Cardinal_Relative_Sat, which builds the same program with another objective) a few
    cardinal ballots"""
    from .. import core

    def reqs():
        for case in cases:
            L = list(case.cfg.get("L") or [])
            for q in case.cfg.get("Q", [])[:2]:
                if L and all(case.cost[n] == 0 for n in L):
                    continue  # an all-zero row aborts CBC
                payload = {"job": "maxcost", "projects": [[n, core.q2s(case.cost[n])] for n in L], "budget": q if isinstance(q, str) else core.q2s(q)}
                yield payload, payload

    _run(ctx, reqs(), "max_budget_allocation_cost", nontrivial_min_calls=1)

    def reqs2():
        import random

        r = random.Random(ctx.rng.getrandbits(48))
        for _ in range(ctx.scale(12, 120)):
            case = core.gen_election(r, btypes=("card", "cum"), m_lo=1, m_hi=6, full_scores=False)
            if not case.ballots or all(c == 0 for c in case.cost.values()):
                continue
            payload = {"job": "relsat", "case": case.to_json(), "index": r.randrange(len(case.ballots))}
            yield payload, payload

    _run(ctx, reqs2(), "Additive_Cardinal_Relative_Sat.normaliser", nontrivial_min_calls=1)


if __name__ == "__main__":
    worker_main()
