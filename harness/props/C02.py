"""C02 — the Method of Equal Shares selects exactly what its textbook definition prescribes."""
from __future__ import annotations

import math
import random
from fractions import Fraction as F

from .. import core, history, oracle, rulegen, rules, ruleprops
from ..core import Case
from ..ruleprops import violation

RULE = ("seeded structured elections x (additive measure, tie rule, Profile/MultiProfile, resolute/irresolute, binary_sat in "
        "{default, True, False}); predicate = independent textbook Equal Shares (rich/poor fixed point on the expanded voter list); "
        "plus degenerate budgets (exactly 0 / one project's cost / the total) with supported zero-cost projects, and calls passing "
        "sat_profile= (alone, next to a sat_class naming another measure, or without voters: the documented precedence decides; predicate only); "
        "non-trivial = at least 2 purchases and at least one supporter capped by their remaining money; distinct by case+cfg hash")
ASSUMPTIONS = ["exact-arithmetic mode", "additive satisfaction measures", "initial allocation empty"]
TRUSTED = ["sqrt/log measures: utilities are dumped from the library's own measure objects (floats are not recomputed)"]


def utilities_for(it):
    """independent utilities U[v][name] on the expanded voter list"""
    return utilities_of(it.case, it.cfg)


def utilities_of(case, cfg):
    sat = cfg["sat"]
    if sat in ("Additive_Cost_Sqrt_Sat",):
        return [{p: (F(math.sqrt(float(case.cost[p]))) if p in b else F(0)) for p in case.names} for b in case.ballots]
    if sat in ("Additive_Cost_Log_Sat",):
        # log is not correctly rounded across libms: take the library's own per-project value
        b0 = rules.Built(case, multi=False)
        rows, _ = rules.utilities_table(b0, sat)
        return [{p: rows[v][case.rank[p]] for p in case.names} for v in range(len(case.ballots))]
    return oracle.utilities(sat, case)


def predicate(it):
    case, cfg = it.case, it.cfg
    kind, val = it.ans
    sig = {"rule": "mes", "sat": cfg.get("sat"), "binary": cfg.get("binary"), "multi": bool(cfg.get("multi")), "res": bool(cfg.get("res", True))}
    if cfg.get("sp_sat"):
        sig["sat_profile_arg"] = cfg.get("sp_mode")
    if cfg.get("tie") == "refuse":
        # the refusing rule raises on a real tie and ONLY then: a run whose rounds each have a single project at the least price returns
        # normally (round 8, C02-r8A: the `len(tied) > 1` guard around the tie-breaking call dropped)
        ecase, ecfg = ruleprops.effective(case, cfg)
        if not ecase.ballots:
            return []
        exp, _ = oracle.mes(case, utilities_of(ecase, ecfg), tie="lexico")
        it.capped, it.n_bought = False, len(exp)
        if oracle.mes.last_had_tie:
            return [] if (kind == "err" and val == "tie") or kind == "ok" else [violation(f"Equal Shares with the refusing tie rule raised {val}", case, cfg, sig=dict(sig, err=val))]
        if kind == "err":
            return [violation(f"Equal Shares with the refusing tie-breaking rule raised {val} although no round of the run has a tie", case, cfg,
                              impl=rules.canon(it.ans), expected=sorted(case.rank[p] for p in exp), sig=dict(sig, err=val, clause="refuse_without_tie"))]
        if sorted(val) != sorted(case.rank[p] for p in exp):
            return [violation("Equal Shares outcome (refusing tie rule, no tie) differs from the textbook procedure", case, cfg, impl=sorted(val),
                              expected=sorted(case.rank[p] for p in exp), sig=dict(sig, clause="refuse_without_tie"))]
        return []
    if kind == "err":
        return [violation(f"Equal Shares raised {val}: {it.raw!r}", case, cfg, impl=rules.canon(it.ans), sig=dict(sig, err=val))]
    # a caller-supplied satisfaction profile decides the utilities, whatever sat_class names (documented precedence)
    ecase, ecfg = ruleprops.effective(case, cfg)
    if not ecase.ballots:
        # a satisfaction profile without voters: no project has a supporter, nothing is bought
        it.capped, it.n_bought = False, 0
        got = [sorted(val)] if kind == "ok" else sorted(sorted(w) for w in val)
        if got != [[]]:
            return [violation("Equal Shares was handed a satisfaction profile without voters and selected projects", case, cfg, impl=got, expected=[[]], sig=sig)]
        return []
    U = utilities_of(ecase, ecfg)
    names = case.names
    if kind == "ok":
        exp, money = oracle.mes(case, U, tie=cfg.get("tie", "lexico"))
        exp_ids = [case.rank[p] for p in exp]
        it.capped = _capped(case, U, exp)
        it.n_bought = len([p for p in exp if case.cost[p] > 0])
        out = []
        if sorted(val) != sorted(exp_ids):
            out.append(violation("Equal Shares outcome differs from the textbook procedure", case, cfg, impl=sorted(val), expected=sorted(exp_ids), sig=sig))
        else:
            pos_impl = [i for i in val if case.cost[names[i]] > 0]
            pos_exp = [i for i in exp_ids if case.cost[names[i]] > 0]
            if pos_impl != pos_exp:
                out.append(violation("purchase order of positive-cost projects differs", case, cfg, impl=pos_impl, expected=pos_exp, sig=dict(sig, order=True)))
        return out
    exp = oracle.mes(case, U, branch=True)
    exp_sets = sorted(sorted(case.rank[p] for p in s) for s in exp)
    got = sorted(sorted(w) for w in val)
    it.capped = True
    it.n_bought = max((len(s) for s in exp), default=0)
    if got != exp_sets:
        return [violation("irresolute Equal Shares outcomes differ from the textbook procedure", case, cfg, impl=got, expected=exp_sets, sig=sig)]
    return []


def _capped(case, U, bought):
    """was some supporter's payment capped by their money in the textbook run? (re-run, cheap)"""
    n = len(case.ballots)
    money = [case.budget / n] * n
    for p in bought:
        if case.cost[p] <= 0:
            continue
        supp = [v for v in range(n) if U[v][p] > 0]
        rho = oracle.mes_rho(case.cost[p], supp, money, [U[v][p] for v in range(n)])
        if rho is None:
            return False
        for v in supp:
            if money[v] < rho * U[v][p]:
                return True
            money[v] -= min(money[v], rho * U[v][p])
    return False


def nontrivial(it):
    return getattr(it, "n_bought", 0) >= 2 and getattr(it, "capped", False)


def pairs(ctx, n, btypes=("app", "app", "card", "cum", "ord")):
    rng = ctx.rng
    for _ in range(n):
        case = core.gen_election(rng, btypes=btypes, m_lo=1)
        big = rng.random() < 0.25
        if big:
            case = core.gen_big_election(rng, btypes=btypes)
        cfg = rulegen.gen_rule_cfg(rng, case, rules=("mes",), allow_refuse=False)
        if not cfg["res"] and len(case.projects) > 5:
            cfg["res"] = True
        yield case, cfg


def neartie_pairs(ctx, n):
    """prices per unit of utility that are close (1e-7 .. 1e-32 apart) but not equal: which project is cheapest, and whether two
    are tied, are exact questions"""
    rng = ctx.rng
    for _ in range(n):
        case = core.gen_neartie_election(rng) if rng.random() < 0.7 else core.gen_huge_election(rng)
        cfg = rulegen.gen_rule_cfg(rng, case, rules=("mes",), allow_refuse=False)
        ctx.count("stream", "near-tied prices")
        yield case, cfg


def negscore_pairs(ctx, n):
    """cardinal / cumulative ballots with negative and zero scores: a supporter of a project is a voter with POSITIVE utility for
    it, whatever the others think of it (a project may be supported although its total score is negative)"""
    from . import C04

    rng = ctx.rng
    for _ in range(n):
        case = C04.gen_negscore_election(rng, 5)
        cfg = rulegen.gen_rule_cfg(rng, case, rules=("mes",), allow_refuse=False)
        if not cfg["res"] and len(case.projects) > 5:
            cfg["res"] = True
        ctx.count("stream", "negative-and-zero-scores")
        yield case, cfg


def degenerate_pairs(ctx, n):
    """degenerate budgets (0, the cost of one project, the total, ...) x zero-cost projects with supporters"""
    rng = ctx.rng
    for _ in range(n):
        case = core.gen_degenerate_election(rng, btypes=("app", "app", "card", "cum", "ord"))
        cfg = rulegen.gen_rule_cfg(rng, case, rules=("mes",), allow_refuse=False)
        ctx.count("stream", "degenerate-budget:" + ("zero" if case.budget == 0 else "one-project" if case.budget in case.cost.values() else "other"))
        if case.budget == 0 and any(c == 0 for c in case.cost.values()):
            ctx.count("stream", "degenerate-budget: budget 0 with a zero-cost project")
        yield case, cfg


def satprofile_pairs(ctx, n):
    """calls that pass sat_profile= (alone, next to a sat_class naming another measure, or holding no voter): judged by the
    documented precedence — the satisfaction profile decides"""
    rng = ctx.rng
    for _ in range(n):
        case = core.gen_election(rng, btypes=("app", "app", "card", "cum", "ord"), m_lo=1) if rng.random() < 0.6 else core.gen_tight_election(rng, btypes=("app", "card"))
        cfg = rulegen.gen_satprofile_cfg(rng, case, "mes", modes=("only", "other-measure", "other-measure", "empty", "other-representation", "other-representation"), allow_refuse=False)
        if not cfg["res"] and len(case.projects) > 5:
            cfg["res"] = True
        ctx.count("stream", "sat_profile-argument:" + cfg["sp_mode"])
        yield case, cfg


def lazy_pairs(ctx, n):
    """volume for the lazy scan (predicate only, no model run): approval elections of 5-7 projects and 6-10 voters with cost satisfaction
    and a generous budget — several rounds, stored price bounds raised along the way; a third of them irresolute on tie-rich costs, where
    the run forks and every branch keeps its own bounds.  The seed sweep at seed 17 missed C02-r3A (scan ordered by the initial bound) and
    C02-r7A (branches sharing the project records): both need three or more rounds of a particular shape, i.e. volume"""
    rng = ctx.rng
    for k in range(n):
        r = random.Random(rng.getrandbits(48))
        irres = k % 4 == 0
        if irres:
            m = r.randint(4, 5)
            names = r.sample(["q%02d" % i for i in range(24)], m)
            pool = r.choice([[2, 2, 3, 3, 4], [1, 2, 2, 3]])
            nv = r.randint(4, 6)
            distinct = [[x for x in names if r.random() < 0.5] or [names[0]] for _ in range(r.randint(3, 5))]
            ballots = [list(r.choice(distinct)) for _ in range(nv)]
            fr = F(r.choice([2, 3, 3, 4]), 4)
        else:
            # independent sparse ballots over 7-9 projects, budget near the total: the shape on which the stored bounds of several
            # projects are raised and overtaken (about 1 run in 700 separates a scan ordered by the initial bound from the real one)
            m = r.randint(7, 9)
            names = r.sample(["q%02d" % i for i in range(24)], m)
            pool = r.choice([[30, 31, 40, 70, 72, 45, 55, 20, 25], [3, 4, 5, 7, 8, 9, 11]])
            nv = r.randint(8, 14)
            ballots = [[x for x in names if r.random() < 0.3] or [r.choice(names)] for _ in range(nv)]
            fr = F(r.choice([3, 4, 4]), 4)
        projects = [(nm, F(r.choice(pool))) for nm in names]
        tot = sum((c for _, c in projects), F(0))
        case = Case(projects, tot * fr, "app", ballots, seed=r.getrandbits(40))
        cfg = {"rule": "mes", "sat": r.choice(["Cost_Sat", "Cost_Sat", "Cardinality_Sat"]), "tie": "lexico", "res": not irres, "multi": r.random() < 0.3, "init": []}
        ctx.count("stream", "lazy-scan volume:" + ("irresolute" if irres else "resolute"))
        yield case, cfg


def refuse_pairs(ctx, n):
    """the refusing tie-breaking rule: an exception on a real tie, a normal answer otherwise"""
    rng = ctx.rng
    for _ in range(n):
        case = core.gen_election(rng, btypes=("app", "app", "card"), m_lo=1, m_hi=5)
        cfg = rulegen.gen_rule_cfg(rng, case, rules=("mes",), allow_refuse=False)
        cfg["tie"] = "refuse"
        cfg["res"] = True
        cfg.pop("init", None)
        ctx.count("stream", "refuse")
        yield case, cfg


def run(ctx):
    ctx.rule = RULE
    items = ruleprops.run_items(ctx, pairs(ctx, ctx.scale(3000, 30000)), predicate, nontrivial)
    lazy_diff(ctx, items)
    history.run_history(ctx, "mes", ctx.scale(300, 3000))
    # round 4 (drawn after the streams above, whose seeds are unchanged)
    items += ruleprops.run_items(ctx, degenerate_pairs(ctx, ctx.scale(800, 6000)), predicate, nontrivial)
    items += ruleprops.run_items(ctx, satprofile_pairs(ctx, ctx.scale(600, 5000)), predicate, nontrivial, compare=False)
    items += ruleprops.run_items(ctx, neartie_pairs(ctx, ctx.scale(500, 5000)), predicate, nontrivial)  # round 6 (drawn last)
    items += ruleprops.run_items(ctx, negscore_pairs(ctx, ctx.scale(500, 5000)), predicate, nontrivial)
    items += ruleprops.run_items(ctx, refuse_pairs(ctx, ctx.scale(400, 4000)), predicate, nontrivial, compare=False)  # round 8 (drawn last)
    items += ruleprops.run_items(ctx, lazy_pairs(ctx, ctx.scale(9000, 60000)), predicate, nontrivial, compare=False)
    ctx.extra["capped_runs"] = sum(1 for it in items if getattr(it, "capped", False))
    ctx.extra["binary_sat"] = {str(k): sum(1 for it in items if it.cfg.get("binary") == k) for k in (None, True, False)}


def lazy_line(it):
    """the request line of the item for the lazy model (`meslazy`): same arguments, plus the binary-satisfaction
    flag the library effectively used (binary_sat=None means: on for approval profiles)"""
    binary = it.cfg.get("binary")
    if binary is None:
        binary = it.case.btype == "app"
    return "meslazy" + it.line[len("mes"):] + f" bin={1 if binary else 0}"


def lazy_diff(ctx, items):
    """the lazy model (stored affordabilities, early break, permanent removals, binary shortcut) is diffed against the
    library as well: it must give the same answers as the library (and hence as the eager model)"""
    todo = [it for it in items if it.line is not None and it.line.startswith("mes ")]
    # the lazy model threads its stored affordabilities through closures and is slow on the larger elections:
    # all small elections, and a capped number of the larger ones
    small = [it for it in todo if len(it.case.projects) <= 6]
    large = [it for it in todo if len(it.case.projects) > 6]
    todo = small + large[: (40 if ctx.tier == "quick" else 400)]
    outs = core.run_driver([lazy_line(it) for it in todo])
    n_bin = 0
    for it, out in zip(todo, outs):
        impl_s = rules.canon(it.ans).strip()
        model_s = out.strip()
        n_bin += lazy_line(it).endswith("bin=1")
        if impl_s != model_s:
            ctx.disagreements.append(
                {"line": lazy_line(it), "impl": impl_s, "model": model_s, "model_eager": getattr(it, "model", None),
                 "case": it.case.to_json(), "cfg": ruleprops.cfg_json(it.cfg)}
            )
    ctx.extra["lazy_model"] = {"compared": len(todo), "binary_shortcut_on": n_bin}


def search(ctx, disagreements):
    ctx.rule = RULE
    ruleprops.run_items(ctx, pairs(ctx, 8000), predicate, nontrivial, compare=False)
    ruleprops.run_items(ctx, degenerate_pairs(ctx, 3000), predicate, nontrivial, compare=False, keep=False)
    ruleprops.run_items(ctx, satprofile_pairs(ctx, 3000), predicate, nontrivial, compare=False, keep=False)


def replay(payload):
    if payload.get("cfg", {}).get("history"):
        return history.replay(payload)
    case = Case.from_json(payload["case"])
    cfg = ruleprops.cfg_from_json(payload["cfg"])
    if not ruleprops.well_formed(case, cfg):
        return True, ruleprops.NOT_AN_INPUT
    built = rules.Built(case, multi=cfg.get("multi", False))
    ans, raw = rules.impl_answer(built, cfg)
    it = ruleprops.Item(case, cfg, built, ans, raw, None)
    vs = predicate(it)
    if vs:
        return False, "still fails: " + vs[0]["what"]
    return True, "property holds on the replayed input: " + rules.canon(ans)
