"""C13 — outcomes are a function of the election alone (voter order, project insertion order, hash seed, common scaling)."""
from __future__ import annotations

import json
import random
from fractions import Fraction as F

from .. import core, rulegen, rules, ruleprops, worker
from ..core import Case
from ..ruleprops import violation

RULE = ("seeded elections x {greedy, Equal Shares, Phragmen (selected set), welfare maximiser (welfare value)} presented in 7 ways: original, "
        "voters shuffled, projects inserted in another order, costs and budget scaled by 1/3, 7, 10/7, 1000 (lexicographic tie-breaking; for the "
        "maximiser under scaling: the chosen set valued on the original election); "
        "plus every case re-run in 3 fresh interpreters with distinct PYTHONHASHSEED under every shipped tie-breaking rule; plus the same call "
        "twice in one process; plus an exact-arithmetic stress stream through the same presentations (costs proportional to support by a rational "
        "factor, so that a common scaling by 1/3 or 10/7 leaves integral and fractional costs tied on support per cost at a non-dyadic "
        "ratio with a budget that fits only some; cardinal scores above 2**53 whose totals differ by a unit) and a stream of small elections with a binding budget (half of them for the maximiser); non-trivial = at least 3 projects, at least 2 selected, and a tie structure (equal costs) present")
ASSUMPTIONS = ["the scaling clause is claimed for measures that are homogeneous in the costs; log-of-cost measures are a listed known finding (K2)"]
TRUSTED = ["CPython's hash-seeded set/dict iteration order is exercised through PYTHONHASHSEED (3 values in quick, 5 in thorough), not modelled"]

SCALES = [F(1, 3), F(7), F(10, 7), F(1000)]
HASHSEEDS_QUICK = [1, 17, 4242]
HASHSEEDS_THOROUGH = [1, 17, 4242, 99991, 31337]


def scaled(case: Case, lam: F) -> Case:
    return Case([(n, c * lam) for n, c in case.projects], case.budget * lam, case.btype, case.ballots, case.seed, **case.cfg)


# exact additive measures; each is homogeneous (degree 0 or 1) in the costs, so the optimal sets do not depend on the unit
SCALE_WELFARE_SATS = {"Cardinality_Sat", "Relative_Cardinality_Sat", "Cost_Sat", "Relative_Cost_Approx_Normaliser_Sat", "Effort_Sat",
                      "Additive_Cardinal_Sat", "Additive_Borda_Sat"}


def welfare_back(case, cfg, built, ids):
    """total satisfaction, on the election `built`, of the projects with the given ids (ids are name ranks: the same in every presentation)"""
    return worker.welfare_of(case, cfg, built, [built.projs[case.names[i]] for i in ids])


def scaled_cfg(cfg, lam: F):
    c = dict(cfg)
    if c.get("loads_per_voter") is not None:
        # initial loads are amounts of money per supporter: they scale with the costs
        c["loads_per_voter"] = [x * lam for x in c["loads_per_voter"]]
    return c


def canonical_voters(case: Case, cfg):
    """the same election with the voters listed in a fixed (sorted) order; per-voter initial loads travel with the voters"""
    idx = sorted(range(len(case.ballots)), key=lambda i: (str(case.ballot_key(case.ballots[i])), i))
    c = Case(case.projects, case.budget, case.btype, [case.ballots[i] for i in idx], case.seed, **case.cfg)
    g = dict(cfg)
    if g.get("loads_per_voter") is not None:
        g["loads_per_voter"] = [cfg["loads_per_voter"][i] for i in idx]
    return c, g


def answer(case, cfg):
    built = rules.Built(case, multi=cfg.get("multi", False), order=cfg.get("order"))
    c = dict(cfg)
    rulegen.fix_loads(c, built)
    ans, raw = rules.impl_answer(built, c)
    s = rules.canon(ans)
    if cfg["rule"] == "maxw" and ans[0] == "ok":
        # only the welfare is claimed to be presentation independent for the maximiser
        s = "W=" + worker.welfare_of(case, cfg, built, raw)
    return s, built, c, ans


def pairs(ctx, n):
    rng = ctx.rng
    for _ in range(n):
        r = rng.random()
        if r < 0.45:
            case = core.gen_election(rng, btypes=("app", "app", "app", "card", "cum", "ord"), m_lo=1, m_hi=6)
        elif r < 0.85:
            # tie-rich: equal costs and duplicated ballots, where enumeration order could matter
            from .C08 import tie_rich_election
            case = tie_rich_election(rng)
        else:
            case = core.gen_big_election(rng, btypes=("app", "app", "card"))
        cfg = rulegen.gen_rule_cfg(rng, case, allow_refuse=False)
        if r >= 0.45 and r < 0.85 and rng.random() < 0.7:
            cfg["tie"] = rng.choice(["min_cost", "max_cost"] + (["app_score"] if case.btype == "app" else []))
        cfg["res"] = True if cfg["rule"] == "maxw" or len(case.projects) > 5 else cfg["res"]
        yield case, cfg


def exact_pairs(ctx, n):
    """exact-arithmetic stress (see core.gen_proportional_election / gen_huge_election): what a common scaling must not change"""
    rng = ctx.rng
    for _ in range(n):
        if rng.random() < 0.7:
            case = core.gen_proportional_election(rng, btypes=("app", "app", "card"))
            ctx.count("stream", "exact:proportional-costs")
        else:
            case = core.gen_huge_election(rng)
            ctx.count("stream", "exact:huge-scores")
        cfg = rulegen.gen_count_cfg(rng, case, rules=("greedy", "greedy", "mes", "phragmen"), allow_refuse=False)
        cfg["res"] = True if len(case.projects) > 5 else cfg["res"]
        yield case, cfg


def tight_pairs(ctx, n):
    """small elections with a binding budget (core.gen_tight_election): the maximiser's bound-and-prune search and the sequential
    rules after several purchases, where a slip that depends on the unit of the costs or on the presentation changes the result"""
    rng = ctx.rng
    for k in range(n):
        case = core.gen_tight_election(rng, btypes=("app", "app", "app", "card", "ord"), m=(3, 7), n=(2, 7))
        rule = ("maxw", "greedy", "maxw", "mes", "maxw", "phragmen")[k % 6]
        if rule == "phragmen" and case.btype != "app":
            rule = "maxw"
        cfg = rulegen.gen_rule_cfg(rng, case, rules=(rule,), allow_refuse=False)
        cfg["res"] = True if rule == "maxw" or len(case.projects) > 5 else cfg["res"]
        ctx.count("stream", "tight-budget:" + rule)
        yield case, cfg


def mixed_name_pairs(ctx, n):
    """tie-rich elections whose projects carry names of mixed kinds (numeric, zero-padded, alphanumeric): ties that the shipped
    non-lexicographic tie-breaking rules leave to the order on projects"""
    from .C08 import tie_rich_election

    rng = ctx.rng
    for _ in range(n):
        case = core.with_mixed_names(rng, tie_rich_election(rng))
        cfg = rulegen.gen_rule_cfg(rng, case, rules=("greedy", "mes", "phragmen"), allow_refuse=False)
        if rng.random() < 0.8:
            cfg["tie"] = rng.choice(["min_cost", "max_cost"] + (["app_score"] if case.btype == "app" else []))
        cfg["res"] = True if len(case.projects) > 5 else cfg["res"]
        ctx.count("stream", "mixed-kind project names")
        yield case, cfg


def flat_pairs(ctx, n):
    """13 … 16 projects that all have the same welfare per unit of cost (every voter approves everything, cost satisfaction): the
    maximiser's answer is a subset-sum optimum that no ordering by efficiency helps to find — and a size that the toy elections never
    reach (round 7, C13-r7A: a shortcut for "more than 12 items of equal efficiency" that fills in iteration order)"""
    rng = ctx.rng
    for _ in range(n):
        r = random.Random(rng.getrandbits(48))
        m = r.randint(13, 15)
        names = r.sample(core.NAME_POOL, m) if len(core.NAME_POOL) >= m else ["q%02d" % i for i in range(m)]
        costs = [F(r.randint(2, 19)) for _ in range(m)]
        tot = sum(costs)
        budget = F(r.randint(int(tot) // 3, (2 * int(tot)) // 3))
        case = Case(list(zip(names, costs)), budget, "app", [list(names) for _ in range(r.randint(1, 3))], r.getrandbits(40))
        cfg = {"rule": "maxw", "sat": "Cost_Sat", "algo": "pd", "res": True, "tie": "lexico", "multi": r.random() < 0.3}
        ctx.count("stream", "flat-efficiency:%d projects" % m)
        yield case, cfg


def all_pairs(ctx, n, n_exact):
    yield from pairs(ctx, n)
    yield from exact_pairs(ctx, n_exact)
    yield from tight_pairs(ctx, (n_exact * 3) // 4)
    yield from mixed_name_pairs(ctx, n_exact // 2)  # round 6 (drawn last)
    yield from flat_pairs(ctx, max(8, n_exact // 100))  # round 7


def run(ctx, n=None, compare=True, hashseeds=None, n_exact=None):
    ctx.rule = RULE
    n = n or ctx.scale(1500, 8000)
    n_exact = ctx.scale(800, 5000) if n_exact is None else n_exact
    rng = ctx.rng
    batch = []  # for the hash-seed workers
    base_answers = []
    lines, line_info = [], []
    for case, cfg in all_pairs(ctx, n, n_exact):
        if ctx.budget_s is not None and ctx.elapsed() > ctx.budget_s:
            break
        ctx.evaluations += 1
        ctx.count("rule", cfg["rule"])
        ctx.count("sat", cfg.get("sat") or "-")
        sig0 = {"rule": cfg["rule"], "sat": cfg.get("sat")}
        lex = dict(cfg, tie="lexico")
        a0, built0, c0, ans0 = answer(case, lex)
        if compare and cfg["rule"] != "maxw":
            lines.append(rules.model_line(built0, c0))
            line_info.append((a0, case, c0))
        # determinism in one process
        a0b, *_ = answer(case, lex)
        if a0b != a0:
            ctx.violations.append(violation("same call twice in one process gave different results", case, lex, impl=a0b, expected=a0, sig=dict(sig0, clause="twice")))
        # the same call twice on the SAME objects, the initial allocation handed over as one BudgetAllocation object
        if cfg["rule"] in ("greedy", "phragmen", "maxw") and ans0[0] in ("ok", "oks"):
            from pabutools.rules import BudgetAllocation

            c2 = dict(c0)
            ba = BudgetAllocation([built0.projs[nm] for nm in (c0.get("init") or [])])
            before = [p.name for p in ba]
            c2["init_obj"] = ba
            r1, _ = rules.impl_answer(built0, c2)
            r2, _ = rules.impl_answer(built0, c2)
            s1, s2 = rules.canon(r1), rules.canon(r2)
            if cfg["rule"] == "maxw":
                s1 = s2 = "-" if (r1[0] == r2[0] == "ok") else s1 + "|" + s2
            if s1 != s2 or (cfg["rule"] != "maxw" and s1 != rules.canon(ans0)):
                ctx.violations.append(violation("two identical calls sharing one initial-allocation object give different results", case, lex, impl=s2, expected=s1,
                                                sig=dict(sig0, clause="twice_shared_objects")))
            if [p.name for p in ba] != before:
                ctx.violations.append(violation("the caller's initial BudgetAllocation object was modified by the rule", case, lex, impl=[p.name for p in ba], expected=before,
                                                sig=dict(sig0, clause="twice_shared_objects")))
        # voters in another order
        sh = list(case.ballots)
        rng.shuffle(sh)
        c1 = Case(case.projects, case.budget, case.btype, sh, case.seed)
        lex1 = dict(lex)
        if lex.get("loads_per_voter") is not None:
            # loads travel with the voters
            perm = list(range(len(case.ballots)))
            rng.shuffle(perm)
            c1 = Case(case.projects, case.budget, case.btype, [case.ballots[i] for i in perm], case.seed)
            lex1["loads_per_voter"] = [lex["loads_per_voter"][i] for i in perm]
        a1, *_ = answer(c1, lex1)
        if a1 != a0:
            ac, *_ = answer(*canonical_voters(c1, lex1))
            if a1 != ac:
                ctx.violations.append(violation("outcome changes when the voters are listed in another order", c1, lex1, impl=a1, expected=a0, sig=dict(sig0, clause="voters"), original=case.to_json()))
            else:
                ctx.violations.append(violation("outcome changes when the voters are listed in another order", case, lex, impl=a0, expected=a1, sig=dict(sig0, clause="voters"), original=c1.to_json()))
        # projects inserted in another order
        order = [nm for nm, _ in case.projects]
        rng.shuffle(order)
        lex2 = dict(lex, order=order)
        a2, *_ = answer(case, lex2)
        if a2 != a0:
            ctx.violations.append(violation("outcome changes when the projects are inserted in another order", case, lex2, impl=a2, expected=a0, sig=dict(sig0, clause="projects")))
        # common scaling
        for lam in SCALES:
            cs = scaled(case, lam)
            lexs = scaled_cfg(lex, lam)
            a3, _b3, _c3, ans3 = answer(cs, lexs)
            if cfg["rule"] == "maxw":
                # the welfare value itself is expressed in the unit of the costs for some measures; what must not change is
                # the welfare ATTAINED: the set chosen on the scaled election, valued on the original election, is worth
                # exactly what the set chosen on the original election is worth (exact measures, all homogeneous in the costs)
                if cfg.get("sat") in SCALE_WELFARE_SATS and ans0[0] == "ok" and ans3[0] == "ok":
                    ctx.count("clause", "maxw:scale_welfare")
                    w_back = "W=" + welfare_back(case, lex, built0, ans3[1])
                    if w_back != a0:
                        ctx.violations.append(violation(f"welfare attained by the maximiser changes when costs and budget are multiplied by {lam} (valued on the original election)",
                                                        case, lex, impl=w_back, expected=a0, sig=dict(sig0, clause="scale_welfare"), scale=core.q2s(lam)))
                        break
                continue
            if a3 != a0:
                # stored as the ORIGINAL election + the factor: the replay (and the shrinker) recompute both presentations
                ctx.violations.append(violation(f"outcome changes when costs and budget are multiplied by {lam}", case, lex, impl=a3, expected=a0,
                                                sig=dict(sig0, clause="scale"), scale=core.q2s(lam), scaled_case=cs.to_json()))
                break
        if len(case.projects) >= 3 and ans0[0] == "ok" and len(ans0[1]) >= 2 and rulegen.has_tie_structure(case):
            ctx.nontrivial.add(case.key() + json.dumps(ruleprops.cfg_json(cfg), sort_keys=True))
        # hash-seed independence with the configured (any shipped) tie rule
        want = dict(cfg)
        if cfg["rule"] == "maxw":
            want["want_welfare"] = True
        batch.append({"case": case.to_json(), "cfg": ruleprops.cfg_json(want)})
        a_cfg, *_ = answer(case, cfg)
        base_answers.append((a_cfg, case, cfg))
    seeds = hashseeds or (HASHSEEDS_THOROUGH if ctx.tier == "thorough" else HASHSEEDS_QUICK)
    ctx.extra["hash_seeds"] = seeds
    for hs in seeds:
        outs = worker.run_batch(batch, hs)
        for out, (a_cfg, case, cfg) in zip(outs, base_answers):
            o = out.strip()
            if cfg["rule"] == "maxw" and " W=" in o:
                o = "W=" + o.split(" W=")[1]
            if o != a_cfg.strip():
                ctx.violations.append(violation(f"outcome differs in an interpreter started with PYTHONHASHSEED={hs}", case, cfg, impl=o, expected=a_cfg,
                                                sig={"rule": cfg["rule"], "sat": cfg.get("sat"), "clause": "hashseed", "tie": cfg.get("tie")}, pythonhashseed=hs, worker_hashseed=hs))
    if compare and lines:
        outs = core.run_driver(lines)
        for line, out, (impl_s, case, cfg) in zip(lines, outs, line_info):
            if out.strip() != impl_s.strip():
                ctx.disagreements.append({"line": line, "impl": impl_s, "model": out.strip(), "case": case.to_json(), "cfg": ruleprops.cfg_json(cfg)})
            ctx.sample(f"{line} -> impl (all presentations): {impl_s} | model: {out.strip()}")
    # the names of the projects are labels: numbered 1 … 13 against '01' … '13' (round 7, drawn last)
    from .. import relabel

    relabel.run(ctx, min(3000, max(300, n // 4)))
    from .. import history

    history.run_profile_history(ctx, min(4000, max(400, n // 3)), history_predicate, history_cfg)


def history_cfg(rng, case, multi):
    """one call inside a history on ONE profile object edited in place: a rule whose answer reads the profile through helpers that
    could remember it (approval scores for Phragmen and for the approval-score tie-breaking, satisfaction totals for the others)"""
    rule = rng.choice(["phragmen", "greedy", "greedy", "mes"])
    cfg = rulegen.gen_rule_cfg(rng, case, rules=(rule,), allow_refuse=False)
    if rng.random() < 0.6:
        cfg["tie"] = "app_score"
    cfg["multi"] = multi
    cfg["res"] = True
    return cfg


def history_predicate(it):
    """the answer on the long-lived, edited object = the answer on a freshly built profile holding the same voters (the outcome is a
    function of the election alone; nothing an earlier call saw may survive).  Round 7, C13-r7B: approval scores memoised on the
    profile and refreshed only when the NUMBER of ballots changes"""
    cfg = {k: v for k, v in it.cfg.items() if k not in ("init_obj",)}
    fresh, *_ = answer(it.case, cfg)
    got = rules.canon(it.ans)
    if got != fresh:
        return [violation("the outcome on a profile object that was edited in place differs from the outcome on a freshly built profile with the same voters",
                          it.case, cfg, impl=got, expected=fresh, sig={"rule": cfg["rule"], "sat": cfg.get("sat"), "clause": "edited_object", "tie": cfg.get("tie")})]
    return []


def search(ctx, disagreements):
    run(ctx, n=2500, compare=False, n_exact=2500)


def replay(payload):
    if payload.get("cfg", {}).get("profile_history"):
        from .. import history

        return history.replay_profile_history(payload, history_predicate)
    if payload.get("cfg", {}).get("relabel"):
        from .. import relabel

        return relabel.replay(payload)
    case = Case.from_json(payload["case"])
    cfg = ruleprops.cfg_from_json(payload["cfg"])
    exp = payload.get("expected")
    hs = payload.get("pythonhashseed")
    if payload.get("sig", {}).get("clause") == "scale_welfare":
        a0, built0, _c, ans0 = answer(case, cfg)
        lam = F(payload["scale"])
        _a, _b, _c2, ans3 = answer(scaled(case, lam), cfg)
        if ans0[0] != "ok" or ans3[0] != "ok":
            return True, "no welfare to compare on the replayed input"
        w_back = "W=" + welfare_back(case, cfg, built0, ans3[1])
        if w_back != a0:
            return False, f"still differs: scaled by {lam} the maximiser attains {w_back} (valued on the original election) vs {a0}"
        return True, "welfare attained agrees across the scaling on the replayed input: " + a0
    clause = payload.get("sig", {}).get("clause")
    if clause == "scale" and payload.get("scale") is not None:
        lam = F(payload["scale"])
        a0, *_ = answer(case, cfg)
        a3, *_ = answer(scaled(case, lam), scaled_cfg(cfg, lam))
        if a3 != a0:
            return False, f"still differs: {a3} after multiplying costs and budget by {lam} vs {a0}"
        return True, "the scaled presentation agrees on the replayed input: " + a0
    if clause == "voters":
        a1, *_ = answer(case, cfg)
        ac, *_ = answer(*canonical_voters(case, cfg))
        if a1 != ac:
            return False, f"still differs: {a1} vs {ac} with the voters listed in sorted order"
        return True, "voter orders agree on the replayed input: " + a1
    if clause == "projects" and cfg.get("order") is not None:
        a2, *_ = answer(case, cfg)
        a0, *_ = answer(case, {k: v for k, v in cfg.items() if k != "order"})
        if a2 != a0:
            return False, f"still differs: {a2} with insertion order {cfg['order']} vs {a0}"
        return True, "insertion orders agree on the replayed input: " + a2
    if clause == "hashseed" and payload.get("worker_hashseed") is not None:
        # 'pythonhashseed' of a stored violation is the seed of the checking process (vcheck re-executes the replay under it);
        # the second interpreter's seed is 'worker_hashseed'.  Both sides are recomputed.
        whs = payload["worker_hashseed"]
        want = dict(cfg, want_welfare=True) if cfg["rule"] == "maxw" else cfg
        o = worker.run_batch([{"case": case.to_json(), "cfg": ruleprops.cfg_json(want)}], whs)[0].strip()
        if cfg["rule"] == "maxw" and " W=" in o:
            o = "W=" + o.split(" W=")[1]
        base, *_ = answer(case, cfg)
        if o != base.strip():
            return False, f"still differs: {o} in an interpreter started with PYTHONHASHSEED={whs} vs {base} in this one"
        return True, "both interpreters agree on the replayed input: " + o
    if hs is not None and clause == "hashseed":
        out = worker.run_batch([{"case": case.to_json(), "cfg": ruleprops.cfg_json(cfg)}], hs)[0].strip()
    else:
        out, *_ = answer(case, cfg)
    if exp is not None and out.strip() != str(exp).strip():
        return False, f"still differs: {out} vs {exp}"
    return True, "presentations agree on the replayed input: " + out
