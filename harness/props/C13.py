"""C13 — outcomes are a function of the election alone (voter order, project insertion order, hash seed, common scaling)."""
from __future__ import annotations

import json
import random
from fractions import Fraction as F

from .. import core, rulegen, rules, ruleprops, worker
from ..core import Case
from ..ruleprops import violation

RULE = ("seeded elections x {greedy, Equal Shares, Phragmen (selected set), welfare maximiser (welfare value)} presented in 7 ways: original, "
        "voters shuffled, projects inserted in another order, costs and budget scaled by 1/3, 7, 10/7, 1000 (lexicographic tie-breaking); "
        "plus every case re-run in 3 fresh interpreters with distinct PYTHONHASHSEED under every shipped tie-breaking rule; plus the same call "
        "twice in one process; non-trivial = at least 3 projects, at least 2 selected, and a tie structure (equal costs) present")
ASSUMPTIONS = ["the scaling clause is claimed for measures that are homogeneous in the costs; log-of-cost measures are a listed known finding (K2)"]
TRUSTED = ["CPython's hash-seeded set/dict iteration order is exercised through PYTHONHASHSEED (3 values in quick, 5 in thorough), not modelled"]

SCALES = [F(1, 3), F(7), F(10, 7), F(1000)]
HASHSEEDS_QUICK = [1, 17, 4242]
HASHSEEDS_THOROUGH = [1, 17, 4242, 99991, 31337]


def scaled(case: Case, lam: F) -> Case:
    return Case([(n, c * lam) for n, c in case.projects], case.budget * lam, case.btype, case.ballots, case.seed, **case.cfg)


def answer(case, cfg):
    built = rules.Built(case, multi=cfg.get("multi", False), order=cfg.get("order"))
    c = dict(cfg)
    rulegen.fix_loads(c, built)
    ans, raw = rules.impl_answer(built, c)
    s = rules.canon(ans)
    if cfg["rule"] == "maxw" and ans[0] == "ok":
        # only the welfare is claimed to be presentation independent for the maximiser
        s = "W=" + worker.welfare_of(case, cfg, built, raw)
    return s, built, c, ans


def pairs(ctx, n):
    rng = ctx.rng
    for _ in range(n):
        r = rng.random()
        if r < 0.45:
            case = core.gen_election(rng, btypes=("app", "app", "app", "card", "cum", "ord"), m_lo=1, m_hi=6)
        elif r < 0.85:
            # tie-rich: equal costs and duplicated ballots, where enumeration order could matter
            from .C08 import tie_rich_election
            case = tie_rich_election(rng)
        else:
            case = core.gen_big_election(rng, btypes=("app", "app", "card"))
        cfg = rulegen.gen_rule_cfg(rng, case, allow_refuse=False)
        if r >= 0.45 and r < 0.85 and rng.random() < 0.7:
            cfg["tie"] = rng.choice(["min_cost", "max_cost"] + (["app_score"] if case.btype == "app" else []))
        cfg["res"] = True if cfg["rule"] == "maxw" or len(case.projects) > 5 else cfg["res"]
        yield case, cfg


def run(ctx, n=None, compare=True, hashseeds=None):
    ctx.rule = RULE
    n = n or ctx.scale(1500, 8000)
    rng = ctx.rng
    batch = []  # for the hash-seed workers
    base_answers = []
    lines, line_info = [], []
    for case, cfg in pairs(ctx, n):
        if ctx.budget_s is not None and ctx.elapsed() > ctx.budget_s:
            break
        ctx.evaluations += 1
        ctx.count("rule", cfg["rule"])
        ctx.count("sat", cfg.get("sat") or "-")
        sig0 = {"rule": cfg["rule"], "sat": cfg.get("sat")}
        lex = dict(cfg, tie="lexico")
        a0, built0, c0, ans0 = answer(case, lex)
        if compare and cfg["rule"] != "maxw":
            lines.append(rules.model_line(built0, c0))
            line_info.append((a0, case, c0))
        # determinism in one process
        a0b, *_ = answer(case, lex)
        if a0b != a0:
            ctx.violations.append(violation("same call twice in one process gave different results", case, lex, impl=a0b, expected=a0, sig=dict(sig0, clause="twice")))
        # the same call twice on the SAME objects, the initial allocation handed over as one BudgetAllocation object
        if cfg["rule"] in ("greedy", "phragmen", "maxw") and ans0[0] in ("ok", "oks"):
            from pabutools.rules import BudgetAllocation

            c2 = dict(c0)
            ba = BudgetAllocation([built0.projs[nm] for nm in (c0.get("init") or [])])
            before = [p.name for p in ba]
            c2["init_obj"] = ba
            r1, _ = rules.impl_answer(built0, c2)
            r2, _ = rules.impl_answer(built0, c2)
            s1, s2 = rules.canon(r1), rules.canon(r2)
            if cfg["rule"] == "maxw":
                s1 = s2 = "-" if (r1[0] == r2[0] == "ok") else s1 + "|" + s2
            if s1 != s2 or (cfg["rule"] != "maxw" and s1 != rules.canon(ans0)):
                ctx.violations.append(violation("two identical calls sharing one initial-allocation object give different results", case, lex, impl=s2, expected=s1,
                                                sig=dict(sig0, clause="twice_shared_objects")))
            if [p.name for p in ba] != before:
                ctx.violations.append(violation("the caller's initial BudgetAllocation object was modified by the rule", case, lex, impl=[p.name for p in ba], expected=before,
                                                sig=dict(sig0, clause="twice_shared_objects")))
        # voters in another order
        sh = list(case.ballots)
        rng.shuffle(sh)
        c1 = Case(case.projects, case.budget, case.btype, sh, case.seed)
        lex1 = dict(lex)
        if lex.get("loads_per_voter") is not None:
            # loads travel with the voters
            perm = list(range(len(case.ballots)))
            rng.shuffle(perm)
            c1 = Case(case.projects, case.budget, case.btype, [case.ballots[i] for i in perm], case.seed)
            lex1["loads_per_voter"] = [lex["loads_per_voter"][i] for i in perm]
        a1, *_ = answer(c1, lex1)
        if a1 != a0:
            ctx.violations.append(violation("outcome changes when the voters are listed in another order", c1, lex1, impl=a1, expected=a0, sig=dict(sig0, clause="voters"), original=case.to_json()))
        # projects inserted in another order
        order = [nm for nm, _ in case.projects]
        rng.shuffle(order)
        lex2 = dict(lex, order=order)
        a2, *_ = answer(case, lex2)
        if a2 != a0:
            ctx.violations.append(violation("outcome changes when the projects are inserted in another order", case, lex2, impl=a2, expected=a0, sig=dict(sig0, clause="projects")))
        # common scaling
        for lam in SCALES:
            cs = scaled(case, lam)
            lexs = dict(lex)
            if lexs.get("loads_per_voter") is not None:
                # initial loads are amounts of money per supporter: they scale with the costs
                lexs["loads_per_voter"] = [x * lam for x in lexs["loads_per_voter"]]
            a3, *_ = answer(cs, lexs)
            if cfg["rule"] == "maxw":
                continue  # the welfare itself scales with the measure; only the other clauses are claimed for it
            if a3 != a0:
                ctx.violations.append(violation(f"outcome changes when costs and budget are multiplied by {lam}", cs, lexs, impl=a3, expected=a0,
                                                sig=dict(sig0, clause="scale"), original=case.to_json()))
                break
        if len(case.projects) >= 3 and ans0[0] == "ok" and len(ans0[1]) >= 2 and rulegen.has_tie_structure(case):
            ctx.nontrivial.add(case.key() + json.dumps(ruleprops.cfg_json(cfg), sort_keys=True))
        # hash-seed independence with the configured (any shipped) tie rule
        want = dict(cfg)
        if cfg["rule"] == "maxw":
            want["want_welfare"] = True
        batch.append({"case": case.to_json(), "cfg": ruleprops.cfg_json(want)})
        a_cfg, *_ = answer(case, cfg)
        base_answers.append((a_cfg, case, cfg))
    seeds = hashseeds or (HASHSEEDS_THOROUGH if ctx.tier == "thorough" else HASHSEEDS_QUICK)
    ctx.extra["hash_seeds"] = seeds
    for hs in seeds:
        outs = worker.run_batch(batch, hs)
        for out, (a_cfg, case, cfg) in zip(outs, base_answers):
            o = out.strip()
            if cfg["rule"] == "maxw" and " W=" in o:
                o = "W=" + o.split(" W=")[1]
            if o != a_cfg.strip():
                ctx.violations.append(violation(f"outcome differs in an interpreter started with PYTHONHASHSEED={hs}", case, cfg, impl=o, expected=a_cfg,
                                                sig={"rule": cfg["rule"], "sat": cfg.get("sat"), "clause": "hashseed", "tie": cfg.get("tie")}, pythonhashseed=hs))
    if compare and lines:
        outs = core.run_driver(lines)
        for line, out, (impl_s, case, cfg) in zip(lines, outs, line_info):
            if out.strip() != impl_s.strip():
                ctx.disagreements.append({"line": line, "impl": impl_s, "model": out.strip(), "case": case.to_json(), "cfg": ruleprops.cfg_json(cfg)})
            ctx.sample(f"{line} -> impl (all presentations): {impl_s} | model: {out.strip()}")


def search(ctx, disagreements):
    run(ctx, n=2500, compare=False)


def replay(payload):
    case = Case.from_json(payload["case"])
    cfg = ruleprops.cfg_from_json(payload["cfg"])
    exp = payload.get("expected")
    hs = payload.get("pythonhashseed")
    if hs is not None and payload.get("sig", {}).get("clause") == "hashseed":
        out = worker.run_batch([{"case": case.to_json(), "cfg": ruleprops.cfg_json(cfg)}], hs)[0].strip()
    else:
        out, *_ = answer(case, cfg)
    if exp is not None and out.strip() != str(exp).strip():
        return False, f"still differs: {out} vs {exp}"
    return True, "presentations agree on the replayed input: " + out
