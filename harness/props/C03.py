"""C03 — the greedy welfare rule follows its definition and exhausts the budget."""
from __future__ import annotations

import json
import math
import random
from fractions import Fraction as F

from .. import core, history, oracle, rulegen, rules, ruleprops
from ..core import Case
from ..ruleprops import violation

RULE = ("seeded structured elections x (any shipped measure incl. Chamberlin-Courant and sqrt/log of cost, tie rule, Profile/MultiProfile, "
        "initial allocation, additivity flag None/True/False, resolute/irresolute); predicate = independent round-by-round greedy + "
        "exhaustiveness recomputed; plus an exact-arithmetic stress stream (costs proportional to support by a non-dyadic rational factor: "
        "integral and fractional costs tied on satisfaction per cost with a budget that fits only some; cardinal scores above 2**53 whose "
        "totals differ by a unit); plus calls passing sat_profile= (alone, next to a sat_class naming another measure, for a part of the "
        "electorate, without voters), voter-normalised measures on elections with repeated costs and large ballots, and elections without voters, judged by the documented precedence (predicate only); non-trivial = at least 2 projects bought and at least one project left out")
ASSUMPTIONS = ["non-negative utilities", "feasible initial allocation", "exact-arithmetic mode"]
TRUSTED = ["log measures: set-function values dumped from the library's own measure objects"]


def tsat_for(it):
    return tsat_of(it.case, it.cfg)


def tsat_of(case, cfg):
    """total satisfaction of an allocation (list of names) for the voters of `case` under the measure cfg["sat"]"""
    sat = cfg["sat"]
    if sat == "Cost_Sqrt_Sat":
        def ts(alloc):
            return sum((F(math.sqrt(float(sum((case.cost[p] for p in dict.fromkeys(alloc) if p in b), F(0))))) for b in case.ballots), F(0))
        return ts
    if sat == "Additive_Cost_Sqrt_Sat":
        def ts(alloc):
            return sum((F(math.sqrt(float(case.cost[p]))) for b in case.ballots for p in alloc if p in b), F(0))
        return ts
    if sat in ("Cost_Log_Sat", "Additive_Cost_Log_Sat"):
        b0 = rules.Built(case, multi=False)
        if sat == "Cost_Log_Sat":
            rows = rules.setfn_table(b0, sat)
            def ts(alloc):
                mask = sum(1 << case.rank[p] for p in set(alloc))
                return sum((r[mask] for r in rows), F(0))
            return ts
        rows, _ = rules.utilities_table(b0, sat)
        def ts(alloc):
            return sum((rows[v][case.rank[p]] for v in range(len(case.ballots)) for p in alloc), F(0))
        return ts
    return lambda alloc: sum((oracle.sat_set(sat, case, b, alloc) for b in case.ballots), F(0))


def predicate(it):
    case, cfg = it.case, it.cfg
    kind, val = it.ans
    sig = {"rule": "greedy", "sat": cfg.get("sat"), "additive": cfg.get("additive"), "multi": bool(cfg.get("multi")), "res": bool(cfg.get("res", True))}
    if cfg.get("sp_sat"):
        sig["sat_profile_arg"] = cfg.get("sp_mode")
    if kind == "err":
        if val == "tie" and cfg.get("tie") == "refuse":
            return []
        return [violation(f"greedy raised {val}: {it.raw!r}", case, cfg, impl=rules.canon(it.ans), sig=dict(sig, err=val))]
    out = []
    names = case.names
    outs = [val] if kind == "ok" else val
    for W in outs:
        cost = sum((case.cost[names[i]] for i in W), F(0))
        for i, nm in enumerate(names):
            if i not in W and cost + case.cost[nm] <= case.budget:
                out.append(violation(f"outcome not exhaustive: {nm} still fits", case, cfg, impl=sorted(W), sig=dict(sig, clause="exhaustive")))
                break
    # total satisfaction is that of the satisfaction profile the caller handed over, if any (documented precedence:
    # sat_class is then disregarded); costs, budget and the tie-breaking rule are those of the instance / profile arguments
    ts = tsat_of(*ruleprops.effective(case, cfg))
    init = cfg.get("init") or []
    if kind == "ok":
        exp = oracle.greedy(case, ts, tie=cfg.get("tie", "lexico"), init=init)
        exp_ids = sorted(case.rank[p] for p in exp)
        it.n_bought = len(exp) - len(init)
        it.left = len(names) - len(exp)
        if sorted(val) != exp_ids:
            out.append(violation("greedy outcome differs from the round-by-round definition", case, cfg, impl=sorted(val), expected=exp_ids, sig=sig))
    else:
        exp = oracle.greedy(case, ts, init=init, branch=True)
        exp_sets = sorted(sorted(case.rank[p] for p in s) for s in exp)
        got = sorted(sorted(w) for w in val)
        it.n_bought = max((len(s) for s in exp), default=0) - len(init)
        it.left = len(names) - it.n_bought - len(init)
        if got != exp_sets:
            out.append(violation("irresolute greedy outcomes differ from the definition", case, cfg, impl=got, expected=exp_sets, sig=sig))
    return out


def nontrivial(it):
    return getattr(it, "n_bought", 0) >= 2 and getattr(it, "left", 0) >= 1


def pairs(ctx, n):
    rng = ctx.rng
    for _ in range(n):
        case = core.gen_election(rng, m_lo=1, m_hi=6)
        if rng.random() < 0.2:
            case = core.gen_big_election(rng, btypes=("app", "app", "card", "ord"), m=(6, 8))
        cfg = rulegen.gen_rule_cfg(rng, case, rules=("greedy",), allow_refuse=False)
        if cfg["sat"] in ("Cost_Log_Sat", "Cost_Sqrt_Sat", "CC_Sat") and len(case.projects) > 5:
            cfg["res"] = True
        if not cfg["res"] and len(case.projects) > 5:
            cfg["res"] = True
        yield case, cfg


def exact_pairs(ctx, n):
    rng = ctx.rng
    for _ in range(n):
        if rng.random() < 0.7:
            case = core.gen_proportional_election(rng, btypes=("app", "app", "card"))
            ctx.count("stream", "exact:proportional-costs")
        else:
            case = core.gen_huge_election(rng)
            ctx.count("stream", "exact:huge-scores")
        cfg = rulegen.gen_count_cfg(rng, case, rules=("greedy",), allow_refuse=False)
        if not cfg["res"] and len(case.projects) > 5:
            cfg["res"] = True
        yield case, cfg


NORMALISED = {"app": ["Relative_Cardinality_Sat", "Relative_Cardinality_Sat", "Relative_Cost_Approx_Normaliser_Sat", "Effort_Sat", "Cost_Sat"],
              "card": ["Additive_Cardinal_Sat"], "ord": ["Additive_Borda_Sat"]}


def normalised_pairs(ctx, n):
    """voter-normalised measures on elections with repeated costs and large ballots (the normalisers — how many of the ballot's
    projects fit together, what they cost — are computed by helpers of the instance, far from the rule)"""
    rng = ctx.rng
    for _ in range(n):
        case = core.gen_equalcost_election(rng, btypes=("app", "app", "app", "card", "ord"))
        cfg = rulegen.gen_rule_cfg(rng, case, rules=("greedy",), allow_refuse=False, allow_float=False)
        if cfg["sat"] not in ("CC_Sat",):
            cfg["sat"] = rng.choice(NORMALISED[case.btype])
            cfg["additive"] = rng.choice([None, True, False])
        if not cfg["res"] and len(case.projects) > 5:
            cfg["res"] = True
        ctx.count("stream", "normalised-measures:" + cfg["sat"])
        yield case, cfg


def details_stream(ctx, n, compare=True):
    """analytics=True on the resolute additive fast path: `details.projects` against the model (`Greedy.additiveDetails`, theorems
    Properties/C03Details) and against the call's own outcome — one entry per project outside the initial allocation, the density
    as score, a remaining budget exactly for the selected projects, each the previous one minus the cost, never negative; and
    requesting the details does not change the outcome"""
    import pabutools.rules as R

    rng = random.Random(ctx.rng.getrandbits(48))
    lines, info = [], []
    for _ in range(n):
        if ctx.budget_s is not None and ctx.elapsed() > ctx.budget_s:
            break
        u = rng.random()
        case = core.gen_tight_election(rng, btypes=("app", "app", "card", "ord")) if u < 0.5 else (core.gen_equalcost_election(rng, btypes=("app", "card")) if u < 0.75 else core.gen_election(rng, m_lo=1, m_hi=6))
        cfg = rulegen.gen_rule_cfg(rng, case, rules=("greedy",), allow_refuse=False, allow_float=False)
        if cfg["sat"] not in rules.ADDITIVE_CLASS_SATS:
            cfg["sat"] = rng.choice([s for s in core.SAT_BY_TYPE[case.btype] if s in rules.ADDITIVE_CLASS_SATS] or ["Cardinality_Sat"])
        cfg["res"], cfg["additive"] = True, rng.choice([None, True])
        built = rules.Built(case, multi=cfg.get("multi", False))
        tie = core.tie_rule(cfg.get("tie", "lexico"), case, built.projs)
        init = [built.projs[nm] for nm in (cfg.get("init") or [])]
        kw = dict(sat_class=core.sat_class(cfg["sat"]), tie_breaking=tie, resoluteness=True, initial_budget_allocation=init)
        if cfg["additive"] is not None:
            kw["is_sat_additive"] = True
        ctx.evaluations += 1
        ctx.count("stream", "fast-path details")
        sig = {"rule": "greedy", "sat": cfg["sat"], "clause": "details"}
        try:
            out = R.greedy_utilitarian_welfare(built.inst, built.prof, analytics=True, **kw)
            plain = R.greedy_utilitarian_welfare(built.inst, built.prof, **kw)
        except Exception as e:  # noqa: BLE001
            ctx.violations.append(violation(f"greedy with analytics raised {e!r}", case, cfg, sig=dict(sig, err=core.err_enum(e))))
            continue
        W = [p.name for p in out]
        if W != [p.name for p in plain]:
            ctx.violations.append(violation("requesting the details changes the outcome of the greedy rule", case, cfg, impl=W, expected=[p.name for p in plain], sig=sig))
        ds = getattr(getattr(out, "details", None), "projects", None)
        if ds is None:
            ctx.violations.append(violation("analytics=True returned no details", case, cfg, sig=sig))
            continue
        rows = []
        for d in ds:
            sc = d.score
            rows.append((d.project.name, "inf" if sc == float("inf") else core.q2s(core.toF(sc)), None if d.remaining_budget is None else core.toF(d.remaining_budget), bool(d.discarded)))
        names_in = set(cfg.get("init") or [])
        bought = [nm for nm in W if nm not in names_in]
        problems = []
        if sorted(r[0] for r in rows) != sorted(nm for nm in case.names if nm not in names_in):
            problems.append("the entries are not one per project outside the initial allocation")
        if [r[0] for r in rows if r[2] is not None] and sorted(r[0] for r in rows if r[2] is not None) != sorted(bought):
            problems.append("a remaining budget is recorded for other projects than the selected ones")
        if any((r[2] is None) != r[3] for r in rows):
            problems.append("`discarded` disagrees with `remaining_budget`")
        rem = case.budget - sum((case.cost[nm] for nm in names_in), F(0))
        by_name = {r[0]: r for r in rows}
        for nm in bought:  # purchase order
            if nm in by_name and by_name[nm][2] is not None:
                rem -= case.cost[nm]
                if by_name[nm][2] != rem or rem < 0:
                    problems.append(f"remaining budget after {nm} is recorded as {by_name[nm][2]}, the costs say {rem}")
                    break
        for what in problems:
            ctx.violations.append(violation("greedy details: " + what, case, cfg, impl=[list(map(str, r)) for r in rows], expected=bought, sig=sig))
        if len(bought) >= 2 and len(bought) < len(rows):
            ctx.nontrivial.add(case.key() + "details" + json.dumps(ruleprops.cfg_json(cfg), sort_keys=True, default=str))
        if compare:
            lines.append(rules.model_line(built, cfg) + " details=1")
            info.append(("ok " + (" ".join(f"{case.rank[r[0]]};{r[1]};{'-' if r[2] is None else core.q2s(r[2])}" for r in rows) or "-"), case, cfg))
    if compare and lines:
        for line, o, (impl_s, case, cfg) in zip(lines, core.run_driver(lines), info):
            if o.strip() != impl_s.strip():
                ctx.disagreements.append({"line": line, "impl": impl_s, "model": o.strip(), "case": case.to_json(), "cfg": ruleprops.cfg_json(cfg)})
            ctx.sample(f"{line} -> impl: {impl_s} | model: {o.strip()}", cap=10)


def satprofile_pairs(ctx, n):
    """calls that pass sat_profile=: alone (with or without the additivity flag), next to a sat_class naming another measure,
    holding only some voters of the profile argument, or holding no voter at all; and elections WITHOUT voters called in
    every way (sat_class only, sat_profile only, both).  Judged by the documented precedence: the satisfaction profile
    decides the welfare, so the outcome is the round-by-round greedy for the voters it holds"""
    rng = ctx.rng
    for _ in range(n):
        u = rng.random()
        if u < 0.5:
            case = core.gen_election(rng, m_lo=1, m_hi=6)
        elif u < 0.8:
            case = core.gen_tight_election(rng, btypes=("app", "app", "card", "ord"))
        else:
            case = core.gen_proportional_election(rng, btypes=("app", "card"))
        voterless = rng.random() < 0.2
        if voterless:
            case = Case(case.projects, case.budget, case.btype, [], case.seed)
        if voterless and rng.random() < 0.3:
            cfg = rulegen.gen_rule_cfg(rng, case, rules=("greedy",), allow_refuse=False)
            mode = "sat_class only"
        else:
            cfg = rulegen.gen_satprofile_cfg(rng, case, "greedy", modes=("only", "other-measure") if voterless else rulegen.SP_MODES, allow_refuse=False)
            mode = cfg["sp_mode"]
        cfg["multi"] = cfg["multi"] and not voterless
        if not cfg["res"] and (len(case.projects) > 5 or voterless):
            cfg["res"] = True
        ctx.count("stream", "sat_profile-argument:" + ("no voters, " if voterless else "") + mode)
        yield case, cfg


def run(ctx):
    ctx.rule = RULE
    items = ruleprops.run_items(ctx, pairs(ctx, ctx.scale(1500, 12000)), predicate, nontrivial)
    history.run_history(ctx, "greedy", ctx.scale(300, 3000))
    # exact-arithmetic stress: ties at ratios no binary float holds, between costs of different kinds; huge magnitudes
    items += ruleprops.run_items(ctx, exact_pairs(ctx, ctx.scale(1500, 10000)), predicate, nontrivial)
    # round 4 (drawn last: the seeds of the streams above are unchanged); predicate only
    items += ruleprops.run_items(ctx, satprofile_pairs(ctx, ctx.scale(1200, 10000)), predicate, nontrivial, compare=False)
    # round 5/6: voter-normalised measures on repeated costs (drawn last)
    items += ruleprops.run_items(ctx, normalised_pairs(ctx, ctx.scale(1500, 10000)), predicate, nontrivial)
    details_stream(ctx, ctx.scale(800, 6000))
    ctx.extra["additive_flag"] = {str(k): sum(1 for it in items if it.cfg.get("additive") == k) for k in (None, True, False)}


def search(ctx, disagreements):
    ctx.rule = RULE
    ruleprops.run_items(ctx, pairs(ctx, 8000), predicate, nontrivial, compare=False)
    ruleprops.run_items(ctx, exact_pairs(ctx, 6000), predicate, nontrivial, compare=False)
    ruleprops.run_items(ctx, satprofile_pairs(ctx, 4000), predicate, nontrivial, compare=False, keep=False)
    ruleprops.run_items(ctx, normalised_pairs(ctx, 6000), predicate, nontrivial, compare=False, keep=False)


def replay(payload):
    if payload.get("cfg", {}).get("history"):
        return history.replay(payload)
    case = Case.from_json(payload["case"])
    cfg = ruleprops.cfg_from_json(payload["cfg"])
    if not ruleprops.well_formed(case, cfg):
        return True, ruleprops.NOT_AN_INPUT
    built = rules.Built(case, multi=cfg.get("multi", False))
    ans, raw = rules.impl_answer(built, cfg)
    it = ruleprops.Item(case, cfg, built, ans, raw, None)
    vs = predicate(it)
    if vs:
        return False, "still fails: " + vs[0]["what"]
    return True, "property holds on the replayed input: " + rules.canon(ans)
