"""C04 — the welfare maximiser returns an optimum; irresolute mode returns all optima exactly once."""
from __future__ import annotations

import json
import math
from fractions import Fraction as F

from .. import core, history, oracle, rulegen, rules, ruleprops, solverbox
from ..core import Case
from ..ruleprops import violation
from . import C02, C04_ilp

RULE = ("seeded elections with <=10 projects (<=8 in the quick tier), integer and fractional costs, every additive measure (integer- and "
        "fraction-valued), initial allocations, Profile/MultiProfile; primal/dual run in-process and diffed with the Lean model (set and "
        "value); ILP path run in a child process with every solver answer re-validated exactly against the model it was given (faults "
        "discarded); plus calls passing sat_profile= (alone, next to a sat_class naming another measure, for a part of the electorate, "
        "without voters) on both algorithms, judged by the documented precedence (predicate only); predicate = brute force over all subsets; non-trivial = >=4 undecided projects and the optimum is not 'take everything'; "
        "plus cardinal/cumulative elections with negative and zero scores (projects of negative / zero total satisfaction), both algorithms, resolute and "
        "irresolute, Profile/MultiProfile, welfare recomputed from the raw ballots (primal/dual also diffed with the Lean model; ILP programs captured)")
ASSUMPTIONS = ["additive measures", "feasible initial allocation"]
TRUSTED = ["CBC answers re-validated exactly by harness/mipcheck.py; solver faults are discarded, as the property states",
           "ILP path: the only solver hypothesis of the theorems is WelfareILP.SolverSpec (an answer is an optimal feasible point of the program given, "
           "'none' only if infeasible); the programs python-mip is given are captured at every optimize() and equal the model's (props/C04_ilp.py); "
           "doubles for coefficients and the float '== opt_value' are modelled-not-verified"]


def profit_for(it_case, cfg):
    """total satisfaction per project — of the satisfaction profile the caller handed over, if any: the rule documents
    that sat_class is then disregarded (ruleprops.effective)"""
    ecase, ecfg = ruleprops.effective(it_case, cfg)
    U = C02.utilities_of(ecase, ecfg)
    return {p: sum((U[v][p] for v in range(len(ecase.ballots))), F(0)) for p in it_case.names}


def predicate_pd(it):
    case, cfg = it.case, it.cfg
    kind, val = it.ans
    sig = {"rule": "maxw", "algo": "pd", "sat": cfg.get("sat")}
    if cfg.get("sp_sat"):
        sig["sat_profile_arg"] = cfg.get("sp_mode")
    if kind == "err":
        return [violation(f"welfare maximiser raised {val}: {it.raw!r}", case, cfg, impl=rules.canon(it.ans), sig=dict(sig, err=val))]
    profit = profit_for(case, cfg)
    init = cfg.get("init") or []
    best, arg = oracle.welfare_opt(case, profit, init)
    names = case.names
    out = []
    W = [names[i] for i in val]
    cost = sum((case.cost[p] for p in W), F(0))
    if len(set(W)) != len(W) or cost > case.budget or not set(init) <= set(W):
        out.append(violation("welfare maximiser outcome is not a feasible extension of the initial allocation", case, cfg, impl=sorted(val), sig=dict(sig, clause="feasible")))
    got = sum((profit[p] for p in W), F(0))
    it.opt_all = any(len(s) == len(names) for s in arg)
    it.undecided = len(names) - len(init)
    if got != best:
        out.append(violation(f"welfare {got} is not the optimum {best}", case, cfg, impl=sorted(val), expected=sorted(sorted(case.rank[p] for p in s) for s in arg)[:3], sig=dict(sig, clause="optimal")))
    return out


def nontrivial(it):
    return getattr(it, "undecided", 0) >= 4 and not getattr(it, "opt_all", True)


def pairs(ctx, n, m_hi):
    rng = ctx.rng
    for _ in range(n):
        case = core.gen_election(rng, btypes=("app", "app", "card", "cum", "ord"), m_lo=0, m_hi=m_hi)
        cfg = rulegen.gen_rule_cfg(rng, case, rules=("maxw",), allow_refuse=False)
        yield case, cfg


def run(ctx, compare=True, n_pd=None, n_ilp=None):
    ctx.rule = RULE
    m_hi = 10 if ctx.tier == "thorough" else 8
    n_pd = n_pd or ctx.scale(1500, 10000)
    n_ilp = n_ilp if n_ilp is not None else ctx.scale(150, 1200)
    ruleprops.run_items(ctx, pairs(ctx, n_pd, m_hi), predicate_pd, nontrivial, compare=compare)
    history.run_history(ctx, "maxw", ctx.scale(200, 2000))
    C04_ilp.run(ctx, lambda n: pairs(ctx, n, min(m_hi, 7)), ctx.scale(120, 1000) if n_ilp else 0)  # programs built by the library == programs of the Lean model
    # ILP path, isolated
    box = solverbox.Box()
    try:
        for case, cfg in pairs(ctx, n_ilp, min(m_hi, 7)):
            if ctx.budget_s is not None and ctx.elapsed() > ctx.budget_s:
                break
            cfg = dict(cfg, algo="ilp", res=ctx.rng.random() < 0.5)
            ans = box.ask({"case": case.to_json(), "cfg": ruleprops.cfg_json(cfg)})
            ctx.evaluations += 1
            ctx.count("rule", "maxw-ilp-" + ("res" if cfg["res"] else "irres"))
            if ans.startswith("solver-fault"):
                ctx.solver_faults += 1
                continue
            vs, n_opt = judge_ilp(case, cfg, ans)
            ctx.violations.extend(vs)
            if not cfg["res"] and n_opt >= 2:
                ctx.nontrivial.add(case.key() + "ilp")
            ctx.sample(f"maxw-ilp {json.dumps(ruleprops.cfg_json(cfg))} on {case.enc_common()} -> {ans}", cap=8)
        run_nofree(ctx, box, ctx.scale(40, 300) if n_ilp else 0)  # D46: nothing left to decide
        run_oddgrid(ctx, box, ctx.scale(300, 3000), ctx.scale(120, 1000) if n_ilp else 0)  # round 6
        # round 4 (drawn last: the seeds of the streams above are unchanged)
        run_satprofile(ctx, box, m_hi, ctx.scale(700, 6000), ctx.scale(90, 800) if n_ilp else 0)
        run_negscores(ctx, box, m_hi, ctx.scale(900, 8000), ctx.scale(110, 900) if n_ilp else 0, compare)  # D45 (drawn after everything above)
    finally:
        ctx.solver_faults += 0
        box.close()


def judge_ilp(case, cfg, ans):
    """the property's clauses on one answer of the ILP path (canonical string of the worker) -> (violations, number of optima)"""
    sig = {"rule": "maxw", "algo": "ilp", "sat": cfg.get("sat"), "res": cfg["res"]}
    if cfg.get("sp_sat"):
        sig["sat_profile_arg"] = cfg.get("sp_mode")
    if not ans.startswith("ok"):
        return [violation("ILP welfare maximiser failed: " + ans, case, cfg, impl=ans, sig=dict(sig, err=True))], 0
    profit = profit_for(case, cfg)
    init = cfg.get("init") or []
    best, arg = oracle.welfare_opt(case, profit, init)
    opt_sets = sorted(sorted(case.rank[p] for p in s) for s in arg)
    parsed = core.parse_outcome(ans)
    if cfg["res"]:
        W = sorted(parsed)
        if W not in opt_sets:
            return [violation("ILP outcome is not a welfare-maximal feasible allocation", case, cfg, impl=W, expected=opt_sets[:4], sig=sig)], len(arg)
        return [], len(arg)
    body = ans[2:].strip()
    got = sorted(sorted(int(x) for x in part.split(",") if x != "") for part in body.split("|"))
    if got != opt_sets:
        return [violation("irresolute ILP outcomes are not exactly the set of optima", case, cfg, impl=got, expected=opt_sets, sig=sig)], len(arg)
    return [], len(arg)


def run_oddgrid(ctx, box, n_pd, n_ilp):
    """the initial allocation holds a project whose cost is on ANOTHER grid than everything else (halves or thirds among integers,
    integers among halves): what is left for the other projects, budget - cost(initial allocation), is then not a whole number of
    their common unit; both algorithms, resolute and irresolute (ILP)"""
    import random

    rng = random.Random(ctx.rng.getrandbits(48))

    def gen():
        case = core.gen_tight_election(rng, btypes=("app", "app", "card"), m=(3, 6), n=(2, 5))
        names = [nm for nm, _ in case.projects]
        odd = rng.choice(names)
        den = rng.choice([2, 2, 3, 4])
        projects = []
        for nm, c in case.projects:
            c = F(int(c) if c >= 1 else 1)
            if nm == odd:
                c = c + F(rng.randint(1, den - 1), den) - rng.choice([0, 1]) * (1 if c > 1 else 0)
            projects.append((nm, c))
        tot = sum((c for _, c in projects), F(0))
        odd_cost = dict(projects)[odd]
        budget = F(rng.randint(int(odd_cost) + 1, max(int(odd_cost) + 2, int(tot))))
        case = Case(projects, budget, case.btype, case.ballots, case.seed)
        cfg = rulegen.gen_rule_cfg(rng, case, rules=("maxw",), allow_refuse=False)
        cfg["init"] = [odd]
        return case, cfg

    def pd_pairs():
        for _ in range(n_pd):
            ctx.count("stream", "initial allocation on another cost grid (primal/dual)")
            yield gen()

    ruleprops.run_items(ctx, pd_pairs(), predicate_pd, nontrivial, compare=True, keep=False)
    for k in range(n_ilp):
        if ctx.budget_s is not None and ctx.elapsed() > ctx.budget_s:
            break
        case, cfg = gen()
        cfg = dict(cfg, algo="ilp", res=bool(k % 2))
        if not cfg["res"] and len(oracle.welfare_opt(case, profit_for(case, cfg), cfg["init"])[1]) > C04_ilp.MAX_OPTIMA:
            cfg["res"] = True
        ans = box.ask({"case": case.to_json(), "cfg": ruleprops.cfg_json(cfg)})
        ctx.evaluations += 1
        ctx.count("stream", "initial allocation on another cost grid (ILP)")
        if ans.startswith("solver-fault"):
            ctx.solver_faults += 1
            continue
        vs, n_opt = judge_ilp(case, cfg, ans)
        ctx.violations.extend(vs)
        ctx.nontrivial.add(case.key() + "ilp-oddgrid" + str(cfg["res"]))


def run_nofree(ctx, box, n):
    """D46: no project left to decide (every project in the initial allocation, or an instance without projects) — the optimum
    is the initial allocation itself, for both algorithms, resolute and irresolute (python-mip refuses a model without
    variables; that is not a solver fault, the solver is never reached)"""
    import random

    rng = random.Random(ctx.rng.getrandbits(48))
    for k in range(n):
        if ctx.budget_s is not None and ctx.elapsed() > ctx.budget_s:
            break
        case = core.gen_election(rng, btypes=("app", "app", "card", "cum", "ord"), m_lo=0, m_hi=3)
        cfg = rulegen.gen_rule_cfg(rng, case, rules=("maxw",), allow_refuse=False)
        if k % 3 == 2:
            case = Case([], case.budget, case.btype, [{} if case.btype in ("card", "cum") else [] for _ in case.ballots], case.seed)
            cfg = rulegen.gen_rule_cfg(rng, case, rules=("maxw",), allow_refuse=False)
            cfg["init"] = []
        else:
            tot = sum(case.cost.values(), F(0))
            if tot > case.budget:
                case = Case(case.projects, tot + (k % 2), case.btype, case.ballots, case.seed)
            cfg["init"] = list(case.names)
        cfg = dict(cfg, algo="ilp", res=bool(k % 2))
        ans = box.ask({"case": case.to_json(), "cfg": ruleprops.cfg_json(cfg)})
        ctx.evaluations += 1
        ctx.count("rule", "maxw-ilp-nothing-to-decide-" + ("res" if cfg["res"] else "irres"))
        if ans.startswith("solver-fault"):
            ctx.solver_faults += 1
            continue
        vs, _ = judge_ilp(case, cfg, ans)
        ctx.violations.extend(vs)
        if case.names:
            ctx.nontrivial.add(case.key() + "ilp-nofree" + str(cfg["res"]))


def satprofile_pairs(ctx, n, m_hi):
    """calls that pass sat_profile=: alone, next to a sat_class naming another measure, holding only some voters of the
    profile argument, or holding no voter.  The documented precedence makes the satisfaction profile the one whose welfare
    is maximised (sat_class is disregarded): the optimum is taken over its voters and its measure"""
    rng = ctx.rng
    for _ in range(n):
        if rng.random() < 0.6:
            case = core.gen_election(rng, btypes=("app", "app", "card", "cum", "ord"), m_lo=1, m_hi=m_hi)
        else:
            case = core.gen_tight_election(rng, btypes=("app", "app", "card"), m=(3, min(6, m_hi)))
        cfg = rulegen.gen_satprofile_cfg(rng, case, "maxw", allow_refuse=False)
        ctx.count("stream", "sat_profile-argument:" + cfg["sp_mode"])
        yield case, cfg


def run_satprofile(ctx, box, m_hi, n_pd, n_ilp):
    """predicate only (the Lean model is not asked: its welfare is that of one voter list and one measure)"""
    ruleprops.run_items(ctx, satprofile_pairs(ctx, n_pd, m_hi), predicate_pd, nontrivial, compare=False, keep=False)
    for case, cfg in satprofile_pairs(ctx, n_ilp, min(m_hi, 6)):
        if ctx.budget_s is not None and ctx.elapsed() > ctx.budget_s:
            break
        cfg = dict(cfg, algo="ilp", res=ctx.rng.random() < 0.5)
        if len(case.names) <= len(set(cfg.get("init") or [])):
            continue  # no variable at all: CBC answers status OTHER for the empty program (a solver fault)
        if not cfg["res"] and len(oracle.welfare_opt(case, profit_for(case, cfg), cfg.get("init") or [])[1]) > C04_ilp.MAX_OPTIMA:
            cfg["res"] = True  # e.g. a satisfaction profile without voters: every feasible allocation is an optimum
        ans = box.ask({"case": case.to_json(), "cfg": ruleprops.cfg_json(cfg)})
        ctx.evaluations += 1
        ctx.count("rule", "maxw-ilp-" + ("res" if cfg["res"] else "irres"))
        if ans.startswith("solver-fault"):
            ctx.solver_faults += 1
            continue
        vs, n_opt = judge_ilp(case, cfg, ans)
        ctx.violations.extend(vs)
        if not cfg["res"] and n_opt >= 2:
            ctx.nontrivial.add(case.key() + "ilp-sp")


# ----------------------------------------------------------------------------------------------
# negative (and zero) total satisfaction — defect D45.  The first proof of `primalDual_optimal` needed `0 <= profit`;
# no generator above ever draws a negative score, and the code was wrong exactly there.

NEG_CARD_SCORES = [-3, -2, -1, -1, 0, 0, 1, 2, 3, F(1, 2), F(-1, 2), F(-5, 3), 5]
NEG_CUM_SCORES = [-2, -1, -1, 0, 0, 1, 2, 3]


def gen_negscore_election(rng, m_hi):
    """cardinal / cumulative election whose scores may be negative or zero, so that projects have a negative, a zero or a
    positive TOTAL satisfaction.  Styles: free draw; 'mostly against' (most scores negative); 'cancelling' (a second
    ballot negates part of the first: zero totals).  Repeated ballots give the MultiProfile real multiplicities."""
    import random

    sub = rng.getrandbits(48)
    r = random.Random(sub)
    btype = r.choice(["card", "card", "cum"])
    pool = NEG_CARD_SCORES if btype == "card" else NEG_CUM_SCORES
    if r.random() < 0.35:
        names = r.sample(core.NAME_POOL, r.randint(1, m_hi))
        projects = [(n, F(r.choice([1, 1, 1, 2, 0]))) for n in names]  # near-unit costs: everything may fit
    else:
        projects = core.gen_projects(r, 1, m_hi, True)
        names = [n for n, _ in projects]
    budget = core.gen_budget(r, projects)
    if r.random() < 0.3:
        budget = max(budget, sum((c for _, c in projects), F(0)))  # all fit: only the sign of the total decides
    style = r.random()
    protos = []
    for _ in range(r.randint(1, 3)):
        b = {}
        for x in names:
            if r.random() < 0.75:
                v = F(r.choice(pool))
                if style < 0.25 and v > 0 and r.random() < 0.7:
                    v = -v
                b[x] = v
        items = list(b.items())
        r.shuffle(items)
        protos.append(dict(items))
    if 0.25 <= style < 0.45 and protos[0]:
        protos.append({k: -v for k, v in protos[0].items() if r.random() < 0.7})
    ballots = [dict(p) for p in protos] + [dict(r.choice(protos)) for _ in range(r.randint(0, 3))]
    r.shuffle(ballots)
    return Case(projects, budget, btype, ballots, seed=sub)


def raw_profit(case):
    """total satisfaction under Additive_Cardinal_Sat straight from the raw ballots: the sum of the scores a project
    was given (a project a ballot does not mention scores 0).  Independent of harness/props/C02.py and of the library."""
    return {p: sum((core.toF(b[p]) for b in case.ballots if p in b), F(0)) for p in case.names}


def negscore_pairs(ctx, n, m_hi):
    rng = ctx.rng
    for _ in range(n):
        case = gen_negscore_election(rng, m_hi)
        cfg = rulegen.gen_rule_cfg(rng, case, rules=("maxw",), allow_refuse=False, allow_float=False)
        assert cfg["sat"] == "Additive_Cardinal_Sat"
        yield case, cfg


def _neg_sig(case, cfg, profit, **kw):
    init = set(cfg.get("init") or [])
    und = [p for p in case.names if p not in init]
    return dict({"rule": "maxw", "algo": cfg.get("algo", "pd"), "sat": cfg.get("sat"), "stream": "negative-scores",
                 "negative_totals": sum(1 for p in und if profit[p] < 0), "zero_totals": sum(1 for p in und if profit[p] == 0)}, **kw)


def predicate_neg_pd(it):
    case, cfg = it.case, it.cfg
    kind, val = it.ans
    profit = raw_profit(case)
    if profit != profit_for(case, cfg):  # the harness's own measure layer must agree with the raw sums
        return [violation("harness: Additive_Cardinal_Sat totals differ from the raw score sums", case, cfg, impl=None, sig=_neg_sig(case, cfg, profit, clause="oracle"))]
    if kind == "err":
        return [violation(f"welfare maximiser raised {val}: {it.raw!r}", case, cfg, impl=rules.canon(it.ans), sig=_neg_sig(case, cfg, profit, err=val))]
    init = cfg.get("init") or []
    best, arg = oracle.welfare_opt(case, profit, init)
    names = case.names
    W = [names[i] for i in val]
    out = []
    if len(set(W)) != len(W) or sum((case.cost[p] for p in W), F(0)) > case.budget or not set(init) <= set(W):
        out.append(violation("welfare maximiser outcome is not a feasible extension of the initial allocation", case, cfg, impl=sorted(val), sig=_neg_sig(case, cfg, profit, clause="feasible")))
    got = sum((profit[p] for p in W), F(0))
    und = [p for p in names if p not in set(init)]
    it.neg_nontrivial = len(und) >= 3 and any(profit[p] < 0 and case.cost[p] > 0 for p in und) and not any(len(s) == len(names) for s in arg)
    if got != best:
        out.append(violation(f"welfare {got} is not the optimum {best} (some total satisfactions are negative or zero)", case, cfg, impl=sorted(val),
                             expected=sorted(sorted(case.rank[p] for p in s) for s in arg)[:3], sig=_neg_sig(case, cfg, profit, clause="optimal")))
    return out


def judge_ilp_neg(case, cfg, ans):
    """the property's clauses on one answer of the ILP path, welfare from the raw ballots -> (violations, number of optima)"""
    profit = raw_profit(case)
    sig = _neg_sig(case, cfg, profit, res=cfg["res"])
    if not ans.startswith("ok"):
        return [violation("ILP welfare maximiser failed: " + ans, case, cfg, impl=ans, sig=dict(sig, err=True))], 0
    best, arg = oracle.welfare_opt(case, profit, cfg.get("init") or [])
    opt_sets = sorted(sorted(case.rank[p] for p in s) for s in arg)
    if cfg["res"]:
        W = sorted(core.parse_outcome(ans))
        if W not in opt_sets:
            return [violation("ILP outcome is not a welfare-maximal feasible allocation (negative/zero totals)", case, cfg, impl=W, expected=opt_sets[:4], sig=sig)], len(arg)
        return [], len(arg)
    got = sorted(sorted(int(x) for x in part.split(",") if x != "") for part in ans[2:].strip().split("|"))
    if got != opt_sets:  # a list: an optimum returned twice is a difference too
        return [violation("irresolute ILP outcomes are not exactly the set of optima, each once (negative/zero totals)", case, cfg, impl=got, expected=opt_sets, sig=sig)], len(arg)
    return [], len(arg)


def run_negscores(ctx, box, m_hi, n_pd, n_ilp, compare=True):
    """primal/dual: predicate (raw-ballot oracle) + diff with the Lean model; ILP: resolute and irresolute in the child
    process, predicate; and the captured programs of the ILP path against the model's (negative objective coefficients)"""
    for it in ruleprops.run_items(ctx, negscore_pairs(ctx, n_pd, m_hi), predicate_neg_pd, lambda it: getattr(it, "neg_nontrivial", False), compare=compare, keep=True):
        ctx.count("stream", "negative-scores:pd:" + ("multi" if it.cfg.get("multi") else "profile"))
    if not n_ilp:
        return
    C04_ilp.run(ctx, lambda n: negscore_pairs(ctx, n, min(m_hi, 6)), max(20, n_ilp // 3))
    for case, cfg in negscore_pairs(ctx, n_ilp, min(m_hi, 7)):
        if ctx.budget_s is not None and ctx.elapsed() > ctx.budget_s:
            break
        cfg = dict(cfg, algo="ilp", res=ctx.rng.random() < 0.4)
        if len(case.names) <= len(set(cfg.get("init") or [])):
            continue  # no variable at all: CBC answers status OTHER for the empty program (a solver fault)
        if not cfg["res"] and len(oracle.welfare_opt(case, raw_profit(case), cfg.get("init") or [])[1]) > C04_ilp.MAX_OPTIMA:
            cfg["res"] = True
        ans = box.ask({"case": case.to_json(), "cfg": ruleprops.cfg_json(cfg)})
        ctx.evaluations += 1
        ctx.count("rule", "maxw-ilp-" + ("res" if cfg["res"] else "irres"))
        ctx.count("stream", "negative-scores:ilp-" + ("res" if cfg["res"] else "irres") + (":multi" if cfg.get("multi") else ":profile"))
        if ans.startswith("solver-fault"):
            ctx.solver_faults += 1
            continue
        vs, n_opt = judge_ilp_neg(case, cfg, ans)
        ctx.violations.extend(vs)
        profit = raw_profit(case)
        if any(v < 0 for v in profit.values()) and (cfg["res"] or n_opt >= 2):
            ctx.nontrivial.add(case.key() + "ilp-neg")
        ctx.sample(f"maxw-ilp(neg) {json.dumps(ruleprops.cfg_json(cfg))} on {case.enc_common()} -> {ans}", cap=4)


def search(ctx, disagreements):
    run(ctx, compare=False, n_pd=12000, n_ilp=600)  # the ILP streams too: a program that differs from the model is searched on the ILP path


def replay(payload):
    if payload.get("cfg", {}).get("history"):
        return history.replay(payload)
    case = Case.from_json(payload["case"])
    cfg = ruleprops.cfg_from_json(payload["cfg"])
    if not ruleprops.well_formed(case, cfg):
        return True, ruleprops.NOT_AN_INPUT
    if cfg.get("algo") == "ilp" and cfg.get("sp_sat"):
        box = solverbox.Box()
        try:
            ans = box.ask({"case": case.to_json(), "cfg": ruleprops.cfg_json(cfg)})
        finally:
            box.close()
        if ans.startswith("solver-fault"):
            return True, "solver fault on replay (discarded, as the property states)"
        vs, _ = judge_ilp(case, cfg, ans)
        if vs:
            return False, "still fails: " + vs[0]["what"]
        return True, "property holds on the replayed input: " + ans
    if cfg.get("algo") == "ilp":
        return C04_ilp.replay(case, cfg)
    built = rules.Built(case, multi=cfg.get("multi", False))
    ans, raw = rules.impl_answer(built, cfg)
    it = ruleprops.Item(case, cfg, built, ans, raw, None)
    vs = predicate_pd(it)
    if vs:
        return False, "still fails: " + vs[0]["what"]
    return True, "property holds on the replayed input: " + rules.canon(ans)
