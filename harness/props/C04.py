"""C04 — the welfare maximiser returns an optimum; irresolute mode returns all optima exactly once."""
from __future__ import annotations

import json
import math
from fractions import Fraction as F

from .. import core, history, oracle, rulegen, rules, ruleprops, solverbox
from ..core import Case
from ..ruleprops import violation
from . import C02, C04_ilp

RULE = ("seeded elections with <=10 projects (<=8 in the quick tier), integer and fractional costs, every additive measure (integer- and "
        "fraction-valued), initial allocations, Profile/MultiProfile; primal/dual run in-process and diffed with the Lean model (set and "
        "value); ILP path run in a child process with every solver answer re-validated exactly against the model it was given (faults "
        "discarded); predicate = brute force over all subsets; non-trivial = >=4 undecided projects and the optimum is not 'take everything'")
ASSUMPTIONS = ["additive measures", "feasible initial allocation"]
TRUSTED = ["CBC answers re-validated exactly by harness/mipcheck.py; solver faults are discarded, as the property states",
           "ILP path: the only solver hypothesis of the theorems is WelfareILP.SolverSpec (an answer is an optimal feasible point of the program given, "
           "'none' only if infeasible); the programs python-mip is given are captured at every optimize() and equal the model's (props/C04_ilp.py); "
           "doubles for coefficients and the float '== opt_value' are modelled-not-verified"]


def profit_for(it_case, cfg):
    class _It:
        pass

    it = _It()
    it.case, it.cfg = it_case, cfg
    U = C02.utilities_for(it)
    return {p: sum((U[v][p] for v in range(len(it_case.ballots))), F(0)) for p in it_case.names}


def predicate_pd(it):
    case, cfg = it.case, it.cfg
    kind, val = it.ans
    sig = {"rule": "maxw", "algo": "pd", "sat": cfg.get("sat")}
    if kind == "err":
        return [violation(f"welfare maximiser raised {val}: {it.raw!r}", case, cfg, impl=rules.canon(it.ans), sig=dict(sig, err=val))]
    profit = profit_for(case, cfg)
    init = cfg.get("init") or []
    best, arg = oracle.welfare_opt(case, profit, init)
    names = case.names
    out = []
    W = [names[i] for i in val]
    cost = sum((case.cost[p] for p in W), F(0))
    if len(set(W)) != len(W) or cost > case.budget or not set(init) <= set(W):
        out.append(violation("welfare maximiser outcome is not a feasible extension of the initial allocation", case, cfg, impl=sorted(val), sig=dict(sig, clause="feasible")))
    got = sum((profit[p] for p in W), F(0))
    it.opt_all = any(len(s) == len(names) for s in arg)
    it.undecided = len(names) - len(init)
    if got != best:
        out.append(violation(f"welfare {got} is not the optimum {best}", case, cfg, impl=sorted(val), expected=sorted(sorted(case.rank[p] for p in s) for s in arg)[:3], sig=dict(sig, clause="optimal")))
    return out


def nontrivial(it):
    return getattr(it, "undecided", 0) >= 4 and not getattr(it, "opt_all", True)


def pairs(ctx, n, m_hi):
    rng = ctx.rng
    for _ in range(n):
        case = core.gen_election(rng, btypes=("app", "app", "card", "cum", "ord"), m_lo=0, m_hi=m_hi)
        cfg = rulegen.gen_rule_cfg(rng, case, rules=("maxw",), allow_refuse=False)
        yield case, cfg


def run(ctx, compare=True, n_pd=None, n_ilp=None):
    ctx.rule = RULE
    m_hi = 10 if ctx.tier == "thorough" else 8
    n_pd = n_pd or ctx.scale(1500, 10000)
    n_ilp = n_ilp if n_ilp is not None else ctx.scale(150, 1200)
    ruleprops.run_items(ctx, pairs(ctx, n_pd, m_hi), predicate_pd, nontrivial, compare=compare)
    history.run_history(ctx, "maxw", ctx.scale(200, 2000))
    C04_ilp.run(ctx, lambda n: pairs(ctx, n, min(m_hi, 7)), ctx.scale(120, 1000) if n_ilp else 0)  # programs built by the library == programs of the Lean model
    # ILP path, isolated
    box = solverbox.Box()
    try:
        for case, cfg in pairs(ctx, n_ilp, min(m_hi, 7)):
            if ctx.budget_s is not None and ctx.elapsed() > ctx.budget_s:
                break
            cfg = dict(cfg, algo="ilp", res=ctx.rng.random() < 0.5)
            ans = box.ask({"case": case.to_json(), "cfg": ruleprops.cfg_json(cfg)})
            ctx.evaluations += 1
            ctx.count("rule", "maxw-ilp-" + ("res" if cfg["res"] else "irres"))
            if ans.startswith("solver-fault"):
                ctx.solver_faults += 1
                continue
            sig = {"rule": "maxw", "algo": "ilp", "sat": cfg.get("sat"), "res": cfg["res"]}
            if not ans.startswith("ok"):
                ctx.violations.append(violation("ILP welfare maximiser failed: " + ans, case, cfg, impl=ans, sig=dict(sig, err=True)))
                continue
            profit = profit_for(case, cfg)
            init = cfg.get("init") or []
            best, arg = oracle.welfare_opt(case, profit, init)
            opt_sets = sorted(sorted(case.rank[p] for p in s) for s in arg)
            parsed = core.parse_outcome(ans)
            if cfg["res"]:
                W = sorted(parsed)
                if W not in opt_sets:
                    ctx.violations.append(violation("ILP outcome is not a welfare-maximal feasible allocation", case, cfg, impl=W, expected=opt_sets[:4], sig=sig))
            else:
                body = ans[2:].strip()
                got = sorted(sorted(int(x) for x in part.split(",") if x != "") for part in body.split("|"))
                if got != opt_sets:
                    ctx.violations.append(violation("irresolute ILP outcomes are not exactly the set of optima", case, cfg, impl=got, expected=opt_sets, sig=sig))
                if len(arg) >= 2:
                    ctx.nontrivial.add(case.key() + "ilp")
            ctx.sample(f"maxw-ilp {json.dumps(ruleprops.cfg_json(cfg))} on {case.enc_common()} -> {ans}", cap=8)
    finally:
        ctx.solver_faults += 0
        box.close()


def search(ctx, disagreements):
    run(ctx, compare=False, n_pd=12000, n_ilp=0)


def replay(payload):
    if payload.get("cfg", {}).get("history"):
        return history.replay(payload)
    case = Case.from_json(payload["case"])
    cfg = ruleprops.cfg_from_json(payload["cfg"])
    if cfg.get("algo") == "ilp":
        return C04_ilp.replay(case, cfg)
    built = rules.Built(case, multi=cfg.get("multi", False))
    ans, raw = rules.impl_answer(built, cfg)
    it = ruleprops.Item(case, cfg, built, ans, raw, None)
    vs = predicate_pd(it)
    if vs:
        return False, "still fails: " + vs[0]["what"]
    return True, "property holds on the replayed input: " + rules.canon(ans)
