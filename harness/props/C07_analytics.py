"""C07 (analytics part) — the analytics computed from a recorded Equal Shares run:

* the project details of every iteration (`MESProjectDetails.discarded`, `.effective_vote_count_reduced`),
* `calculate_project_loss` on the selecting iterations (as the visualisation module calls it),
* `calculate_effective_supports`.

Every case is (i) run on the real library, (ii) re-computed independently with Fractions from the recorded budgets
(loss: what the supporters spent in the iteration that bought a project, weighted by multiplicity; conservation;
effective support by an own Equal Shares simulation on the EXPANDED voter list with the rich/poor price), and
(iii) diffed with the Lean model (`mesanalytics`, lean/PabuModel/MESAnalytics.lean).
`run_analytics(ctx, n)` is called from harness/props/C07.py: run().
"""
from __future__ import annotations

import copy as _copy
import json
import math
from fractions import Fraction as F

from .. import core, oracle, rulegen, rules, ruleprops
from ..core import Case, toF
from ..ruleprops import violation
from . import C02

PART = "analytics"


# ----------------------------------------------------------------------------------------------
# the real library


def mes_params(built, cfg):
    case, projs = built.case, built.projs
    kw = dict(sat_class=core.sat_class(cfg["sat"]), tie_breaking=core.tie_rule(cfg.get("tie", "lexico"), case, projs))
    if cfg.get("init"):
        kw["initial_budget_allocation"] = [projs[n] for n in cfg["init"]]
    if cfg.get("binary") is not None:
        kw["binary_sat"] = cfg["binary"]
    return kw


def run_impl(built, cfg):
    """returns dict(out, its, losses, eff) — `eff` is a dict name -> int or an exception"""
    from pabutools.analysis.mesanalytics import calculate_effective_supports, calculate_project_loss
    from pabutools.rules import method_of_equal_shares

    kw = mes_params(built, cfg)
    out = method_of_equal_shares(built.inst, built.prof, analytics=True, **kw)
    det = out.details
    its = list(det.iterations)
    # the discarded / priced flags are read now: the later runs re-use neither the details nor the MESProject objects
    recorded = []
    for itn in its:
        recorded.append(
            {
                "pool": [d.project.name for d in itn],
                "discarded": sorted(d.project.name for d in itn if d.discarded),
                "priced": sorted(d.project.name for d in itn if d.effective_vote_count_reduced),
                "selected": None if itn.selected_project is None else itn.selected_project.name,
                "before": [toF(x) for x in itn.voters_budget],
                "after": None if itn.selected_project is None else [toF(x) for x in itn.voters_budget_after_selection],
            }
        )
    d2 = _copy.copy(det)
    d2.iterations = [x for x in its if x.selected_project is not None]
    try:
        losses = [(l.name, toF(l.supporters_budget), {q.name: toF(x) for q, x in l.budget_lost.items()}, toF(l.total_budget_lost())) for l in calculate_project_loss(d2)]
    except Exception as e:  # noqa: BLE001
        losses = e
    # the trailing iteration: the function is documented here as raising on the raw details
    try:
        calculate_project_loss(det)
        raw_raises = False
    except Exception:  # noqa: BLE001
        raw_raises = True
    try:
        eff = {p.name: v for p, v in calculate_effective_supports(built.inst, built.prof, out, dict(kw)).items()}
    except BaseException as e:  # noqa: BLE001 - StopIteration is not an Exception subclass in generators' sense
        eff = e
    return {"out": [p.name for p in out], "mult": list(det.voter_multiplicity), "recorded": recorded, "losses": losses, "eff": eff, "raw_raises": raw_raises}


# ----------------------------------------------------------------------------------------------
# independent recomputation


def entry_utilities(case, cfg, entries):
    class _It:
        pass

    it = _It()
    it.case, it.cfg = case, cfg
    Uexp = C02.utilities_for(it)
    key2idx = {}
    for v, b in enumerate(case.ballots):
        key2idx.setdefault(case.ballot_key(b), v)
    return Uexp, [Uexp[key2idx[case.ballot_key(b)]] for b, _ in entries]


def floor_pct(cover, cost):
    return math.floor(cover / cost * 100)


def eff_expected(case, cfg, Uexp, out_names):
    """effective support of every project by an own simulation on the expanded voters (every voter counts once)"""
    n = len(case.ballots)
    init = list(cfg.get("init") or [])
    b0 = case.budget / n
    key = oracle.tie_key(cfg.get("tie", "lexico"), case)
    supp = {p: [v for v in range(n) if Uexp[v][p] > 0] for p in case.names}
    pool0 = [p for p in case.names if p not in init and supp[p] and case.cost[p] > 0]
    res = {}
    for p in case.names:
        eff = 0
        if p in pool0:
            money = [b0] * n
            pool = [q for q in pool0 if q != p]
            while True:
                rhos = {}
                for q in pool:
                    r = oracle.mes_rho(case.cost[q], supp[q], money, [Uexp[v][q] for v in range(n)])
                    if r is not None:
                        rhos[q] = r
                if not rhos:
                    eff = max(eff, floor_pct(sum((money[v] for v in supp[p]), F(0)), case.cost[p]))
                    break
                best = min(rhos.values())
                sel = min([q for q in pool if q in rhos and rhos[q] == best], key=key)
                for v in supp[sel]:
                    money[v] = money[v] - min(money[v], best * Uexp[v][sel])
                pool.remove(sel)
                eff = max(eff, floor_pct(sum((min(money[v], best * Uexp[v][p]) for v in supp[p]), F(0)), case.cost[p]))
        if p in out_names:
            eff = max(eff, 100)
        res[p] = eff
    return res


def lazy_expected(case, U, mult, recorded):
    """discarded / priced flags by an own replay of the lazy round on the recorded budgets and the recorded pool order"""
    k = len(U)
    aff = {}
    for p in case.names:
        ts = sum((mult[i] * U[i][p] for i in range(k)), F(0))
        if ts > 0 and case.cost[p] > 0:
            aff[p] = case.cost[p] / ts
    exp = []
    for rec in recorded:
        money = rec["before"]
        order = sorted(rec["pool"], key=lambda p: aff[p])
        best = None
        disc, priced = [], []
        for p in order:
            supp = [i for i in range(k) if U[i][p] > 0]
            if sum((money[i] * mult[i] for i in supp), F(0)) < case.cost[p]:
                disc.append(p)
                continue
            if best is not None and aff[p] > best:
                break
            # the price on the expanded supporters (rich/poor fixed point)
            xs = [i for i in supp for _ in range(mult[i])]
            r = oracle.mes_rho(case.cost[p], range(len(xs)), [money[i] for i in xs], [U[i][p] for i in xs])
            if r is None:
                continue
            aff[p] = r
            priced.append(p)
            if best is None or r < best:
                best = r
        exp.append((sorted(disc), sorted(priced)))
    return exp


def loss_expected(case, U, mult, recorded):
    """the ProjectLoss records from the recorded budgets (selecting iterations), in the order the function emits them"""
    k = len(U)
    sel = [r for r in recorded if r["selected"] is not None]
    out = []
    supp = {p: [i for i in range(k) if U[i][p] > 0] for p in case.names}

    def record(p, money, earlier):
        lost = {}
        for r in earlier:
            q = r["selected"]
            common = [i for i in supp[p] if i in supp[q]]
            if common:
                lost[q] = sum(((r["before"][i] - r["after"][i]) * mult[i] for i in common), F(0))
        return (p, sum((money[i] * mult[i] for i in supp[p]), F(0)), lost)

    for idx, r in enumerate(sel):
        out.append(record(r["selected"], r["before"], sel[:idx]))
        for p in r["pool"]:
            if p in r["discarded"] or (idx == len(sel) - 1 and p != r["selected"]):
                out.append(record(p, r["after"], sel[: idx + 1]))
    return out


# ----------------------------------------------------------------------------------------------
# the predicate on one case


def check(case, cfg, built, impl):
    vs = []
    sig = {"part": PART, "rule": "mes", "sat": cfg["sat"], "multi": bool(cfg.get("multi"))}
    entries = built.entries()
    mult = [m for _, m in entries]
    if mult != impl["mult"]:
        return [violation("voter_multiplicity does not match the profile", case, cfg, sig=dict(sig, clause="shape"))], {}
    Uexp, U = entry_utilities(case, cfg, entries)
    k = len(U)
    rec = impl["recorded"]
    names = case.names
    init = list(cfg.get("init") or [])
    supp = {p: [i for i in range(k) if U[i][p] > 0] for p in names}
    pool0 = sorted(p for p in names if p not in init and supp[p] and case.cost[p] > 0)
    stats = {"selecting": sum(1 for r in rec if r["selected"] is not None)}

    # --- (a) project details
    if not rec or rec[-1]["selected"] is not None:
        return [violation("the record does not end with an iteration that selects nothing", case, cfg, sig=dict(sig, clause="shape"))], stats
    if sorted(rec[0]["pool"]) != pool0:
        vs.append(violation("the first iteration does not list the supported positive-cost projects", case, cfg, impl=sorted(rec[0]["pool"]), expected=pool0, sig=dict(sig, clause="details-pool")))
    for idx, r in enumerate(rec):
        for p in r["discarded"]:
            if sum((r["before"][i] * mult[i] for i in supp[p]), F(0)) >= case.cost[p]:
                vs.append(violation(f"iteration {idx} marks {p} as discarded although its supporters hold its cost", case, cfg, sig=dict(sig, clause="details-discarded")))
        if r["selected"] is not None and r["selected"] in r["discarded"]:
            vs.append(violation(f"iteration {idx} selects a project it discarded", case, cfg, sig=dict(sig, clause="details-discarded")))
        if idx + 1 < len(rec):
            nxt = [p for p in r["pool"] if p not in r["discarded"] and p != r["selected"]]
            if rec[idx + 1]["pool"] != nxt:
                vs.append(violation(f"the projects of iteration {idx + 1} are not those of iteration {idx} minus the discarded and the selected ones (in the same order)", case, cfg, impl=rec[idx + 1]["pool"], expected=nxt, sig=dict(sig, clause="details-pool")))
        else:
            if sorted(r["discarded"]) != sorted(r["pool"]):
                vs.append(violation("the last iteration does not mark every remaining project as discarded", case, cfg, impl=r["discarded"], expected=sorted(r["pool"]), sig=dict(sig, clause="details-discarded")))
    if not vs:
        lz = lazy_expected(case, U, mult, rec)
        for idx, (r, (d, pr)) in enumerate(zip(rec, lz)):
            if r["discarded"] != d or r["priced"] != pr:
                vs.append(violation(f"iteration {idx}: discarded/priced flags differ from the replay of the lazy round", case, cfg, impl=[r["discarded"], r["priced"]], expected=[d, pr], sig=dict(sig, clause="details-lazy")))
                break
        stats["unreached"] = any(
            any(p not in r["discarded"] and p != r["selected"] and sum((r["before"][i] * mult[i] for i in supp[p]), F(0)) < case.cost[p] for p in r["pool"])
            for r in rec
        )

    # --- (b) project loss
    if not impl["raw_raises"] and stats["selecting"] >= 0:
        # documented behaviour of the shipped function on the raw details (trailing iteration): it raises.
        # Not a clause of the property; recorded in the evidence only.
        stats["raw_ok"] = True
    losses = impl["losses"]
    if isinstance(losses, BaseException):
        vs.append(violation(f"calculate_project_loss raised {losses!r} on the selecting iterations", case, cfg, sig=dict(sig, clause="loss", err=core.err_enum(losses))))
    else:
        exp = loss_expected(case, U, mult, rec)
        got = [(n, sb, lost) for n, sb, lost, _ in losses]
        if got != exp:
            vs.append(violation("calculate_project_loss differs from the recomputation from the recorded budgets", case, cfg,
                                impl=[[n, core.q2s(sb), {q: core.q2s(x) for q, x in lost.items()}] for n, sb, lost in got],
                                expected=[[n, core.q2s(sb), {q: core.q2s(x) for q, x in lost.items()}] for n, sb, lost in exp], sig=dict(sig, clause="loss")))
        b0 = rec[0]["before"][0] if rec[0]["before"] else F(0)
        for n, sb, lost, tot in losses:
            if tot != sum(lost.values(), F(0)):
                vs.append(violation(f"total_budget_lost of {n} is not the sum of budget_lost", case, cfg, sig=dict(sig, clause="loss-total")))
            if sb + sum(lost.values(), F(0)) != sum((mult[i] * b0 for i in supp[n]), F(0)):
                vs.append(violation(f"supporters' budget + budget lost of {n} is not the initial money of its supporters", case, cfg,
                                    impl=core.q2s(sb + sum(lost.values(), F(0))), expected=core.q2s(sum((mult[i] * b0 for i in supp[n]), F(0))), sig=dict(sig, clause="loss-conservation")))
            if any(x < 0 for x in lost.values()) or sb < 0:
                vs.append(violation(f"negative entry in the loss record of {n}", case, cfg, sig=dict(sig, clause="loss-sign")))
        stats["lost_entries"] = sum(len(l[2]) for l in losses)

    # --- (c) effective support
    eff = impl["eff"]
    exp_eff = eff_expected(case, cfg, Uexp, impl["out"])
    if isinstance(eff, BaseException):
        reason = "project_outside_pool" if (isinstance(eff, StopIteration) and any(p not in pool0 for p in names)) else "other"
        vs.append(violation(f"calculate_effective_supports raised {eff!r}", case, cfg, expected=exp_eff, sig=dict(sig, clause="effsupport-raises", reason=reason)))
    else:
        if eff != exp_eff:
            mism = sorted(p for p in names if eff.get(p) != exp_eff[p])
            reason = "multiplicity" if max(mult, default=1) > 1 and all(eff.get(p, 0) <= exp_eff[p] for p in mism) else "other"
            vs.append(violation(f"calculate_effective_supports differs from the recomputation on the expanded voters for {mism}", case, cfg,
                                impl={p: eff.get(p) for p in names}, expected=exp_eff, sig=dict(sig, clause="effsupport", reason=reason)))
        for p in names:
            if p in impl["out"] and eff.get(p, 0) < 100:
                vs.append(violation(f"picked project {p} has effective support below 100", case, cfg, sig=dict(sig, clause="effsupport-picked")))
        stats["eff_mid"] = any(0 < eff.get(p, 0) < 100 for p in names if p not in impl["out"])
    return vs, stats


# ----------------------------------------------------------------------------------------------
# the Lean model


def model_line(case, cfg, built, impl):
    binary = cfg.get("binary")
    if binary is None:
        binary = case.btype == "app"
    init = ".".join(str(i) for i in case.ids(cfg.get("init") or []))
    ord_ = ",".join(str(case.rank[p]) for p in impl["recorded"][0]["pool"]) if impl["recorded"] else ""
    return ("mesanalytics " + case.enc_common(built.entries(), built.enum()) + f" tie={cfg.get('tie', 'lexico')} init={init} "
            + rules.sat_tokens(built, cfg) + f" bin={1 if binary else 0} ord={ord_}")


def impl_struct(case, impl):
    """the implementation's analytics in the canonical structure the model's answer is parsed into"""
    D = []
    for r in impl["recorded"]:
        D.append((
            [case.rank[p] for p in r["pool"]],
            sorted(case.rank[p] for p in r["discarded"]),
            sorted(case.rank[p] for p in r["priced"]),
            None if r["selected"] is None else case.rank[r["selected"]],
            list(r["before"]),
            [] if r["after"] is None else list(r["after"]),
        ))
    L = None
    if not isinstance(impl["losses"], BaseException):
        L = [(case.rank[n], sb, sorted((case.rank[q], x) for q, x in lost.items())) for n, sb, lost, _ in impl["losses"]]
    E = None
    if not isinstance(impl["eff"], BaseException):
        E = sorted((case.rank[p], v) for p, v in impl["eff"].items())
    return D, L, E


def _ids(s):
    return [int(x) for x in s.split(",") if x != ""]


def _rats(s):
    return [core.s2q(x) for x in s.split(",") if x != ""]


def parse_model(ans):
    ans = ans.strip()
    if not ans.startswith("ok "):
        return ans
    parts = {}
    for tok in ans[3:].split(" "):
        if ":" in tok:
            k, v = tok.split(":", 1)
            parts[k] = v
    D = []
    for it in parts.get("D", "").split("|"):
        if it == "":
            continue
        pool, disc, priced, sel, before, after = it.split(";")
        D.append((_ids(pool), sorted(_ids(disc)), sorted(_ids(priced)), None if sel == "-" else int(sel), _rats(before), _rats(after)))
    L = []
    for rec in parts.get("L", "").split("|"):
        if rec == "":
            continue
        p, sb, lost = rec.split(";")
        L.append((int(p), core.s2q(sb), sorted((int(e.split("=")[0]), core.s2q(e.split("=")[1])) for e in lost.split(",") if e != "")))
    E = sorted((int(e.split("=")[0]), int(e.split("=")[1])) for e in parts.get("E", "").split(",") if e != "")
    return D, L, E


def show_struct(s):
    if isinstance(s, str):
        return s
    D, L, E = s
    return json.dumps({"D": [[a, b, c, d, [core.q2s(x) for x in e], [core.q2s(x) for x in f]] for a, b, c, d, e, f in D],
                       "L": None if L is None else [[p, core.q2s(sb), [[q, core.q2s(x)] for q, x in lost]] for p, sb, lost in L],
                       "E": E})


# ----------------------------------------------------------------------------------------------
# cases


def pairs(ctx, n):
    rng = ctx.rng
    for i in range(n):
        case = core.gen_election(rng, btypes=("app", "app", "app", "card", "cum", "ord"), m_lo=1, m_hi=6)
        if rng.random() < 0.2:
            case = core.gen_big_election(rng, btypes=("app", "app", "card", "ord"), m=(5, 7), n=(5, 8))
        cfg = rulegen.gen_rule_cfg(rng, case, rules=("mes",), allow_refuse=False, allow_float=False)
        cfg["res"] = True
        cfg["analytics"] = True
        if rng.random() < 0.15:
            cfg["init"] = core.gen_init(rng, case)
        yield case, cfg


def run_one(case, cfg):
    built = rules.Built(case, multi=cfg.get("multi", False))
    try:
        impl = run_impl(built, cfg)
    except Exception as e:  # noqa: BLE001
        return built, None, [violation(f"Equal Shares with analytics raised {e!r}", case, cfg, sig={"part": PART, "rule": "mes", "sat": cfg["sat"], "clause": "run", "err": core.err_enum(e)})], {}
    vs, st = check(case, cfg, built, impl)
    return built, impl, vs, st


def presentations_agree(case, cfg, impl):
    """Profile and MultiProfile are the same election: effective supports and the loss records of the selected
    projects must be the same in both presentations"""
    other = dict(cfg, multi=not cfg.get("multi", False))
    built2 = rules.Built(case, multi=other["multi"])
    try:
        impl2 = run_impl(built2, other)
    except Exception:  # noqa: BLE001
        return []
    vs = []
    sig = {"part": PART, "rule": "mes", "sat": cfg["sat"], "multi": "both"}
    e1, e2 = impl["eff"], impl2["eff"]
    if not isinstance(e1, BaseException) and not isinstance(e2, BaseException) and e1 != e2:
        vs.append(violation("effective supports differ between the profile and its multiprofile", case, cfg, impl=e2, expected=e1, sig=dict(sig, clause="effsupport-presentation")))
    l1, l2 = impl["losses"], impl2["losses"]
    if not isinstance(l1, BaseException) and not isinstance(l2, BaseException):
        s1 = {n: (sb, lost) for n, sb, lost, _ in l1 if n in impl["out"]}
        s2 = {n: (sb, lost) for n, sb, lost, _ in l2 if n in impl2["out"]}
        if s1 != s2:
            vs.append(violation("loss records of the selected projects differ between the profile and its multiprofile", case, cfg, sig=dict(sig, clause="loss-presentation")))
    return vs


def run_analytics(ctx, n=None, compare=True):
    n = n or ctx.scale(1200, 10000)
    lines, info = [], []
    nontrivial = 0
    stats = {"cases": 0, "unreached_unaffordable": 0, "raw_details_do_not_raise": 0, "lost_entries": 0, "eff_between_0_and_100": 0, "with_init": 0}
    for case, cfg in pairs(ctx, n):
        if ctx.budget_s is not None and ctx.elapsed() > ctx.budget_s:
            break
        built, impl, vs, st = run_one(case, cfg)
        ctx.evaluations += 1
        stats["cases"] += 1
        ctx.count("analytics_sat", cfg["sat"])
        ctx.count("analytics_multi", str(bool(cfg.get("multi"))))
        ctx.violations.extend(vs)
        if impl is None:
            continue
        if stats["cases"] % 4 == 0:
            ctx.violations.extend(presentations_agree(case, cfg, impl))
        stats["unreached_unaffordable"] += bool(st.get("unreached"))
        stats["raw_details_do_not_raise"] += bool(st.get("raw_ok"))
        stats["lost_entries"] += st.get("lost_entries", 0)
        stats["eff_between_0_and_100"] += bool(st.get("eff_mid"))
        stats["with_init"] += bool(cfg.get("init"))
        if st.get("selecting", 0) >= 2 and st.get("lost_entries", 0) > 0:
            nontrivial += 1
            ctx.nontrivial.add("analytics:" + case.key() + json.dumps(ruleprops.cfg_json(cfg), sort_keys=True))
        if compare:
            lines.append(model_line(case, cfg, built, impl))
            info.append((impl_struct(case, impl), case, cfg))
    stats["nontrivial"] = nontrivial
    if compare and lines:
        outs = core.run_driver(lines)
        for line, o, (istruct, case, cfg) in zip(lines, outs, info):
            m = parse_model(o)
            D, L, E = istruct
            bad = isinstance(m, str) or m[0] != D or (L is not None and m[1] != L) or (E is not None and m[2] != E)
            if bad:
                ctx.disagreements.append({"line": line, "impl": show_struct(istruct), "model": show_struct(m), "case": case.to_json(), "cfg": ruleprops.cfg_json(cfg), "part": PART})
            ctx.sample(f"{line} -> model: {o.strip()[:400]}", cap=8)
    ctx.extra["analytics"] = stats


def replay(payload):
    case = Case.from_json(payload["case"])
    cfg = ruleprops.cfg_from_json(payload["cfg"])
    want = payload.get("sig", {}).get("clause")
    built, impl, vs, st = run_one(case, cfg)
    if want is not None and want.endswith("-presentation") and impl is not None:
        vs = presentations_agree(case, cfg, impl)
    vs2 = [v for v in vs if want is None or v["sig"].get("clause") == want]
    if vs2:
        return False, "still fails: " + vs2[0]["what"]
    return True, "property holds on the replayed input"
