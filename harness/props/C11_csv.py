"""C11, text layer — the CSV reader/writer exactly as pabutools/election/pabulib.py configures them, against the Lean
model `PabuModel/Csv.lean` (`csvread`, `csvwrite`, `pabulibtext` driver commands).

How the library's configuration is obtained: `pabulib.csv` (the module object pabulib.py calls) is replaced, for the
duration of a call, by a recorder that delegates to the real `csv` module.  So
 * `lib_write(rows)` writes rows with `csv.writer(io.StringIO(), <the arguments election_as_pabulib_string passes>)`,
 * `lib_read(text)` returns the rows (and the `_csv.Error`, if any) that the reader built by
   `parse_pabulib_from_string(text)` delivers for `text` — whatever the parser then does with them.
A change of an argument on either side in pabulib.py (delimiter, quoting, doublequote, escapechar, line splitting)
therefore changes what these two functions do.

Streams
 (a) rows of fields rich in `;` `"` spaces, empty fields, empty rows, unicode, `\\r` `\\n` and the other line-break
     characters: library writer vs `csvWrite`; library reader on the written text vs `csvRead`; predicate (theorem
     `read_write` on the implementation): rows with `RowsOK` are read back unchanged;
 (b) raw texts, malformed quoting included, and the field size limit: library reader vs `csvRead`;
 (c) whole elections with such characters inside names / metadata values / categories, written by
     `election_as_pabulib_string`: predicate = the C11 round trip (same code as stream (i) of C11.py); the library's
     parse of the TEXT vs `parseText`; the text itself vs `csvWrite` of its rows; plus mutated (broken) files.
"""
from __future__ import annotations

import copy
import csv
import io
import re

from .. import core

FIELD_LIMIT = 131072
RULE = ("(a) seeded rows: 0-4 rows x 0-4 fields x 0-6 characters from {; \" space , ' \\n \\r \\t \\x0b \\x0c \\x1c \\x85 U+2028 NUL a b é 😀}; "
        "(b) seeded raw texts over the same alphabet, mutated written texts, fields of 131072/131073 characters; "
        "(c) seeded elections (generator of C11 stream (i), 'special' names) with 1-4 of those characters injected inside "
        "names/values/categories, and 1-2 character edits of the written file; distinct by the text")
ASSUMPTIONS = [
    "RowsOK: a field is at most csv.field_size_limit() = 131072 characters long and contains '\\r' only together with "
    "';', '\"' or '\\n' (CPython 3.12 does not quote a field because of '\\r' when the line terminator is '\\n'); "
    "both exclusions are shown necessary in Lean (rows_ok_necessary_cr, rows_ok_necessary_limit) and replayed here",
]
TRUSTED = ["the model is of CPython 3.12 Modules/_csv.c and io.StringIO(newline='') line splitting; a different Python may differ "
           "(3.13 quotes '\\r'), which this check would report as a disagreement"]

ALPHABET = [";", ";", '"', '"', " ", ",", "'", "\n", "\n", "\r", "\t", "\x0b", "\x0c", "\x1c", "\x85", "\u2028", "\x00",
            "a", "a", "b", "b", "é", "\U0001F600", "N", "1"]
TEXT_ALPHABET = [";", ";", '"', '"', '"', "\n", "\n", "\r", " ", "a", "a", "b", "\x0c", "\u2028", "é"]
NASTY = ["\n", "\n", "\r\n", "\n\n", "\x0b", "\x0c", "\x1c", "\x1d", "\x1e", "\x85", "\u2028", "\u2029", ";", '"', '""', '";"', ";\n", '"\r"', "\r"]


def C():
    from . import C11  # late: C11 imports this module inside run()

    return C11


# ----------------------------------------------------------------------------------------------
# the library's own reader / writer configuration


class _Recorder:
    """stands in for the `csv` module inside pabulib.py"""

    def __init__(self):
        self.reader_calls = []
        self.writer_calls = []

    def __getattr__(self, name):
        return getattr(csv, name)

    def reader(self, iterable, *args, **kw):
        lines = list(iterable)
        rec = {"args": args, "kw": kw, "rows": [], "error": None}
        try:
            for row in csv.reader(lines, *args, **kw):
                rec["rows"].append(list(row))
        except csv.Error as e:
            rec["error"] = str(e)
        self.reader_calls.append(rec)

        def replay():
            yield from rec["rows"]
            if rec["error"] is not None:
                raise csv.Error(rec["error"])

        return replay()

    def writer(self, f, *args, **kw):
        self.writer_calls.append({"args": args, "kw": kw})
        return csv.writer(f, *args, **kw)


class _patched:
    def __enter__(self):
        self.pl = C().lib()
        self.saved = self.pl.csv
        self.rec = _Recorder()
        self.pl.csv = self.rec
        return self.rec

    def __exit__(self, *exc):
        self.pl.csv = self.saved
        return False


_WRITER_CFG = []


def writer_config():
    """the positional and keyword arguments election_as_pabulib_string gives to csv.writer"""
    if not _WRITER_CFG:
        pe = C().lib_classes()
        p = pe.Project("p", 1)
        inst = pe.Instance([p], budget_limit=1)
        prof = pe.ApprovalProfile([pe.ApprovalBallot([p])])
        with _patched() as rec:
            C().lib().election_as_pabulib_string(inst, prof)
        if len(rec.writer_calls) != 1:
            raise core.DriverError("election_as_pabulib_string made %d calls of csv.writer (expected 1): the text-layer check "
                                   "does not know how the file is written" % len(rec.writer_calls))
        _WRITER_CFG.append(rec.writer_calls[0])
    return _WRITER_CFG[0]


def lib_write(rows) -> str:
    cfg = writer_config()
    out = io.StringIO()
    w = csv.writer(out, *cfg["args"], **cfg["kw"])
    for r in rows:
        w.writerow(r)
    return out.getvalue()


def csv_err_class(msg):
    if msg is None:
        return None
    if "field larger than field limit" in msg:
        return "fieldLimit"
    if "new-line character seen" in msg:
        return "newline"
    return "other:" + msg


def lib_read(text):
    """(rows, error class | None) delivered by the reader parse_pabulib_from_string builds for `text`"""
    with _patched() as rec:
        try:
            C().lib().parse_pabulib_from_string(text)
        except Exception:  # noqa: BLE001  (what the parser makes of the rows is not the question here)
            pass
    if len(rec.reader_calls) != 1:
        raise core.DriverError("parse_pabulib_from_string made %d calls of csv.reader (expected 1)" % len(rec.reader_calls))
    r = rec.reader_calls[0]
    return r["rows"], csv_err_class(r["error"])


def lib_parse(text):
    """C11.lib_parse with `_csv.Error` named as the model names it"""
    r = C().lib_parse(text)
    if r[0] == "err" and isinstance(r[2], csv.Error):
        return ("err", "csv", r[2])
    return r


# ----------------------------------------------------------------------------------------------
# predicates (independent of the model)


def needs_quote(f):
    return any(c in f for c in ';"\n')


def field_ok(f):
    return len(f) <= FIELD_LIMIT and ("\r" not in f or needs_quote(f))


def rows_ok(rows):
    return all(field_ok(f) for r in rows for f in r)


# ----------------------------------------------------------------------------------------------
# generators


def gen_field(rng):
    k = rng.choice([0, 0, 1, 1, 2, 3, 4, 6])
    return "".join(rng.choice(ALPHABET) for _ in range(k))


def gen_rows(rng):
    return [[gen_field(rng) for _ in range(rng.choice([0, 1, 1, 2, 3, 4]))] for _ in range(rng.choice([0, 1, 1, 2, 3, 4]))]


def gen_text(rng):
    return "".join(rng.choice(TEXT_ALPHABET) for _ in range(rng.choice([0, 1, 2, 3, 5, 8, 11, 14])))


def mutate(rng, text, alphabet=('"', '"', ";", "\n", "\r", '""', "a")):
    for _ in range(rng.choice([1, 1, 2])):
        k = rng.randint(0, len(text))
        op = rng.random()
        if op < 0.6 or not text:
            text = text[:k] + rng.choice(alphabet) + text[k:]
        else:
            idx = [i for i, c in enumerate(text) if c in '";\n'] or [0]
            i = rng.choice(idx)
            text = text[:i] + text[i + 1:]
    return text


def inject(rng, s):
    """`s` with one nasty string inside (never at an end: the format strips fields)"""
    x = rng.choice(NASTY)
    if len(s) >= 2:
        k = rng.randint(1, len(s) - 1)
        return s[:k] + x + s[k:]
    return (s or "p") + x + "z"


def nastify(rng, gt):
    """a copy of a ground-truth election with 1-4 strings changed by `inject`"""
    gt = copy.deepcopy(gt)
    slots = []
    for p in gt["projects"]:
        slots.append(("name", p))
        slots += [("md", p["md"], k) for k in p["md"] if p["md"][k].strip() and k != "cost"]
        slots += [("cat", p, i) for i in range(len(p["cats"]))]
    for v in gt["votes"]:
        slots += [("md", v["md"], k) for k in v["md"] if v["md"][k].strip() and k != "voter_id"]
    slots += [("md", gt["md"], k) for k in gt["md"] if gt["md"][k].strip() and k not in C().DERIVED_META and k not in C().LIMIT_KEYS]
    if not slots:
        return None
    rename = {}
    for slot in rng.sample(slots, min(len(slots), rng.choice([1, 2, 3, 4]))):
        if slot[0] == "name":
            old = slot[1]["name"]
            rename[old] = inject(rng, old)
        elif slot[0] == "md":
            slot[1][slot[2]] = inject(rng, slot[1][slot[2]])
        else:
            slot[1]["cats"][slot[2]] = inject(rng, slot[1]["cats"][slot[2]])
    names = [rename.get(p["name"], p["name"]) for p in gt["projects"]]
    if len(set(names)) != len(names) or any("," in n for n in names):
        return None
    for p in gt["projects"]:
        p["name"] = rename.get(p["name"], p["name"])
        if len(set(p["cats"])) != len(p["cats"]) or any("," in c for c in p["cats"]):
            return None
        p["cats"] = sorted(p["cats"])
    for v in gt["votes"]:
        b = v["ballot"]
        b["items"] = [rename.get(n, n) for n in b["items"]]
        if b["kind"] == "a":
            b["items"] = sorted(b["items"])
        elif b["kind"] == "c" and gt["multi"]:
            pairs = sorted(zip(b["items"], b["points"]))
            b["items"], b["points"] = [n for n, _ in pairs], [x for _, x in pairs]
    return gt


def gt_strings(gt):
    for p in gt["projects"]:
        yield p["name"]
        yield from p["md"].values()
        yield ",".join(p["cats"])
    for v in gt["votes"]:
        yield from v["md"].values()
    yield from gt["md"].values()


# ----------------------------------------------------------------------------------------------
# the streams


def _short(s, n=160):
    s = repr(s)
    return s if len(s) <= n else s[:n] + "…"


def rows_case(ctx, rows, lines, expect, origin="generated"):
    """stream (a): one list of rows"""
    esc, enc_rows = C().esc, C().enc_rows
    ctx.evaluations += 1
    ok = rows_ok(rows)
    ctx.count("csv.a.rows_ok", "yes" if ok else "no")
    ctx.count("csv.a.shape", "empty" if not rows else ("has_empty_row" if [] in rows else ("has_single_empty_field" if [""] in rows else "other")))
    flat = "".join(f for r in rows for f in r)
    for ch, nm in ((";", "semicolon"), ('"', "quote"), ("\n", "lf"), ("\r", "cr"), ("\u2028", "u2028"), ("\x0c", "ff"), ("\x00", "nul")):
        if ch in flat:
            ctx.count("csv.a.contains", nm)
    try:
        text = lib_write(rows)
    except csv.Error as e:
        # QUOTE_MINIMAL with doublequote never raises for strings: a raising writer is a changed writer
        ctx.violations.append({"what": f"the library's csv writer raised {e} on rows {_short(rows)}", "case": {"rows": rows},
                               "cfg": {"stream": "csv_rows"}, "sig": {"call": "csv_round_trip", "reason": "writer_raises"}})
        return
    back, err = lib_read(text)
    if ok:
        ctx.nontrivial.add("a:" + text)
        if back != rows or err is not None:
            ctx.violations.append({"what": f"rows {_short(rows)} are written as {_short(text)} and read back as {_short(back)}"
                                           + (f" + csv.Error({err})" if err else ""),
                                   "case": {"rows": rows}, "cfg": {"stream": "csv_rows"}, "impl": _short(back, 400), "expected": _short(rows, 400),
                                   "sig": {"call": "csv_round_trip", "reason": "line_break_in_field" if any(c in flat for c in LINE_BREAKS) else "quoting"}})
    else:
        ctx.count("csv.a.excluded_reads_back_equal", "yes" if (back == rows and err is None) else "no")
    lines.append("csvwrite R=" + enc_rows(rows))
    expect.append({"kind": "write", "what": f"[{origin}] csvwrite {_short(rows)}", "impl": text})
    lines.append("csvread T=" + esc(text))
    expect.append({"kind": "read", "what": f"[{origin}] csvread {_short(text)}", "impl": (back, err)})


LINE_BREAKS = "\n\r\x0b\x0c\x1c\x1d\x1e\x85\u2028\u2029"


def text_case(ctx, text, lines, expect, origin):
    """stream (b): one raw text"""
    ctx.evaluations += 1
    ctx.count("csv.b.origin", origin)
    back, err = lib_read(text)
    ctx.count("csv.b.result", err or ("rows" if back else "no_rows"))
    if text.count('"') % 2 == 1:
        ctx.count("csv.b.odd_number_of_quotes", "yes")
    ctx.nontrivial.add("b:" + text[:300] + str(len(text)))
    lines.append("csvread T=" + C().esc(text))
    expect.append({"kind": "read", "what": f"[{origin}] csvread {_short(text)}", "impl": (back, err)})


def election_case(ctx, gt, lines, pend, elines, expect):
    """stream (c): the C11 round-trip predicate on an election with nasty strings, and the text-level model"""
    Cm = C()
    ctx.evaluations += 1
    strings = list(gt_strings(gt))
    ok = all(field_ok(s) for s in strings)
    ctx.count("csv.c.vtype", gt["vtype"])
    ctx.count("csv.c.fields_ok", "yes" if ok else "no (bare \\r)")
    joined = "".join(strings)
    for ch, nm in (("\n", "lf"), ("\r", "cr"), ("\u2028", "u2028/9"), ("\u2029", "u2028/9"), ("\x0c", "ff"), ("\x85", "nel"), (";", "semicolon"), ('"', "quote")):
        if ch in joined:
            ctx.count("csv.c.contains", nm)
    sig = {"call": "round_trip", "vtype": gt["vtype"]}

    def viol(reason, what, **kw):
        ctx.violations.append({"what": what, "case": Cm.gt_json(gt), "cfg": {"stream": "round_trip"}, "sig": {**sig, "reason": reason}, **kw})

    try:
        inst, prof = Cm.build_objects(gt)
    except Exception as e:  # noqa: BLE001
        ctx.count("csv.c.skipped_constructor", type(e).__name__)
        return None
    try:
        text1 = Cm.lib().election_as_pabulib_string(inst, prof)
    except Exception as e:  # noqa: BLE001
        viol("writer_raises", f"election_as_pabulib_string raised {type(e).__name__}: {e}")
        return None
    r1 = lib_parse(text1)
    lib_written = None
    if ok:
        ctx.nontrivial.add("c:" + text1)
        reason = "line_break_in_field" if any(c in joined for c in LINE_BREAKS) else "separator_or_quote_in_name"
        if r1[0] == "err":
            viol(reason, f"the written file cannot be parsed back: {type(r1[2]).__name__ if r1[2] else 'profile None'}: {r1[2]}", impl=text1[:2000])
        else:
            bad = Cm.check_round_trip(gt, r1[1])
            if bad:
                viol(reason, "round trip changed the election: " + bad[1], impl=text1[:2000])
            else:
                try:
                    text2 = Cm.lib().election_as_pabulib_string(*r1[2])
                    r2 = lib_parse(text2)
                    d = f"second parse raised {r2[1]}" if r2[0] == "err" else Cm.diff_canon(r1[1], r2[1], votes="list")
                except Exception as e:  # noqa: BLE001
                    text2, d = None, f"second write raised {type(e).__name__}: {e}"
                if d:
                    viol("not_idempotent", "second round trip differs from the first: " + d, impl=(text2 or text1)[:2000])
                else:
                    lib_written = lib_read(text2)[0]
        # the text is exactly what the modelled writer makes of the rows the reader finds in it
        rows1, err1 = lib_read(text1)
        elines.append("csvwrite R=" + Cm.enc_rows(rows1))
        expect.append({"kind": "write", "what": f"[election text] csvwrite of the rows of {_short(text1, 120)}", "impl": text1})
    if not ok and gmpy_only_number_cell(text1):
        # a bare carriage return has split a row of the written file (excluded by RowsOK): what the pieces hold is not a file any more
        ctx.count("csv.c.broken_file", "not compared: written text broken by a bare \\r holds a cell that only gmpy2 reads as a number")
        return text1
    lines.append("pabulibtext T=" + Cm.esc(text1))
    pend.append({"stream": "csv", "rows": None, "impl": r1[:2], "lib_written": lib_written, "label": "text of generated " + gt["vtype"]})
    return text1


_MODEL_NUMBER = re.compile(r"^-?[0-9]+(\.[0-9]+|/[0-9]+)?$")
_EXPONENT_PREFIX = re.compile(r"^-?[0-9]+([./][0-9]+)?\s*[eE]")


def lenient_number_cell(text):
    """does an edited file hold a cell that gmpy2.mpq reads as a number although it is none of the forms the model reads
    (TRUSTED of C11)?  mpq accepts an exponent and stops reading there: '11088env. protection' -- what is left of
    '11088;env. protection' when the edit removes the separator -- is 11088 for the library and not a number for the
    model.  Such a file is outside the domain of both (not well-formed), and the two error classes are not compared."""
    from gmpy2 import mpq

    try:
        rows = list(csv.reader(io.StringIO(text, newline=""), delimiter=";"))
    except csv.Error:
        return False
    for row in rows:
        for cell in row:
            s = cell.strip().replace(",", ".")
            if _EXPONENT_PREFIX.match(s):
                if not _MODEL_NUMBER.match(s):
                    try:
                        mpq(s)
                        return True
                    except Exception:  # noqa: BLE001
                        pass
    return False


def gmpy_only_number_cell(text):
    """does a text that is NOT a well-formed file hold a cell that gmpy2.mpq reads as a number although it is none of the forms
    the model reads?  Besides the exponent prefix above, mpq skips white space anywhere between the digits: '2\n017' -- a quoted
    cell that lands in the cost column when a bare carriage return in an earlier field has split the row -- is 2017 for the
    library and not a number for the model (false alarm at seed 202).  Such a text is outside the domain of both (TRUSTED of
    C11: gmpy2's number parsing is modelled on the forms a well-formed file holds); the two answers are not compared."""
    from gmpy2 import mpq

    if lenient_number_cell(text):
        return True
    try:
        rows = list(csv.reader(io.StringIO(text, newline=""), delimiter=";"))
    except csv.Error:
        return False
    for row in rows:
        for cell in row:
            for s in (cell, cell.replace(",", ".")):
                if s and not _MODEL_NUMBER.match(s):
                    try:
                        mpq(s)
                        return True
                    except Exception:  # noqa: BLE001
                        pass
    return False


def broken_file_case(ctx, text, lines, pend):
    ctx.evaluations += 1
    if gmpy_only_number_cell(text):
        ctx.count("csv.c.broken_file", "not compared: a cell that only gmpy2 reads as a number")
        return
    r = lib_parse(text)
    ctx.count("csv.c.broken_file", "ok" if r[0] == "ok" else "err " + r[1])
    lines.append("pabulibtext T=" + C().esc(text))
    pend.append({"stream": "csv", "rows": None, "impl": r[:2], "lib_written": None, "label": "edited text"})


def compare_plain(ctx, lines, expect):
    """csvread / csvwrite answers against the library"""
    Cm = C()
    if not lines:
        return
    for ln, ex, ans in zip(lines, expect, core.run_driver(lines, timeout=900)):
        if ex["kind"] == "write":
            model = Cm.unesc(ans[5:]) if ans.startswith("ok T=") else ans
            good = ans.startswith("ok T=") and model == ex["impl"]
            shown = _short(model)
        else:
            head, _, enc = ans.partition("R=")
            head = head.strip()
            if head == "ok":
                model = (Cm.dec_rows(enc), None)
            elif head.startswith("err "):
                model = (Cm.dec_rows(enc), head[4:])
            else:
                raise core.DriverError("unexpected driver answer: %r" % ans[:200])
            good = model == (ex["impl"][0], ex["impl"][1])
            shown = _short(model)
        ctx.sample(f"{ex['what']} -> impl {_short(ex['impl'])} | model {'same' if good else shown}", cap=14)
        if not good:
            ctx.disagreements.append({"line": ln[:300], "label": ex["what"], "impl": _short(ex["impl"], 400), "model": shown})


def run_stream(ctx):
    rng = ctx.rng
    t0 = ctx.elapsed()
    ctx.extra.setdefault("csv_layer", {}).update({"rule": RULE, "assumptions": ASSUMPTIONS, "trusted": TRUSTED,
                                                   "writer_arguments": repr(writer_config())})
    lines, expect = [], []
    # (a)
    fixed = [[], [[]], [[""]], [[], [""]], [["", ""]], [["a\rb"]], [["a\nb"]], [["a\r\nb"]], [["\r"]], [["\n"]], [['"']], [[";"]], [[" a "]],
             [["a\x0cb", "c\u2028d"]], [["x" * FIELD_LIMIT]], [['"' * 3 + ";" * 2 + "x" * (FIELD_LIMIT - 5)]], [["x" * (FIELD_LIMIT + 1)]],
             [["a", ";" + "x" * FIELD_LIMIT, "b"]]]
    for rows in fixed:
        rows_case(ctx, rows, lines, expect, origin="fixed")
    for _ in range(ctx.scale(1500, 12000)):
        rows_case(ctx, gen_rows(rng), lines, expect)
    # (b)
    for text in ["", "\n", "\r", "\r\n", "\n\r", '"', '""', '"""', '"a"b;c', 'a"b', '"a\n', 'x\n"', '"a""b";c\r\n', "a;b\r\rc",
                 "x" * (FIELD_LIMIT + 1), '"' + "x" * (FIELD_LIMIT + 1) + '"', "a;b\n" + "y" * FIELD_LIMIT + "z;c\nd", '"' + "x" * FIELD_LIMIT]:
        text_case(ctx, text, lines, expect, "fixed")
    for _ in range(ctx.scale(2000, 16000)):
        text_case(ctx, gen_text(rng), lines, expect, "random")
    for _ in range(ctx.scale(700, 6000)):
        try:
            written = lib_write(gen_rows(rng))
        except csv.Error:  # only a changed writer raises; stream (a) reports it
            written = gen_text(rng)
        text_case(ctx, mutate(rng, written), lines, expect, "mutated_written")
    compare_plain(ctx, lines, expect)
    # (c)
    Cm = C()
    lines, pend, elines, expect = [], [], [], []
    made = 0
    for _ in range(ctx.scale(260, 2500)):
        gt = nastify(rng, Cm.gen_ground_truth(rng, special=rng.random() < 0.5))
        if gt is None:
            ctx.count("csv.c.skipped", "no string to change / name clash")
            continue
        text = election_case(ctx, gt, lines, pend, elines, expect)
        made += 1
        if text is not None and made % 2 == 0:
            broken_file_case(ctx, mutate(rng, text), lines, pend)
    # the reader's error inside the parser: raised by the `for` loop, by `next(reader)`, or preceded by an exception of an earlier row
    long = "x" * (FIELD_LIMIT + 1)
    head = "META\nkey;value\nbudget;5\nvote_type;approval\n"
    for text in [head + "description;" + long + "\nPROJECTS\nproject_id;cost\np;1\nVOTES\nvoter_id;vote\n1;p\n",
                 head + "PROJECTS\n" + long + ";cost\np;1\n", head + "onlykey\ndescription;" + long + "\n",
                 head + "PROJECTS\nproject_id;cost\np;1\nVOTES\nvoter_id;vote\n1;p\n2;" + long + "\n",
                 head + "PROJECTS\nproject_id;cost\np;1\nVOTES\nvoter_id;vote\n1;q\n2;" + long + "\n",
                 head + "description;" + long[:-1] + "\nPROJECTS\nproject_id;cost\np;1\nVOTES\nvoter_id;vote\n1;p\n"]:
        broken_file_case(ctx, text, lines, pend)
    compare_plain(ctx, elines, expect)
    Cm.compare_with_model(ctx, lines, pend)
    ctx.extra["csv_layer"]["seconds"] = round(ctx.elapsed() - t0, 1)


def replay(payload):
    case = payload.get("case", {})
    rows = case.get("rows")
    if rows is None:
        return True, "nothing to replay"
    text = lib_write(rows)
    back, err = lib_read(text)
    if rows_ok(rows) and (back != rows or err is not None):
        return False, f"still failing: rows {_short(rows)} are written as {_short(text)} and read back as {_short(back)} {err or ''}"
    return True, "predicate holds on the stored input now"
