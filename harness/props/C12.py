"""C12 — priceability analysis is sound and complete on decidable instances.

(1) validator: generated (voter budget, payments) pairs that meet every condition of (stable) priceability
    exactly must be accepted, pairs that break at least one condition by a margin >= 0.1 must be rejected
    (violations); every pair — including near misses inside the rounding tolerance, which the property
    leaves unspecified — is also sent to the Lean model `Price.validate` / `Price.exact` (disagreements).
(1b) straddle pairs: exact systems whose compared quantities sit ON the rounding grid's half-way points (k/8, k/40, k/200) or are not
    binary fractions (k/3, k/24), converted to floats and moved by a few ulps / 1e-12 — what the search hands to the validator.
    They are < 1e-9 away from an exact system, so the validator must accept them (float form and exact form of the same binary
    values; Lean: `validate_complete_within`); also sent to the Lean model.
(2) search: `priceable(...)` for every subset of small elections, stable/plain, exhaustive on/off,
    allocation given or searched, in a worker subprocess.  Three exact oracles (harness/lp_oracle.py):
      D = a price system exists by definition, M = the MIP the library builds is feasible for that
      selection, S = what CBC answered.   D != M is a violation (the formulation is wrong);
      S != M, a crash, a timeout or a returned point that violates the MIP is a solver fault (discarded,
      counted); a success must return a feasible allocation (the given one) and pass the validator.
(3) Equal Shares outcomes must be priceable without the exhaustiveness requirement; infeasible
    allocations never.
(4) relaxations of the stable condition (priceability_relaxation.py: MinMul, MinAdd, MinAddVector,
    MinAddVectorPositive, MinAddOffset).  Validator: exact optimal relaxed systems of the LP oracle and copies whose
    beta is lowered by a margin, judged like (1) and sent to the Lean model `Price.validateRelaxed` /
    `Price.exactRelaxed` with the relaxed-cost shape of the class (`pricerelax`).  Search: `priceable(..., stable=True,
    relaxation=R)` in the worker; a success must return an admissible allocation and a price system that the validator
    accepts with the same relaxation object and that satisfies the relaxed conditions recomputed exactly; the returned
    beta must be the optimum computed by the exact LP oracle (D = by definition, M = of the MIP as built, S = CBC);
    whenever the plain stable search succeeds the relaxations return their neutral beta or better.
"""
from __future__ import annotations

import contextlib
import io

import itertools
import random
from fractions import Fraction as F

from .. import core, lp_oracle
from .. import pricebox as solverbox
from ..core import Case, q2s

RULE = ("approval elections with 1..4 voters, 1..4 projects, integer costs 1..4 (occasionally 0), integer budgets on subset sums; "
        "validator: exact LP witnesses and Equal Shares price systems x 10 kinds of margin-0.1 breakage; straddle pairs: grid-valued / LP-vertex / relaxed-optimum exact systems x 7 float perturbations (ulps, 1e-12) x float and exact form, must be accepted; search: every subset x "
        "stable/plain x exhaustive on/off + searched mode; non-trivial = >=2 voters, >=2 projects, a non-empty allocation and both "
        "verdicts occur for the election; distinct by case+allocation+flags; relaxations: the five relaxation classes x (3 feasible "
        "allocations + the searched mode on every 3rd election) x exhaustive on/off, validator on exact LP optima with beta lowered / raised; "
        "relaxed programs: the five classes x (3 feasible allocations + searched + 1 infeasible) x exhaustive on/off, program captured at optimize()")
ASSUMPTIONS = [
    "exact-arithmetic mode; list profiles", "integer costs and integer budget (the MIP encodes 'total + c > budget' as '>= budget + 1')",
    "validator inputs are exact numbers (int / mpq); near misses closer than 0.1 are only compared with the model, never judged",
    "straddle pairs: inputs within 1e-9 of an exact price system (floats as the search returns them, and the same values as mpq) must be "
    "accepted: the search's own answers are of this form and the property requires them to pass the validator",
    "searched mode without exhaustiveness: the library additionally requires voter_budget * n >= budget; the oracle does the same",
    "a price system has non-negative payments and a non-negative voter budget",
    "relaxations: the variable domains declared by add_beta belong to the relaxation (beta >= -10*budget; MinAddVector: beta_c = 0 for selected "
    "projects and |beta_c| <= budget; MinAddOffset: beta_c >= 0, sum beta_c <= budget/40); MinAdd / MinAddOffset with EVERY project selected is "
    "degenerate (no unselected project bounds beta: the optimum is decided by the lower bound / the big-M terms) - the returned beta is then "
    "compared with the optimum of the MIP as built only",
]
TRUSTED = ["exact simplex over Fractions with certified answers (witness substituted / Farkas certificate verified)",
           "CBC answers are re-validated exactly; crashes, timeouts and answers invalid for the given MIP are discarded and counted",
           "'reports success exactly when a price system exists': the program priceable() builds is compared row by row with the Lean model "
           "PriceMIP.constraints, proved to encode the definition (C12MIP.lean: encoding_sound / encoding_complete, <= 10 supporters per "
           "selected project, unselected costs <= 10 x budget); what CBC answers for that program is tested against the LP oracle, not proved",
           "the beta returned with a relaxation: the program priceable(relaxation=R) builds (variables with bounds, rows, objective) is compared "
           "with the Lean model PriceMIP.rprogram, proved to encode the relaxed definition within the class's declared domain and the big-M "
           "bounds, with objective = get_beta (C12MIPRelax.lean: relaxed_encoding_sound / relaxed_encoding_complete / relaxed_optimum_spec under "
           "the hypothesis RSolverSpec: the solver returns an objective-optimal point); that CBC does so is tested against the exact simplex "
           "(primal/dual certificates verified), not proved"]

TOL = 1e-6


# ----------------------------------------------------------------------------------------------
# independent exact evaluation of the conditions


def conditions(case: Case, W, b, pf, stable, exhaustive, rc=None):
    """dict condition -> signed slack (>= 0 means satisfied; for equalities -|difference|), exact.
    rc: relaxed costs (name -> value) used on the right-hand side of S5 instead of the costs"""
    names, cost = case.names, case.cost
    Wset = set(W)
    NW = [c for c in names if c not in Wset]
    total = sum((cost[c] for c in W), F(0))
    spent = [sum((p[c] for c in names), F(0)) for p in pf]
    left = [b - s for s in spent]
    mx = [max([p[c] for c in names], default=F(0)) for p in pf]
    out = {}
    out["C0a"] = F(0) if total <= case.budget else F(-1000)
    if exhaustive:
        out["C0b"] = F(0) if all(not (total + cost[c] <= case.budget) for c in NW) else F(-1000)
    out["C1"] = F(0) if all(p[c] == 0 for bal, p in zip(case.ballots, pf) for c in names if c not in bal) else F(-1000)
    out["Cneg"] = min([p[c] for p in pf for c in names], default=F(0))
    out["C2"] = min([b - s for s in spent], default=F(0))
    out["C3"] = min([-abs(sum((p[c] for p in pf), F(0)) - cost[c]) for c in W], default=F(0))
    out["C4"] = min([-abs(sum((p[c] for p in pf), F(0))) for c in NW], default=F(0))
    if not stable:
        out["C5"] = min([cost[c] - sum((l for bal, l in zip(case.ballots, left) if c in bal), F(0)) for c in NW], default=F(0))
    else:
        rcost = cost if rc is None else rc
        out["S5"] = min([rcost[c] - sum((max(m, l) for bal, l, m in zip(case.ballots, left, mx) if c in bal), F(0)) for c in NW], default=F(0))
    return out


def is_exact(conds):
    return all(v >= 0 for v in conds.values())


def broken_by_margin(conds, margin=F(1, 10)):
    return any(v <= -margin for v in conds.values())


# ----------------------------------------------------------------------------------------------
# generation


def gen_case(rng: random.Random, zero_p=0.08):
    sub = rng.getrandbits(48)
    r = random.Random(sub)
    m = r.choice([1, 2, 2, 3, 3, 3, 4, 4, 4])
    n = r.choice([1, 2, 2, 3, 3, 4, 4])
    names = r.sample(core.NAME_POOL, m)
    pool = r.choice([[1, 2, 3], [1, 1, 2], [2, 3, 4], [1], [2], [1, 2, 4]])
    projects = [(nm, F(0) if r.random() < zero_p else F(r.choice(pool))) for nm in names]
    total = sum((c for _, c in projects), F(0))
    k = r.randint(1, m)
    ssum = sum((c for _, c in r.sample(projects, k)), F(0))
    budget = r.choice([ssum, ssum + 1, total, max(total - 1, F(1)), F(r.randint(1, 8)), F(n), F(2 * n)])
    if budget <= 0:
        budget = F(1)
    ballots = core.gen_ballots(r, "app", names, n, n)
    ballots = [sorted(b) for b in ballots]
    if n >= 3 and r.random() < 0.3:
        # two voters with IDENTICAL ballots and a third one alone on some project (forces the common voter budget up)
        ballots[1] = list(ballots[0])
        ballots[2] = [r.choice(names)]
    return Case(projects, budget, "app", ballots, seed=sub)


def gen_overbudget_case(rng: random.Random):
    """one or two projects that cost MORE than the whole budget limit, approved by several voters who pay little or nothing, next to
    cheap projects paid by few voters (a large common voter budget): the unselected dear projects are where the leftover conditions
    (C5) / (S5) bite although no allocation can ever hold them"""
    sub = rng.getrandbits(48)
    r = random.Random(sub)
    n = r.choice([2, 3, 3, 4, 4])
    budget = F(r.choice([1, 2, 3, 3, 4]))
    k_cheap = r.choice([1, 1, 2])
    k_dear = r.choice([1, 1, 2]) if k_cheap == 1 else 1
    names = r.sample(core.NAME_POOL, k_cheap + k_dear)
    cheap, dear = names[:k_cheap], names[k_cheap:]
    projects = [(nm, F(r.randint(1, int(budget)))) for nm in cheap] + [(nm, budget + r.choice([1, 1, 2, 3])) for nm in dear]
    ballots = []
    for i in range(n):
        b = [nm for nm in dear if r.random() < 0.7]
        if i == 0 or r.random() < 0.25:
            b += [nm for nm in cheap if r.random() < 0.8] or [cheap[0]]
        if r.random() < 0.15:
            b = []
        ballots.append(sorted(set(b)))
    return Case(projects, budget, "app", ballots, seed=sub)


def subsets(names):
    for k in range(len(names) + 1):
        for W in itertools.combinations(names, k):
            yield list(W)


def mes_price_system(case: Case, sat):
    """the price system recorded by an Equal Shares run (analytics), exact: (W, b, pf) or None"""
    from pabutools.rules import method_of_equal_shares

    inst, projs = core.build_instance(case)
    prof = core.build_profile(case, inst, projs)
    res = method_of_equal_shares(inst, prof, sat_class=core.sat_class(sat), analytics=True)
    W = sorted(p.name for p in res)
    n = len(case.ballots)
    b = case.budget / n
    pf = [{c: F(0) for c in case.names} for _ in range(n)]
    budgets = [b] * n
    for it in res.details.iterations:
        sel = it.selected_project
        if sel is None:
            continue
        after = [core.toF(x) for x in it.voters_budget_after_selection]
        before = [core.toF(x) for x in it.voters_budget]
        if len(after) != n:
            return None
        for i in range(n):
            pf[i][sel.name] += before[i] - after[i]
        budgets = after
    return W, b, pf


# ----------------------------------------------------------------------------------------------
# part 1: the validator


def lib_validate(case: Case, W, b, pf, stable, exhaustive, raw=False):
    """raw: hand b and the payments to the library as they are (floats, as the search returns them) instead of exact numbers"""
    from pabutools.analysis.priceability import validate_price_system

    inst, projs = core.build_instance(case)
    prof = core.build_profile(case, inst, projs)
    num = (lambda x: x) if raw else core.to_num
    pfl = [{projs[c]: num(p[c]) for c in case.names} for p in pf]
    # the verdict must not depend on the reporting switch: a third of the calls (chosen by the input, so that a replay makes
    # the same choice) run with verbose=True, output discarded
    verbose = verbose_for(case, W, stable, exhaustive)
    try:
        with contextlib.redirect_stdout(io.StringIO()):
            return bool(validate_price_system(inst, prof, [projs[c] for c in W], num(b), pfl, stable=stable, exhaustive=exhaustive,
                                              verbose=verbose))
    except Exception as e:  # noqa: BLE001
        return "err:" + core.err_enum(e)


def verbose_for(case, W, stable, exhaustive):
    import zlib

    return zlib.crc32(("%s|%s|%d%d" % (case.key(), ",".join(sorted(W)), stable, exhaustive)).encode()) % 3 == 0


def price_line(case: Case, W, b, pf, stable, exhaustive):
    rows = "|".join(",".join(q2s(p[c]) for c in case.names) for p in pf)
    return (f"price {case.enc_common()} W={'.'.join(str(i) for i in sorted(case.ids(W)))} b={q2s(b)} pf={rows} "
            f"stable={int(stable)} exh={int(exhaustive)}")


def mutate(rng, case: Case, W, b, pf, stable, kind, d):
    """break one condition of an exact system by the amount d (other conditions may break as well)"""
    names = case.names
    pf = [dict(p) for p in pf]
    n = len(pf)
    Wset = set(W)
    if kind == "C1":
        opts = [(i, c) for i in range(n) for c in names if c not in case.ballots[i]]
        if not opts:
            return None
        i, c = rng.choice(opts)
        pf[i][c] += d
    elif kind == "C2":
        mx = max(sum((p[c] for c in names), F(0)) for p in pf)
        b = mx - d
    elif kind == "C3+":
        opts = [(i, c) for i in range(n) for c in W if c in case.ballots[i]]
        if not opts:
            return None
        i, c = rng.choice(opts)
        pf[i][c] += d
        b = b + d
    elif kind == "C3-":
        opts = [(i, c) for i in range(n) for c in W if pf[i][c] >= d]
        if not opts:
            return None
        i, c = rng.choice(opts)
        pf[i][c] -= d
    elif kind == "C4":
        opts = [(i, c) for i in range(n) for c in names if c not in Wset and c in case.ballots[i]]
        if not opts:
            return None
        i, c = rng.choice(opts)
        pf[i][c] += d
        b = b + d
    elif kind == "C5":
        # raise the voter budget until the supporters of some unselected project hold its cost + d
        opts = [c for c in names if c not in Wset and any(c in bal for bal in case.ballots)]
        if not opts:
            return None
        c = rng.choice(opts)
        sup = [i for i in range(n) if c in case.ballots[i]]
        cur = conditions(case, W, b, pf, stable, False)["S5" if stable else "C5"]
        # slack of this project >= cur; raising b by t raises its supporters' holdings by at least... solve exactly for plain,
        # over-approximate for stable
        need = case.cost[c] + d
        left = sum((b - sum((pf[i][x] for x in names), F(0)) for i in sup), F(0))
        t = max(F(0), (need - left) / len(sup))
        b = b + t
    elif kind == "C1cancel":
        # payments for an UNSELECTED project that cancel across two voters (+d and -d): the column sum stays 0 (C4 holds),
        # but one voter pays a negative amount and, when possible, the other one pays for a project they did not approve
        un = [c for c in names if c not in Wset]
        if not un or n < 2:
            return None
        c = rng.choice(un)
        non = [i for i in range(n) if c not in case.ballots[i]]
        i = rng.choice(non) if non else rng.randrange(n)
        j = rng.choice([k for k in range(n) if k != i])
        pf[i][c] += d
        pf[j][c] -= d
        b = b + d
    elif kind == "Cneg":
        opts = [(i, j, c) for c in W for i in range(n) for j in range(n) if i != j and c in case.ballots[i] and c in case.ballots[j]]
        if not opts:
            return None
        i, j, c = rng.choice(opts)
        pf[i][c] = -d
        pf[j][c] = case.cost[c] + d - sum((pf[k][c] for k in range(n) if k not in (i, j)), F(0))
        b = max(b, sum((pf[j][x] for x in names), F(0)))
    else:
        return None
    return W, b, pf


def validator_part(ctx, n_elections, lines):
    rng = ctx.rng
    for _ in range(n_elections):
        case = gen_case(rng)
        names = case.names
        systems = []  # (W, b, pf, stable, exhaustive, origin)
        for W in subsets(names):
            for stable in (False, True):
                ok, wit = lp_oracle.price_system_exists(names, case.cost, case.budget, case.ballots, W, stable, exhaustive=False)
                if ok:
                    ex = lp_oracle.is_exhaustive_alloc(names, case.cost, case.budget, W)
                    systems.append((W, wit[0], wit[1], stable, ex and rng.random() < 0.7, "lp"))
        if all(c > 0 for c in case.cost.values()):
            for sat in ("Cost_Sat", "Cardinality_Sat"):
                try:
                    ps = mes_price_system(case, sat)
                except Exception:  # noqa: BLE001
                    ps = None
                if ps is not None:
                    systems.append((ps[0], ps[1], ps[2], False, False, "mes"))
        rng.shuffle(systems)
        for W, b, pf, stable, exhaustive, origin in systems[:6]:
            variants = [("exact", (W, b, pf))]
            for kind in ("C1", "C2", "C3+", "C3-", "C4", "C5", "Cneg", "C1cancel"):
                d = rng.choice([F(1, 10), F(1, 10), F(11, 100), F(1, 5), F(1, 2), F(1), F(7, 3)])
                mu = mutate(rng, case, W, b, pf, stable, kind, d)
                if mu is not None:
                    variants.append((kind, mu))
            # infeasible / non-exhaustive allocations keep the payments but change the flags or the set
            if not lp_oracle.is_exhaustive_alloc(names, case.cost, case.budget, W):
                variants.append(("C0b", (W, b, pf, True)))
            # near misses: compared with the model only
            for kind in ("C2", "C3+", "C3-", "C5", "Cneg"):
                d = rng.choice([F(1, 1000), F(4, 1000), F(5, 1000), F(6, 1000), F(1, 100), F(15, 1000), F(1, 200) + F(1, 10**6), F(2, 100), F(5, 100)])
                mu = mutate(rng, case, W, b, pf, stable, kind, d)
                if mu is not None:
                    variants.append(("near-" + kind, mu))
            for kind, mu in variants:
                ex = exhaustive
                if len(mu) == 4:
                    ex = mu[3]
                W2, b2, pf2 = mu[0], mu[1], mu[2]
                judge(ctx, case, W2, b2, pf2, stable, ex, kind, origin, lines)
        # C0a: an infeasible allocation with payments that satisfy everything else where possible
        for W in subsets(names):
            if not lp_oracle.is_feasible_alloc(case.cost, case.budget, W):
                n = len(case.ballots)
                pf = [{c: F(0) for c in names} for _ in range(n)]
                okpay = True
                for c in W:
                    sup = [i for i in range(n) if c in case.ballots[i]]
                    if not sup:
                        okpay = False
                        continue
                    for i in sup:
                        pf[i][c] = case.cost[c] / len(sup)
                b = max([sum((p[c] for c in names), F(0)) for p in pf], default=F(0))
                judge(ctx, case, W, b, pf, False, False, "C0a", "built", lines)
                break


def judge(ctx, case, W, b, pf, stable, exhaustive, kind, origin, lines):
    conds = conditions(case, W, b, pf, stable, exhaustive)
    exact = is_exact(conds)
    broken = broken_by_margin(conds)
    got = lib_validate(case, W, b, pf, stable, exhaustive)
    ctx.evaluations += 1
    ctx.count("validator_kind", kind)
    ctx.count("validator_verbose", str(verbose_for(case, W, stable, exhaustive)))
    ctx.count("validator_expect", "accept" if exact else "reject" if broken else "unspecified")
    cfg = {"part": "validator", "W": W, "b": q2s(b), "pf": [{c: q2s(v) for c, v in p.items()} for p in pf], "stable": stable,
           "exhaustive": exhaustive, "kind": kind, "origin": origin}
    if len(case.ballots) >= 2 and len(case.names) >= 2 and len(W) >= 1:
        ctx.nontrivial.add((case.key(), tuple(W), q2s(b), str(cfg["pf"]), stable, exhaustive))
    worst = min(conds, key=lambda k: conds[k])
    if exact and got is not True:
        ctx.violations.append({"what": f"validator rejects a pair that meets every condition exactly (returned {got})", "case": case.to_json(),
                               "cfg": cfg, "impl": got, "expected": True,
                               "sig": {"call": "validate_price_system", "kind": "complete", "stable": stable}})
    if broken and got is not False:
        ctx.violations.append({"what": f"validator accepts a pair that breaks {worst} by {float(-conds[worst]):.3f} (returned {got})",
                               "case": case.to_json(), "cfg": cfg, "impl": got, "expected": False,
                               "sig": {"call": "validate_price_system", "kind": "sound", "condition": worst, "stable": stable}})
    lines.append((price_line(case, W, b, pf, stable, exhaustive), got, exact, case, cfg))


def flush_model(ctx, lines):
    if not lines:
        return
    outs = core.run_driver([l[0] for l in lines])
    for (line, got, exact, case, cfg), out in zip(lines, outs):
        parts = out.strip().split(" ")
        mv = parts[1] if len(parts) > 1 else out
        me = parts[2] if len(parts) > 2 else out
        gs = "1" if got is True else "0" if got is False else str(got)
        if mv != gs:
            ctx.disagreements.append({"line": line, "impl": gs, "model": mv, "what": "Price.validate != validate_price_system",
                                      "case": case.to_json(), "cfg": cfg})
        if me != ("1" if exact else "0"):
            ctx.disagreements.append({"line": line, "impl": "1" if exact else "0", "model": me,
                                      "what": "Price.exact != independent exact evaluation of the conditions", "case": case.to_json(), "cfg": cfg})
        ctx.sample(f"{line} -> impl {gs} | model validate {mv} exact {me} | exact conditions {int(exact)}")


def round2_part(ctx, n):
    """round(mpq, 2) against the model's round2"""
    from pabutools.fractions import frac

    rng = ctx.rng
    xs = []
    for _ in range(n):
        k = rng.choice([1, 2, 3, 8, 200, 1000, 400, 7, 125])
        xs.append(F(rng.randint(-3000, 3000), k))
        xs.append(F(rng.randint(-300, 300) * 2 + 1, 200))  # exact halves
    outs = core.run_driver([f"round2 x={q2s(x)}" for x in xs])
    for x, out in zip(xs, outs):
        want = core.toF(round(frac(int(x.numerator), int(x.denominator)), 2)) if x.denominator != 1 else F(round(int(x), 2))
        ctx.evaluations += 1
        ctx.count("round2", "half" if (x * 200).denominator == 1 and (x * 100).denominator != 1 else "other")
        if out.strip() != "ok " + q2s(want):
            ctx.disagreements.append({"line": f"round2 x={q2s(x)}", "impl": q2s(want), "model": out.strip(), "what": "Price.round2 != round(mpq, 2)"})


# ----------------------------------------------------------------------------------------------
# part 1b: straddle pairs — price systems a floating-point error away from an exact one, with the compared quantities ON the
# boundaries of the validator's rounding grid (x.xx5: k/8, k/40, k/200) or not representable in binary (k/3, k/24).
# This is what `priceable` hands to the validator: vertex values of the LP (2.375, 1.125, …) returned by the solver as floats
# an ulp off (2.3749999999999996).  An exact system perturbed by less than 1e-9 meets every condition far inside the
# validator's tolerance (Lean: `validate_complete_within`, tolerance 1/200), so the verdict must be "accept" — in float form
# (as the search returns it) and in exact form (the same binary values as mpq).  A `round_cmp` that rounds the two numbers
# separately fails here: 2.375 against 2.3749999999999996 compares as 2.38 > 2.37.

STRADDLE_EPS = F(1, 10**9)
GRIDS = [F(1, 8), F(1, 8), F(1, 200), F(1, 40), F(1, 24), F(1, 3), F(1, 16)]
STRADDLE_MODES = ("float", "ulps", "eps", "b-down", "b-down-eps", "pay-up", "dust")


def nudge(x: float, k: int) -> float:
    """x moved by k units in the last place"""
    import math

    for _ in range(abs(k)):
        x = math.nextafter(x, math.inf if k > 0 else -math.inf)
    return x


def on_boundary(x: F) -> bool:
    """x is a half-way point of rounding to 2 decimals (x.xx5)"""
    y = x * 200
    return y.denominator == 1 and y.numerator % 2 == 1


def tighten(case: Case, W, b, pf):
    """the same payments with the smallest voter budget that covers them (still a (stable) price system: leftovers only shrink)"""
    return max([sum((p[c] for c in case.names), F(0)) for p in pf], default=b)


def grid_payments(rng, case: Case, W):
    """payments that are multiples of a grid step and cover the cost of every project of W among its supporters; or None"""
    names = case.names
    n = len(case.ballots)
    g = rng.choice(GRIDS)
    pf = [{c: F(0) for c in names} for _ in range(n)]
    for c in W:
        sup = [i for i in range(n) if c in case.ballots[i]]
        if not sup:
            return None
        rest = case.cost[c]
        rng.shuffle(sup)
        for i in sup[:-1]:
            k = rng.randint(0, int(rest / g))
            if rng.random() < 0.35:
                k = min(int(rest / g), int(case.cost[c] / len(sup) / g))  # near the equal split
            pf[i][c] = k * g
            rest -= k * g
        pf[sup[-1]][c] = rest
    return pf


def grid_system(rng, case: Case, W, stable):
    """an exact (stable) price system for W, without exhaustiveness, whose payments are multiples of a grid step, the voter budget
    tight for the voter who spends most; or None"""
    for _ in range(6):
        pf = grid_payments(rng, case, W)
        if pf is None:
            return None
        b = tighten(case, W, F(0), pf)
        if rng.random() < 0.2:
            b += rng.choice([F(1, 200), F(3, 200), F(1, 8), F(1, 40)])
        if is_exact(conditions(case, W, b, pf, stable, False)):
            return b, pf
    return None


def lhs5(case: Case, W, b, pf, stable):
    """left-hand sides of C5 (plain) / S5 (stable) for the unselected projects: name -> exact value"""
    names = case.names
    Wset = set(W)
    spent = [sum((p[c] for c in names), F(0)) for p in pf]
    left = [b - s for s in spent]
    mx = [max([p[c] for c in names], default=F(0)) for p in pf]
    out = {}
    for c in names:
        if c in Wset:
            continue
        if stable:
            out[c] = sum((max(m, l) for bal, l, m in zip(case.ballots, left, mx) if c in bal), F(0))
        else:
            out[c] = sum((l for bal, l in zip(case.ballots, left) if c in bal), F(0))
    return out


def grid_relaxed_system(rng, case: Case, W, kind):
    """grid payments with a tight voter budget and the relaxation's beta chosen so that the relaxed stable condition holds with
    EQUALITY for some unselected project, at a relaxed cost on the grid: (b, pf, beta, betav) or None"""
    for _ in range(4):
        pf = grid_payments(rng, case, W)
        if pf is None:
            return None
        b = tighten(case, W, F(0), pf)
        s5 = lhs5(case, W, b, pf, True)
        if not s5:
            return None
        beta, betav = None, {}
        if kind == "mul":
            if any(case.cost[c] == 0 for c in s5):
                continue
            beta = max(v / case.cost[c] for c, v in s5.items())
        elif kind == "add":
            beta = max(v - case.cost[c] for c, v in s5.items())
        elif kind == "vec":
            betav = {c: v - case.cost[c] for c, v in s5.items()}
        elif kind == "vecpos":
            betav = {c: max(F(0), v - case.cost[c]) for c, v in s5.items()}
        else:
            beta = max(v - case.cost[c] for c, v in s5.items())
            c0 = rng.choice(sorted(s5))
            betav = {c0: rng.choice([F(0), F(1, 8), F(1, 200)])}
        rc = relaxed_costs(case, kind, beta, betav)
        if is_exact(conditions(case, W, b, pf, True, False, rc=rc)):
            return b, pf, beta, betav
    return None


def perturb(rng, case: Case, W, b, pf, mode, beta=None, betav=None):
    """the system as floats, moved by a few ulps / by 1e-12: (b, pf, beta, betav); zero payments stay exactly zero except in `dust`
    (1e-13 on approved projects); payments for projects a voter does not approve are never touched (C1 is an exact test)"""
    names = case.names
    bf = float(b)
    pff = [{c: float(p[c]) for c in names} for p in pf]
    bef = None if beta is None else float(beta)
    bvf = None if betav is None else {c: float(v) for c, v in betav.items()}
    spent = [sum((p[c] for c in names), F(0)) for p in pf]
    top = max(range(len(pf)), key=lambda i: spent[i]) if pf else None
    if mode == "ulps":
        bf = nudge(bf, rng.randint(-3, 3))
        for p in pff:
            for c in names:
                if p[c] != 0.0:
                    p[c] = nudge(p[c], rng.randint(-3, 3))
        if bef is not None:
            bef = nudge(bef, rng.randint(-3, 3))
        if bvf is not None:
            bvf = {c: (nudge(v, rng.randint(-3, 3)) if v != 0.0 else v) for c, v in bvf.items()}
    elif mode == "eps":
        bf += rng.choice([-1, 1]) * 1e-12
        for p in pff:
            for c in names:
                if p[c] != 0.0:
                    p[c] += rng.choice([-1, 1]) * 1e-12
        if bef is not None:
            bef += rng.choice([-1, 1]) * 1e-12
        if bvf is not None:
            bvf = {c: (v + rng.choice([-1, 1]) * 1e-12 if v != 0.0 else v) for c, v in bvf.items()}
    elif mode == "b-down":
        bf = nudge(bf, -rng.randint(1, 4))
        if bef is not None:
            bef = nudge(bef, -rng.randint(0, 2))
    elif mode == "b-down-eps":
        bf -= rng.choice([4e-16, 1e-12, 1e-10])
        if bef is not None:
            bef -= rng.choice([0.0, 4e-16, 1e-12])
    elif mode == "pay-up":
        if top is not None:
            opts = [c for c in names if pff[top][c] != 0.0]
            if opts:
                c = rng.choice(opts)
                pff[top][c] = nudge(pff[top][c], rng.randint(1, 3))
    elif mode == "dust":
        Wset = set(W)
        for i, p in enumerate(pff):
            for c in names:
                if p[c] == 0.0 and c in case.ballots[i] and c in Wset and rng.random() < 0.5:
                    p[c] = rng.choice([-1, 1]) * 1e-13
    return bf, pff, bef, bvf


def straddle_part(ctx, n_elections, lines, rlines):
    rng = ctx.rng
    for _ in range(n_elections):
        case = gen_case(rng, zero_p=0.03)
        names = case.names
        allW = [W for W in subsets(names) if W and lp_oracle.is_feasible_alloc(case.cost, case.budget, W)]
        rng.shuffle(allW)
        bases = []  # (W, b, pf, stable, origin, relax kind | None, beta, betav)
        for W in allW[:4]:
            for stable in (False, True):
                gs = grid_system(rng, case, W, stable)
                if gs is not None:
                    bases.append((W, gs[0], gs[1], stable, "grid", None, None, None))
                ok, wit = lp_oracle.price_system_exists(names, case.cost, case.budget, case.ballots, W, stable, exhaustive=False)
                if ok:
                    b = tighten(case, W, wit[0], wit[1]) if rng.random() < 0.7 else wit[0]
                    bases.append((W, b, wit[1], stable, "lp", None, None, None))
        for W in allW[:2]:
            kind = rng.choice(RELAX)
            st, _, wit = lp_oracle.relaxed_optimum(names, case.cost, case.budget, case.ballots, W, kind, exhaustive=False)
            if st == "optimal":
                # the optimum of the relaxation: the relaxed stable condition is TIGHT for some project, at a fractional relaxed cost
                b = tighten(case, W, wit["b"], wit["pf"]) if rng.random() < 0.5 else wit["b"]
                bases.append((W, b, wit["pf"], True, "relax-lp", kind, wit["beta"], dict(wit["betav"])))
            kind = rng.choice(RELAX)
            gr = grid_relaxed_system(rng, case, W, kind)
            if gr is not None:
                bases.append((W, gr[0], gr[1], True, "relax-grid", kind, gr[2], gr[3]))
        rng.shuffle(bases)
        for W, b, pf, stable, origin, kind, beta, betav in bases[:9]:
            ex = lp_oracle.is_exhaustive_alloc(names, case.cost, case.budget, W) and rng.random() < 0.6
            rc = None if kind is None else relaxed_costs(case, kind, beta, betav)
            if not is_exact(conditions(case, W, b, pf, stable, ex, rc=rc)):
                ctx.count("straddle_skipped", "base not exact")
                continue
            for mode in STRADDLE_MODES:
                judge_straddle(ctx, case, W, b, pf, stable, ex, origin, mode, kind, beta, betav, lines, rlines)


def straddle_tight_on_boundary(case: Case, W, b, pf, stable, rc):
    """some tolerance-checked comparison of the exact system is an equality at a half-way point of the rounding grid"""
    spent = [sum((p[c] for c in case.names), F(0)) for p in pf]
    if any(s == b and on_boundary(b) for s in spent):
        return True
    rcost = case.cost if rc is None else rc
    return any(v == rcost[c] and on_boundary(v) for c, v in lhs5(case, W, b, pf, stable).items())


def judge_straddle(ctx, case, W, b, pf, stable, exhaustive, origin, mode, kind, beta, betav, lines, rlines):
    rng = ctx.rng
    bf, pff, bef, bvf = perturb(rng, case, W, b, pf, mode, beta, betav)
    bq, pq = F(bf), [{c: F(v) for c, v in p.items()} for p in pff]
    beq = None if bef is None else F(bef)
    bvq = None if bvf is None else {c: F(v) for c, v in bvf.items()}
    rcq = None if kind is None else relaxed_costs(case, kind, beq, bvq)
    conds = conditions(case, W, bq, pq, stable, exhaustive, rc=rcq)
    if any(v < -STRADDLE_EPS for v in conds.values()):
        ctx.count("straddle_skipped", "perturbation beyond 1e-9")
        return
    rc = None if kind is None else relaxed_costs(case, kind, beta, betav)
    ctx.count("straddle", ("tight on a rounding boundary" if straddle_tight_on_boundary(case, W, b, pf, stable, rc) else "other")
              + ("/relaxed" if kind is not None else ""))
    ctx.count("validator_kind", "straddle-" + mode)
    exact_p = is_exact(conds)
    for form in ("float", "exact"):
        raw = form == "float"
        if kind is None:
            got = lib_validate(case, W, bf if raw else bq, pff if raw else pq, stable, exhaustive, raw=raw)
        else:
            got, _ = lib_validate_relaxed(case, W, bf if raw else bq, pff if raw else pq, stable, exhaustive, kind,
                                          bef if raw else beq, bvf if raw else bvq, raw=raw)
        ctx.evaluations += 1
        ctx.count("validator_expect", "accept (straddle)")
        cfg = {"part": "straddle", "W": W, "b": q2s(bq), "pf": [{c: q2s(v) for c, v in p.items()} for p in pq], "stable": stable,
               "exhaustive": exhaustive, "kind": "straddle-" + mode, "origin": origin, "form": form,
               "base_b": q2s(b), "base_pf": [{c: q2s(v) for c, v in p.items()} for p in pf],
               "relax": kind, "beta": None if beq is None else q2s(beq), "betav": None if bvq is None else {c: q2s(v) for c, v in bvq.items()},
               "base_beta": None if beta is None else q2s(beta), "base_betav": None if betav is None else {c: q2s(v) for c, v in betav.items()}}
        if len(case.ballots) >= 2 and len(case.names) >= 2 and len(W) >= 1:
            ctx.nontrivial.add((case.key(), tuple(W), q2s(bq), str(cfg["pf"]), stable, exhaustive, form, kind))
        if got is not True:
            sig = {"call": "validate_price_system", "kind": "complete_within", "stable": stable, "form": form}
            if kind is not None:
                sig["relaxation"] = RELAX_CLASS[kind]
            ctx.violations.append({
                "what": f"validator rejects a pair that is a floating-point error (< 1e-9) away from one that meets every condition exactly "
                        f"({form} form, returned {got})", "case": case.to_json(), "cfg": cfg, "impl": got, "expected": True, "sig": sig})
        if kind is None:
            lines.append((price_line(case, W, bq, pq, stable, exhaustive), got, exact_p, case, cfg))
        else:
            rlines.append((relax_line(case, W, bq, pq, stable, exhaustive, kind, beq, bvq), got, exact_p, rcq, case, cfg))


# ----------------------------------------------------------------------------------------------
# part 2: the search


def mip_violation(case: Case, ans, stable, exhaustive, searched):
    """largest violation of the MIP's constraints by the returned point (floats)"""
    names = case.names
    cost = {c: float(case.cost[c]) for c in names}
    B = float(case.budget)
    INF = 10 * B
    n = len(case.ballots)
    x = {c: (1.0 if c in set(ans["alloc"]) else 0.0) for c in names}
    b = ans["b"]
    pf = [{c: row[k] for k, c in enumerate(names)} for row in ans["pf"]]
    viol = [0.0, -b]
    total = sum(cost[c] * x[c] for c in names)
    viol.append(total - B)
    if exhaustive:
        for c in names:
            viol.append(B + 1 - (total + cost[c] + x[c] * INF))
    elif searched:
        viol.append(B - b * n)
    for i, bal in enumerate(case.ballots):
        for c in names:
            if c not in bal:
                viol.append(abs(pf[i][c]))
            viol.append(-pf[i][c])
            viol.append(pf[i][c] - x[c] * INF)
        viol.append(sum(pf[i].values()) - b)
    for c in names:
        s = sum(pf[i][c] for i in range(n))
        viol.append(s - cost[c])
        viol.append(cost[c] + (x[c] - 1) * INF - s)
    left = [b - sum(pf[i].values()) for i in range(n)]
    for c in names:
        if not stable:
            s = sum(left[i] for i in range(n) if c in case.ballots[i])
        else:
            s = sum(max(max(pf[i].values(), default=0.0), left[i], 0.0) for i in range(n) if c in case.ballots[i])
        viol.append(s - (cost[c] + x[c] * INF))
    return max(viol)


def search_part(ctx, box, n_elections, modes_cap=None, gen=None):
    rng = ctx.rng
    gen = gen or gen_case
    for _ in range(n_elections):
        if ctx.budget_s is not None and ctx.elapsed() > ctx.budget_s:
            break
        case = gen(rng)
        names = case.names
        jobs = []
        for W in subsets(names):
            for stable in (False, True):
                for exhaustive in (False, True):
                    jobs.append((W, stable, exhaustive))
        for stable in (False, True):
            for exhaustive in (False, True):
                jobs.append((None, stable, exhaustive))
        if modes_cap is not None and len(jobs) > modes_cap:
            keep = [j for j in jobs if j[0] is None]
            rest = [j for j in jobs if j[0] is not None]
            jobs = keep + random.Random(case.seed).sample(rest, modes_cap - len(keep))
        verdicts = set()
        keys = []
        for W, stable, exhaustive in jobs:
            v = one_search(ctx, box, case, W, stable, exhaustive)
            if v is not None and W is not None:
                verdicts.add(v)
                keys.append((case.key(), tuple(W), stable, exhaustive))
        if len(case.ballots) >= 2 and len(names) >= 2 and len(verdicts) == 2:
            for k in keys:
                if len(k[1]) >= 1:
                    ctx.nontrivial.add(k)


def one_search(ctx, box, case: Case, W, stable, exhaustive, part="search"):
    names, cost, budget, ballots = case.names, case.cost, case.budget, case.ballots
    searched = W is None
    cfg = {"part": part, "W": W, "stable": stable, "exhaustive": exhaustive}
    sig = {"call": "priceable", "stable": stable, "exhaustive": exhaustive, "searched": searched}
    # exact oracles
    if searched:
        good = lp_oracle.exists_priceable_allocation(names, cost, budget, ballots, stable, exhaustive)
        D = len(good) > 0
        M = any(lp_oracle.mip_model_feasible(names, cost, budget, ballots, X, stable, exhaustive, True) for X in subsets(names))
    else:
        D, _ = lp_oracle.price_system_exists(names, cost, budget, ballots, W, stable, exhaustive)
        M = lp_oracle.mip_model_feasible(names, cost, budget, ballots, W, stable, exhaustive, False)
    ctx.evaluations += 1
    ctx.count("search_mode", ("searched" if searched else "given") + ("/stable" if stable else "/plain") + ("/exh" if exhaustive else ""))
    ctx.count("oracle", "priceable" if D else "not priceable")
    if D != M:
        ctx.violations.append({
            "what": f"the MIP built by priceable() is {'feasible' if M else 'infeasible'} but a price system {'exists' if D else 'does not exist'}",
            "case": case.to_json(), "cfg": cfg, "impl": M, "expected": D, "sig": dict(sig, kind="formulation")})
    feedback = (case.seed + len(W or [])) % 3 == 0
    ans = box.call({"op": "priceable", "case": case.to_json(), "W": W, "stable": stable, "exhaustive": exhaustive, "feedback": feedback})
    if ans is None:
        ctx.solver_faults += 1
        ctx.count("solver_fault", "crash_or_timeout")
        return None
    if "error" in ans:
        ctx.violations.append({"what": "priceable raised " + ans["error"], "case": case.to_json(), "cfg": cfg, "impl": ans["error"],
                               "expected": D, "sig": dict(sig, kind="exception")})
        return None
    success = ans["status"] in ("OPTIMAL", "FEASIBLE")
    fc = ans.get("feedback_corrupt")
    if fc is not None and "error" not in fc:
        ctx.count("feedback_corrupt", "validator %s / search %s" % (fc["validator"], fc["search"]))
        if fc["search"] and not fc["validator"]:
            ctx.violations.append({"what": f"priceable was handed its own price system for {ans.get('alloc')} with the payment of voter {fc['deleted'][0]} for "
                                           f"{fc['deleted'][1]} deleted (sparse payment functions: absent = 0); the validator rejects that system, the fully "
                                           f"specified call reports success", "case": case.to_json(), "cfg": dict(cfg, feedback="corrupt"), "impl": "success",
                                   "expected": "failure", "sig": dict(sig, kind="feedback_corrupt")})
    fb = ans.get("feedback")
    if fb is not None:
        ctx.count("feedback_call", fb["status"] if fb["status"] in ("OPTIMAL", "FEASIBLE", "INFEASIBLE") else "other")
        if ans.get("validate") and not fb["validate"] and D and mip_violation(case, ans, stable, exhaustive, searched) <= TOL / 100:
            ctx.violations.append({"what": f"priceable found a price system for {ans.get('alloc')} (accepted by the validator); handed back as voter_budget / "
                                           f"payment_functions with the same flags (stable={stable}, exhaustive={exhaustive}) the call reports {fb['status']}",
                                   "case": case.to_json(), "cfg": dict(cfg, feedback=True), "impl": fb["status"], "expected": "success",
                                   "sig": dict(sig, kind="feedback")})
    if success and mip_violation(case, ans, stable, exhaustive, searched) > TOL:
        # the returned point violates the conditions of a price system: a CBC hiccup when isolated (a few per 100 000 calls),
        # a defect of the search when it happens repeatedly in one run (see settle_suspects)
        ctx.count("solver_fault", "point_violates_model")
        fault_sample(ctx, case, cfg, ans, M, D)
        ctx.extra.setdefault("_suspects", []).append({
            "what": f"priceable reports success for allocation {W} with a price system that violates the price-system conditions "
                    f"(exact oracle: a price system {'exists' if D else 'does not exist'})", "case": case.to_json(), "cfg": cfg,
            "impl": ans.get("status"), "expected": D, "sig": dict(sig, kind="returned_system_invalid")})
        return None
    if success != M:
        # either CBC is wrong about the model it was given (a solver fault: isolated, discarded) or the library no longer
        # builds the model this harness re-derived from the definition (systematic).  Decided at the end of the run by
        # the number of such cases: see `settle_suspects`.
        ctx.count("solver_fault", "claims_" + ans["status"].lower() + "_model_is_" + ("feasible" if M else "infeasible"))
        fault_sample(ctx, case, cfg, ans, M, D)
        ctx.extra.setdefault("_suspects", []).append({
            "what": f"priceable reports {'success' if success else 'failure'} although a price system {'exists' if D else 'does not exist'} "
                    f"(exact rational oracle) for allocation {W}", "case": case.to_json(), "cfg": cfg, "impl": ans.get("status"), "expected": D,
            "sig": dict(sig, kind="search_vs_oracle")})
        return None
    if success:
        A = ans["alloc"]
        if not lp_oracle.is_feasible_alloc(cost, budget, A) or (exhaustive and not lp_oracle.is_exhaustive_alloc(names, cost, budget, A)) \
                or (not searched and sorted(A) != sorted(W)):
            ctx.violations.append({"what": f"priceable reports success with allocation {A} (asked for {W}) which is not admissible",
                                   "case": case.to_json(), "cfg": cfg, "impl": A, "expected": W, "sig": dict(sig, kind="allocation")})
        elif searched and sorted(A) not in good and D == M:
            ctx.violations.append({"what": f"priceable found allocation {A} which has no price system", "case": case.to_json(), "cfg": cfg,
                                   "impl": A, "expected": good, "sig": dict(sig, kind="allocation")})
        if ans.get("validate") is not True:
            ctx.violations.append({"what": "the price system returned by priceable does not pass validate_price_system", "case": case.to_json(),
                                   "cfg": cfg, "impl": ans, "expected": True, "sig": dict(sig, kind="witness")})
    return success


def fault_sample(ctx, case, cfg, ans, M, D):
    l = ctx.extra.setdefault("solver_fault_samples", [])
    if len(l) < 5:
        l.append({"case": case.to_json(), "cfg": cfg, "answer": ans, "mip_feasible_exact": M, "price_system_exists": D})


def mes_part(ctx, box, n_elections):
    from pabutools.rules import method_of_equal_shares

    rng = ctx.rng
    for _ in range(n_elections):
        case = gen_case(rng, zero_p=0.12)
        inst, projs = core.build_instance(case)
        prof = core.build_profile(case, inst, projs)
        for sat in ("Cost_Sat", "Cardinality_Sat"):
            W = sorted(p.name for p in method_of_equal_shares(inst, prof, sat_class=core.sat_class(sat)))
            ctx.count("mes", sat)
            D, _ = lp_oracle.price_system_exists(case.names, case.cost, case.budget, case.ballots, W, False, False)
            ans = box.call({"op": "priceable", "case": case.to_json(), "W": W, "stable": False, "exhaustive": False})
            ctx.evaluations += 1
            if len(W) >= 1 and len(case.ballots) >= 2:
                ctx.nontrivial.add((case.key(), "mes", sat))
            lib = None
            if ans is None:
                ctx.solver_faults += 1
            elif "error" not in ans:
                lib = ans["status"] in ("OPTIMAL", "FEASIBLE")
                if lib != D:
                    # the library's answer contradicts the exact oracle: judged in the search part; here a solver fault
                    ctx.solver_faults += 1
                    lib = None
            if not D:
                zero_util = sat == "Cost_Sat" and any(case.cost[c] == 0 and any(c in b for b in case.ballots) for c in case.names)
                reason = "approved_zero_cost_project_with_zero_utility" if zero_util else "other"
                ctx.violations.append({
                    "what": f"Equal Shares outcome {W} with {sat} is not priceable (exact oracle; library says {lib})",
                    "case": case.to_json(), "cfg": {"part": "mes", "sat": sat, "W": W}, "impl": lib, "expected": True,
                    "sig": {"call": "mes_priceable", "reason": reason, "sat": sat}})
        # infeasible allocations are never priceable
        for W in subsets(case.names):
            if not lp_oracle.is_feasible_alloc(case.cost, case.budget, W):
                ans = box.call({"op": "priceable", "case": case.to_json(), "W": W, "stable": False, "exhaustive": False})
                ctx.evaluations += 1
                ctx.count("infeasible_allocation", "asked")
                if ans is None:
                    ctx.solver_faults += 1
                elif "error" not in ans and ans["status"] in ("OPTIMAL", "FEASIBLE"):
                    if mip_violation(case, ans, False, False, False) > TOL:
                        ctx.solver_faults += 1
                    else:
                        ctx.violations.append({"what": f"priceable reports success for the infeasible allocation {W}", "case": case.to_json(),
                                               "cfg": {"part": "search", "W": W, "stable": False, "exhaustive": False}, "impl": ans, "expected": False,
                                               "sig": {"call": "priceable", "kind": "infeasible_allocation"}})
                break


# ----------------------------------------------------------------------------------------------
# part 4: relaxations of the stable condition (pabutools/analysis/priceability_relaxation.py)

RELAX = lp_oracle.RELAX_KINDS
RELAX_CLASS = {"mul": "MinMul", "add": "MinAdd", "vec": "MinAddVector", "vecpos": "MinAddVectorPositive", "off": "MinAddOffset"}


def relaxed_costs(case: Case, kind, beta, betav):
    """`get_relaxed_cost` as a function of the saved beta, exact (beta: scalar or None, betav: name -> value)"""
    betav = betav or {}
    out = {}
    for c in case.names:
        if kind == "mul":
            out[c] = case.cost[c] * beta
        elif kind == "add":
            out[c] = case.cost[c] + beta
        elif kind in ("vec", "vecpos"):
            out[c] = case.cost[c] + betav.get(c, F(0))
        else:
            out[c] = case.cost[c] + beta + betav.get(c, F(0))
    return out


def lib_validate_relaxed(case: Case, W, b, pf, stable, exhaustive, kind, beta, betav, raw=False):
    """validate_price_system with a relaxation object whose saved beta is set to the exact numbers (raw: to the numbers as
    they are given — floats, as the search saves them);  -> (answer, {name: R.get_relaxed_cost(project)})"""
    import collections

    from pabutools.analysis.priceability import validate_price_system
    import pabutools.analysis.priceability_relaxation as rel

    inst, projs = core.build_instance(case)
    prof = core.build_profile(case, inst, projs)
    R = getattr(rel, RELAX_CLASS[kind])(inst, prof)
    num = (lambda x: x) if raw else core.to_num
    if kind in ("mul", "add"):
        R._saved_beta = num(beta)
    else:
        d = collections.defaultdict(int)
        for c, v in (betav or {}).items():
            if v != 0:
                d[projs[c]] = num(v)
        R._saved_beta = {"beta": d, "sum": sum(d.values())}
        if kind == "off":
            R._saved_beta["beta_global"] = num(beta)
    pfl = [{projs[c]: num(p[c]) for c in case.names} for p in pf]
    try:
        with contextlib.redirect_stdout(io.StringIO()):
            got = bool(validate_price_system(inst, prof, [projs[c] for c in W], num(b), pfl, stable=stable, exhaustive=exhaustive,
                                             relaxation=R, verbose=verbose_for(case, W, stable, exhaustive)))
        rc = {c: core.toF(R.get_relaxed_cost(projs[c])) for c in case.names}
    except Exception as e:  # noqa: BLE001
        return "err:" + core.err_enum(e), None
    return got, rc


def relax_line(case: Case, W, b, pf, stable, exhaustive, kind, beta, betav):
    bv = ",".join(q2s((betav or {}).get(c, F(0))) for c in case.names)
    return (price_line(case, W, b, pf, stable, exhaustive).replace("price ", "pricerelax ", 1)
            + f" relax={kind} beta={q2s(beta if beta is not None else F(0))} betav={bv}")


def relax_validator_part(ctx, n_elections, lines):
    """exact optimal relaxed systems (LP oracle) and copies with a lowered / raised beta: library validator with the
    relaxation object vs the exact conditions (violations) and vs the Lean model (disagreements)"""
    rng = ctx.rng
    for _ in range(n_elections):
        case = gen_case(rng)
        names = case.names
        allW = list(subsets(names))
        rng.shuffle(allW)
        done = 0
        for W in allW:
            if done >= 3:
                break
            for kind in RELAX:
                st, val, wit = lp_oracle.relaxed_optimum(names, case.cost, case.budget, case.ballots, W, kind, exhaustive=False)
                if st != "optimal":
                    continue
                done += 1
                ex = lp_oracle.is_exhaustive_alloc(names, case.cost, case.budget, W) and rng.random() < 0.6
                beta, betav = wit["beta"], dict(wit["betav"])
                NW = [c for c in names if c not in W]
                variants = [("relax-exact", beta, betav, True)]
                for d in (rng.choice([F(1, 10), F(1, 5), F(1, 2), F(1), F(7, 3)]), -rng.choice([F(1, 3), F(1), F(5, 2)]),
                          rng.choice([F(1, 1000), F(1, 200), F(1, 100), F(15, 1000), F(1, 30), F(1, 200) + F(1, 10**6), F(5, 100)])):
                    tag = "relax-lower" if d >= F(1, 10) else "relax-raise" if d < 0 else "relax-near"
                    if kind in ("vec", "vecpos"):
                        if not NW:
                            continue
                        c = rng.choice(NW)
                        bv2 = dict(betav)
                        bv2[c] = bv2.get(c, F(0)) - d
                        variants.append((tag, beta, bv2, True))
                    else:
                        variants.append((tag, beta - d, betav, True))
                variants.append(("relax-plain", beta, betav, False))  # without `stable` the relaxation is not read
                for tag, be, bv, stable in variants:
                    judge_relaxed(ctx, case, W, wit["b"], wit["pf"], stable, ex, kind, be, bv, tag, lines)


def judge_relaxed(ctx, case, W, b, pf, stable, exhaustive, kind, beta, betav, tag, lines):
    rc = relaxed_costs(case, kind, beta, betav)
    conds = conditions(case, W, b, pf, stable, exhaustive, rc=rc)
    exact = is_exact(conds)
    broken = broken_by_margin(conds)
    got, lib_rc = lib_validate_relaxed(case, W, b, pf, stable, exhaustive, kind, beta, betav)
    ctx.evaluations += 1
    ctx.count("validator_kind", tag)
    ctx.count("relax_validator", kind + "/" + ("accept" if exact else "reject" if broken else "unspecified"))
    cfg = {"part": "relax_validator", "W": W, "b": q2s(b), "pf": [{c: q2s(v) for c, v in p.items()} for p in pf], "stable": stable,
           "exhaustive": exhaustive, "kind": tag, "relax": kind, "beta": None if beta is None else q2s(beta),
           "betav": {c: q2s(v) for c, v in (betav or {}).items()}}
    if len(case.ballots) >= 2 and len(case.names) >= 2 and len(W) >= 1 and len(W) < len(case.names):
        ctx.nontrivial.add((case.key(), tuple(W), kind, cfg["beta"], str(cfg["betav"]), stable, exhaustive))
    worst = min(conds, key=lambda k: conds[k])
    sig = {"call": "validate_price_system", "stable": stable, "relaxation": RELAX_CLASS[kind]}
    if lib_rc is not None and any(lib_rc[c] != rc[c] for c in case.names):
        ctx.violations.append({"what": f"{RELAX_CLASS[kind]}.get_relaxed_cost differs from its documented shape", "case": case.to_json(), "cfg": cfg,
                               "impl": {c: q2s(v) for c, v in lib_rc.items()}, "expected": {c: q2s(v) for c, v in rc.items()},
                               "sig": dict(sig, kind="relaxed_cost")})
    if exact and got is not True:
        ctx.violations.append({"what": f"validator with {RELAX_CLASS[kind]} rejects a pair that meets every relaxed condition exactly (returned {got})",
                               "case": case.to_json(), "cfg": cfg, "impl": got, "expected": True, "sig": dict(sig, kind="complete")})
    if broken and got is not False:
        ctx.violations.append({"what": f"validator with {RELAX_CLASS[kind]} accepts a pair that breaks {worst} by {float(-conds[worst]):.3f} (returned {got})",
                               "case": case.to_json(), "cfg": cfg, "impl": got, "expected": False,
                               "sig": dict(sig, kind="sound", condition=worst)})
    lines.append((relax_line(case, W, b, pf, stable, exhaustive, kind, beta, betav), got, exact, rc, case, cfg))


def flush_relax_model(ctx, lines):
    if not lines:
        return
    outs = core.run_driver([l[0] for l in lines])
    for (line, got, exact, rc, case, cfg), out in zip(lines, outs):
        parts = out.strip().split(" ")
        mv = parts[1] if len(parts) > 1 else out
        me = parts[2] if len(parts) > 2 else out
        mrc = parts[3] if len(parts) > 3 else ""
        gs = "1" if got is True else "0" if got is False else str(got)
        want_rc = ",".join(f"{i}:{q2s(rc[c])}" for i, c in sorted((case.rank[c], c) for c in case.names))
        got_rc = ",".join(sorted(mrc.split(","), key=lambda t: int(t.split(":")[0]))) if mrc else ""
        if mv != gs:
            ctx.disagreements.append({"line": line, "impl": gs, "model": mv, "what": "Price.validateRelaxed != validate_price_system(relaxation=…)",
                                      "case": case.to_json(), "cfg": cfg})
        if me != ("1" if exact else "0"):
            ctx.disagreements.append({"line": line, "impl": "1" if exact else "0", "model": me,
                                      "what": "Price.exactRelaxed != independent exact evaluation of the relaxed conditions", "case": case.to_json(), "cfg": cfg})
        if got_rc != want_rc:
            ctx.disagreements.append({"line": line, "impl": want_rc, "model": got_rc, "what": "model relaxed cost != get_relaxed_cost shape",
                                      "case": case.to_json(), "cfg": cfg})
        ctx.sample(f"{line} -> impl {gs} | model validateRelaxed {mv} exactRelaxed {me} rc {mrc} | exact conditions {int(exact)}")


def relaxed_violation(case: Case, ans, kind, exhaustive, searched):
    """largest violation, by the returned point, of (a) the relaxed price-system conditions and (b) the MIP `priceable` builds with
    the relaxation, both recomputed exactly from the returned floats -> (definition violation, MIP violation, relaxed costs)"""
    names = case.names
    cost, B = case.cost, case.budget
    INF = 10 * B
    n = len(case.ballots)
    A = set(ans["alloc"])
    x = {c: (1 if c in A else 0) for c in names}
    b = F(ans["b"])
    pf = [{c: F(row[k]) for k, c in enumerate(names)} for row in ans["pf"]]
    beta = F(ans["beta_global"]) if ans.get("beta_global") is not None else None
    betav = {c: F(v) for c, v in zip(names, ans["betav"])} if ans.get("betav") is not None else {}
    rc = relaxed_costs(case, kind, beta, betav)
    conds = conditions(case, sorted(A), b, pf, True, exhaustive, rc=rc)
    dviol = max([F(0)] + [-v for v in conds.values()])
    viol = [F(0), -b]
    total = sum((cost[c] * x[c] for c in names), F(0))
    viol.append(total - B)
    if exhaustive:
        for c in names:
            viol.append(B + 1 - (total + cost[c] + x[c] * INF))
    elif searched:
        viol.append(B - b * n)
    for i, bal in enumerate(case.ballots):
        for c in names:
            if c not in bal:
                viol.append(abs(pf[i][c]))
            viol.append(-pf[i][c])
            viol.append(pf[i][c] - x[c] * INF)
        viol.append(sum(pf[i].values(), F(0)) - b)
    for c in names:
        s = sum((pf[i][c] for i in range(n)), F(0))
        viol.append(s - cost[c])
        viol.append(cost[c] + (x[c] - 1) * INF - s)
    left = [b - sum(pf[i].values(), F(0)) for i in range(n)]
    mvar = [max([F(0), left[i]] + list(pf[i].values())) for i in range(n)]
    for c in names:
        s = sum((mvar[i] for i in range(n) if c in case.ballots[i]), F(0))
        viol.append(s - (rc[c] + x[c] * INF))
    if kind == "mul":
        viol.append(-beta)
    if kind in ("add", "off"):
        viol.append(-INF - beta)
    if kind == "vec":
        for c in names:
            viol.append(betav[c] - (1 - x[c]) * B)
            viol.append((x[c] - 1) * B - betav[c])
    if kind in ("vecpos", "off"):
        for c in names:
            viol.append(-betav[c])
    if kind == "off":
        viol.append(sum(betav.values(), F(0)) - lp_oracle.OFFSET_FRACTION * B)
    return dviol, max(viol), rc


def relax_oracles(case: Case, W, kind, exhaustive):
    """(D status, D value, M status, M value, degenerate) — exact.  degenerate: MinAdd / MinAddOffset with every project selected —
    no unselected project constrains beta, the optimum is decided by the variable's artificial lower bound -INF (definition) or by
    the big-M terms of the selected projects (MIP): outside what the relaxation is about, D and M are not compared"""
    names, cost, budget, ballots = case.names, case.cost, case.budget, case.ballots
    if W is None:
        Mv, Mper = lp_oracle.relaxed_optimum_searched(names, cost, budget, ballots, kind, exhaustive, faithful=True)
        Dv, Dper = lp_oracle.relaxed_optimum_searched(names, cost, budget, ballots, kind, exhaustive, faithful=False)
        degenerate = kind in ("add", "off") and any(len(X) == len(names) for X, _ in Dper)
        return ("optimal" if Dper else "infeasible"), Dv, ("optimal" if Mper else "infeasible"), Mv, degenerate
    Ds, Dv, _ = lp_oracle.relaxed_optimum(names, cost, budget, ballots, W, kind, exhaustive, faithful=False)
    Ms, Mv, _ = lp_oracle.relaxed_optimum(names, cost, budget, ballots, W, kind, exhaustive, faithful=True)
    degenerate = kind in ("add", "off") and len(W) == len(names)
    return Ds, Dv, Ms, Mv, degenerate


def one_relax(ctx, box, case: Case, W, kind, exhaustive, plain):
    """one call of priceable(..., stable=True, relaxation=R).  plain = the library's answer of the plain stable search for the same
    allocation / flags (True / False / None when unknown)"""
    names, cost, budget = case.names, case.cost, case.budget
    searched = W is None
    cfg = {"part": "relax", "W": W, "relax": kind, "exhaustive": exhaustive, "stable": True}
    sig = {"call": "priceable", "stable": True, "exhaustive": exhaustive, "searched": searched, "relaxation": RELAX_CLASS[kind]}
    Ds, Dv, Ms, Mv, degenerate = relax_oracles(case, W, kind, exhaustive)
    ctx.evaluations += 1
    ctx.count("search_mode", "relax/" + kind + ("/searched" if searched else "/given") + ("/exh" if exhaustive else ""))
    ctx.count("relax_oracle", kind + "/" + (Ms if Ms != "optimal" else "degenerate" if degenerate else "optimal"))
    if "unbounded" in (Ds, Ms):
        raise lp_oracle.OracleError("relaxed optimum unbounded")
    if not degenerate and (Ds != Ms or (Ds == "optimal" and Dv != Mv)):
        ctx.violations.append({
            "what": f"{RELAX_CLASS[kind]}: the optimum of the MIP built by priceable() is {Ms} {None if Mv is None else q2s(Mv)} but by the "
                    f"definition of the relaxation it is {Ds} {None if Dv is None else q2s(Dv)}", "case": case.to_json(), "cfg": cfg,
            "impl": None if Mv is None else q2s(Mv), "expected": None if Dv is None else q2s(Dv), "sig": dict(sig, kind="relax_formulation")})
    prior = None
    if names and (case.seed + len(W or [])) % 5 < 2:
        # the relaxation object is REUSED: it went through a search for another allocation first
        r_ = random.Random(case.seed ^ 0x77)
        prior = [n for n in names if r_.random() < 0.5]
        tot = F(0)
        prior = [n for n in prior if (tot := tot + cost[n]) <= budget]
        ctx.count("relaxation_object", "reused")
    ans = box.call({"op": "relax", "case": case.to_json(), "W": W, "kind": kind, "exhaustive": exhaustive, "W_prior": prior})
    if ans is None:
        ctx.solver_faults += 1
        ctx.count("solver_fault", "crash_or_timeout")
        return None
    if "error" in ans:
        ctx.violations.append({"what": f"priceable with {RELAX_CLASS[kind]} raised " + ans["error"], "case": case.to_json(), "cfg": cfg,
                               "impl": ans["error"], "expected": Ms, "sig": dict(sig, kind="exception")})
        return None
    success = ans["status"] in ("OPTIMAL", "FEASIBLE")
    M = Ms == "optimal"

    def suspect(what, kind_):
        fault_sample(ctx, case, cfg, ans, M, Ds == "optimal")
        ctx.extra.setdefault("_suspects", []).append({"what": what, "case": case.to_json(), "cfg": cfg, "impl": ans.get("status"),
                                                      "expected": None if Mv is None else q2s(Mv), "sig": dict(sig, kind=kind_)})

    if success:
        dviol, mviol, rc = relaxed_violation(case, ans, kind, exhaustive, searched)
        if mviol > TOL or dviol > TOL:
            ctx.count("solver_fault", "relax_point_violates_model")
            suspect(f"priceable with {RELAX_CLASS[kind]} reports success for allocation {W} with a price system that violates the relaxed "
                    f"conditions by {float(max(dviol, mviol)):.2e}", "returned_system_invalid")
            return None
    if success != M:
        ctx.count("solver_fault", "relax_claims_" + ans["status"].lower() + "_model_is_" + ("feasible" if M else "infeasible"))
        suspect(f"priceable with {RELAX_CLASS[kind]} reports {'success' if success else 'failure'} for allocation {W} although the relaxed "
                f"problem is {Ms} (exact rational oracle)", "search_vs_oracle")
        return None
    if not success:
        return ans
    if ans["status"] == "OPTIMAL" and abs(F(ans["beta"]) - Mv) > TOL:
        ctx.count("solver_fault", "relax_beta_not_optimal")
        suspect(f"priceable with {RELAX_CLASS[kind]} returns beta {ans['beta']!r} for allocation {W}; the optimum is {q2s(Mv)} = {float(Mv)!r} "
                f"(exact rational oracle)", "beta_not_optimal")
        return None
    ctx.count("relax_beta", kind + "/optimal")
    A = ans["alloc"]
    if not lp_oracle.is_feasible_alloc(cost, budget, A) or (exhaustive and not lp_oracle.is_exhaustive_alloc(names, cost, budget, A)) \
            or (not searched and sorted(A) != sorted(W)):
        ctx.violations.append({"what": f"priceable with {RELAX_CLASS[kind]} reports success with allocation {A} (asked for {W}) which is not admissible",
                               "case": case.to_json(), "cfg": cfg, "impl": A, "expected": W, "sig": dict(sig, kind="allocation")})
    if any(abs(F(v) - rc[c]) > F(1, 10**9) * max(1, abs(rc[c])) for v, c in zip(ans["rc"], names)):
        ctx.violations.append({"what": f"{RELAX_CLASS[kind]}.get_relaxed_cost differs from its documented shape for the saved beta", "case": case.to_json(),
                               "cfg": cfg, "impl": ans["rc"], "expected": [float(rc[c]) for c in names], "sig": dict(sig, kind="relaxed_cost")})
    if ans.get("validate") is not True:
        ctx.violations.append({"what": f"the price system returned by priceable with {RELAX_CLASS[kind]} does not pass validate_price_system with the "
                                       f"same relaxation object", "case": case.to_json(), "cfg": cfg, "impl": ans, "expected": True,
                               "sig": dict(sig, kind="witness")})
    # consistency with the plain stable search: a stable price system is feasible for every relaxation at its neutral beta
    neutral = F(1) if kind == "mul" else F(0)
    if plain is True and F(ans["beta"]) > neutral + TOL:
        ctx.violations.append({"what": f"the plain stable search succeeds for allocation {W} but {RELAX_CLASS[kind]} returns beta {ans['beta']!r} > {neutral}",
                               "case": case.to_json(), "cfg": cfg, "impl": ans["beta"], "expected": float(neutral), "sig": dict(sig, kind="consistency")})
    if plain is False and not searched and kind in ("mul", "add") and F(ans["beta"]) < neutral - TOL:
        ctx.violations.append({"what": f"{RELAX_CLASS[kind]} returns beta {ans['beta']!r} < {neutral} for allocation {W} (so a stable price system exists) "
                                       f"but the plain stable search fails", "case": case.to_json(), "cfg": cfg, "impl": ans["beta"],
                               "expected": float(neutral), "sig": dict(sig, kind="consistency")})
    return ans


def plain_stable(ctx, box, case: Case, W, exhaustive):
    """the library's plain stable search, kept only when it agrees with the exact oracle of the MIP"""
    names = case.names
    if W is None:
        M = any(lp_oracle.mip_model_feasible(names, case.cost, case.budget, case.ballots, X, True, exhaustive, True) for X in subsets(names))
    else:
        M = lp_oracle.mip_model_feasible(names, case.cost, case.budget, case.ballots, W, True, exhaustive, False)
    ans = box.call({"op": "priceable", "case": case.to_json(), "W": W, "stable": True, "exhaustive": exhaustive})
    ctx.evaluations += 1
    if ans is None:
        ctx.solver_faults += 1
        return None
    if "error" in ans:
        return None
    lib = ans["status"] in ("OPTIMAL", "FEASIBLE")
    if lib != M:
        return None  # judged by the search part
    ctx.count("relax_plain_stable", "priceable" if lib else "not priceable")
    return lib


def relax_part(ctx, box, n_elections, searched_every=3, given_per_election=3):
    rng = ctx.rng
    for k in range(n_elections):
        if ctx.budget_s is not None and ctx.elapsed() > ctx.budget_s:
            break
        case = gen_case(rng)
        names = case.names
        feas = [W for W in subsets(names) if lp_oracle.is_feasible_alloc(case.cost, case.budget, W)]
        r = random.Random(case.seed)
        r.shuffle(feas)
        jobs = [(W, r.random() < 0.5 and lp_oracle.is_exhaustive_alloc(names, case.cost, case.budget, W)) for W in feas[:given_per_election]]
        if k % searched_every == 0:
            jobs.append((None, r.random() < 0.5))
        for W, exhaustive in jobs:
            plain = plain_stable(ctx, box, case, W, exhaustive)
            betas = {}
            for kind in RELAX:
                ans = one_relax(ctx, box, case, W, kind, exhaustive, plain)
                if ans is not None and ans.get("status") == "OPTIMAL":
                    betas[kind] = ans["beta"]
                    if len(case.ballots) >= 2 and len(names) >= 2 and (W is None or 1 <= len(W) < len(names)):
                        ctx.nontrivial.add((case.key(), None if W is None else tuple(W), kind, exhaustive))
            # between the relaxations: the additive offset (extra non-negative slack) never needs a larger beta than MinAdd
            if "add" in betas and "off" in betas and betas["off"] > betas["add"] + TOL:
                ctx.violations.append({"what": f"MinAddOffset returns beta {betas['off']!r} > MinAdd's {betas['add']!r} for allocation {W}",
                                       "case": case.to_json(), "cfg": {"part": "relax", "W": W, "relax": "off", "exhaustive": exhaustive, "stable": True},
                                       "impl": betas["off"], "expected": betas["add"],
                                       "sig": {"call": "priceable", "relaxation": "MinAddOffset", "kind": "consistency"}})


# ----------------------------------------------------------------------------------------------


def run(ctx):
    ctx.rule = RULE
    import pabutools

    ctx.extra["library_under_test"] = pabutools.__file__
    lines = []
    validator_part(ctx, ctx.scale(60, 500), lines)
    flush_model(ctx, lines)
    round2_part(ctx, ctx.scale(300, 3000))
    lines = []
    relax_validator_part(ctx, ctx.scale(25, 250), lines)
    flush_relax_model(ctx, lines)
    lines, rlines = [], []
    straddle_part(ctx, ctx.scale(50, 400), lines, rlines)
    flush_model(ctx, lines)
    flush_relax_model(ctx, rlines)
    from . import C12_mip  # the program priceable() really builds == the Lean model PriceMIP.constraints (C12MIP.lean)

    C12_mip.mip_part(ctx, ctx.scale(30, 400), solve_every=ctx.scale(6, 3), gen_case=gen_case, subsets=subsets, budget_s=ctx.scale(25, None))
    # … and with relaxation=R: the program (add_beta, add_stability_constraint, add_objective) == PriceMIP.rprogram (C12MIPRelax.lean)
    C12_mip.mip_relax_part(ctx, ctx.scale(20, 250), solve_every=ctx.scale(6, 3), witness_every=ctx.scale(5, 2), gen_case=gen_case, subsets=subsets,
                           budget_s=ctx.scale(12, None))
    C12_mip.bigM_limits(ctx)
    box = solverbox.Box()
    try:
        search_part(ctx, box, ctx.scale(120, 1500), modes_cap=ctx.scale(40, None))
        mes_part(ctx, box, ctx.scale(300, 3000))
        relax_part(ctx, box, ctx.scale(70, 600), searched_every=ctx.scale(3, 2))
        search_part(ctx, box, ctx.scale(80, 800), modes_cap=ctx.scale(40, None), gen=gen_overbudget_case)  # round 6 (drawn last)
    finally:
        settle_suspects(ctx)
        ctx.extra["solver_fault_kinds"] = dict(box.fault_kinds)
        box.close()


def settle_suspects(ctx, threshold=3):
    """search verdicts that contradict the exact oracle.  For the plain/stable search (relaxation=None) each suspect is
    ADJUDICATED: the call is repeated with the program captured; if the program is the proved one (PriceMIP) the solver is at
    fault for that program (discarded and counted), otherwise the library is (violation) - see C12_mip.adjudicate / adjudicate_relax.  Whatever cannot be adjudicated (an
    exception while repeating the call, more than 15 suspects) is decided by the count as before: a handful per 100 000 calls
    are CBC hiccups; `threshold` or more in one run are a systematic disagreement -> violations."""
    sus = ctx.extra.pop("_suspects", [])
    ctx.extra["search_vs_oracle_suspects"] = len(sus)
    plain = [v for v in sus if v.get("cfg", {}).get("part") == "search" or (v.get("cfg", {}).get("part") == "relax" and v.get("cfg", {}).get("relax") in RELAX_CLASS)]
    rest = [v for v in sus if v not in plain]
    if plain:
        from . import C12_mip

        box = C12_mip.MipBox()
        try:
            for v in plain[:15]:
                cfg, sig = v["cfg"], v["sig"]
                try:
                    if cfg.get("part") == "relax":
                        verdict, why = C12_mip.adjudicate_relax(box, Case.from_json(v["case"]), cfg.get("W"), cfg["relax"],
                                                                bool(cfg.get("exhaustive")), bool(sig.get("searched")))
                    else:
                        verdict, why = C12_mip.adjudicate(box, Case.from_json(v["case"]), cfg.get("W"), bool(sig.get("stable")),
                                                          bool(sig.get("exhaustive")), bool(sig.get("searched")))
                except Exception as e:  # noqa: BLE001
                    verdict, why = "undecided", repr(e)
                ctx.count("suspect_adjudication", verdict)
                if verdict == "solver_fault":
                    ctx.solver_faults += 1
                    ctx.extra.setdefault("adjudicated_solver_faults", []).append({"what": v["what"], "why": why, "cfg": cfg, "case": v["case"]})
                elif verdict == "library":
                    ctx.violations.append(dict(v, what=v["what"] + " - " + why))
                else:
                    rest.append(v)
        finally:
            box.close()
        rest.extend(plain[15:])
    calls = sum(ctx.dist.get("search_mode", {}).values()) if isinstance(ctx.dist.get("search_mode"), dict) else 0
    threshold = max(threshold, calls // 4000)  # observed CBC hiccup rate on the unchanged tree: about 4 per 100 000 calls
    ctx.extra["search_vs_oracle_threshold"] = threshold
    if len(rest) >= threshold:
        ctx.violations.extend(rest[:20])
    else:
        ctx.solver_faults += len(rest)


def search(ctx, disagreements):
    ctx.rule = RULE
    lines = []
    validator_part(ctx, 400, lines)
    straddle_part(ctx, 200, [], [])
    # the search itself (a program that differs from the proved one is looked for where it decides a verdict)
    box = solverbox.Box()
    try:
        search_part(ctx, box, 250, modes_cap=40)
        search_part(ctx, box, 250, modes_cap=40, gen=gen_overbudget_case)
    finally:
        settle_suspects(ctx)
        box.close()


def replay(payload):
    case = Case.from_json(payload["case"])
    cfg = payload["cfg"]
    part = cfg.get("part")
    if cfg.get("W") is not None and not set(cfg["W"]) <= set(case.names):
        # (the shrinker removed a project of the allocation: the stored call no longer applies to this election)
        return True, "not applicable: the allocation names a project that is not in the election"
    if part == "validator":
        pf = [{c: F(v) for c, v in p.items()} for p in cfg["pf"]]
        b = F(cfg["b"])
        conds = conditions(case, cfg["W"], b, pf, cfg["stable"], cfg["exhaustive"])
        got = lib_validate(case, cfg["W"], b, pf, cfg["stable"], cfg["exhaustive"])
        if is_exact(conds) and got is not True:
            return False, "still fails: exact price system rejected"
        if broken_by_margin(conds) and got is not False:
            return False, "still fails: pair broken by >= 0.1 accepted"
        return True, f"property holds on the replayed input: validator returned {got}"
    if part == "straddle":
        pf = [{c: F(v) for c, v in p.items()} for p in cfg["pf"]]
        b = F(cfg["b"])
        kind = cfg.get("relax")
        beta = None if cfg.get("beta") is None else F(cfg["beta"])
        betav = None if cfg.get("betav") is None else {c: F(v) for c, v in cfg["betav"].items()}
        base_pf = [{c: F(v) for c, v in p.items()} for p in cfg["base_pf"]]
        base_beta = None if cfg.get("base_beta") is None else F(cfg["base_beta"])
        base_betav = None if cfg.get("base_betav") is None else {c: F(v) for c, v in cfg["base_betav"].items()}
        if set(base_pf[0] if base_pf else []) != set(case.names) or len(base_pf) != len(case.ballots):
            return True, "not applicable: the stored payments do not belong to this election"
        base_rc = None if kind is None else relaxed_costs(case, kind, base_beta, base_betav)
        rc = None if kind is None else relaxed_costs(case, kind, beta, betav)
        if not is_exact(conditions(case, cfg["W"], F(cfg["base_b"]), base_pf, cfg["stable"], cfg["exhaustive"], rc=base_rc)):
            return True, "not applicable: the base system does not meet every condition exactly"
        if any(v < -STRADDLE_EPS for v in conditions(case, cfg["W"], b, pf, cfg["stable"], cfg["exhaustive"], rc=rc).values()):
            return True, "not applicable: the perturbed system is more than 1e-9 away"
        raw = cfg.get("form") == "float"
        conv = float if raw else (lambda x: x)
        pfx = [{c: conv(v) for c, v in p.items()} for p in pf]
        if kind is None:
            got = lib_validate(case, cfg["W"], conv(b), pfx, cfg["stable"], cfg["exhaustive"], raw=raw)
        else:
            got, _ = lib_validate_relaxed(case, cfg["W"], conv(b), pfx, cfg["stable"], cfg["exhaustive"], kind,
                                          None if beta is None else conv(beta), None if betav is None else {c: conv(v) for c, v in betav.items()},
                                          raw=raw)
        if got is not True:
            return False, f"still fails: a pair within 1e-9 of an exact price system is rejected (returned {got})"
        return True, "property holds on the replayed input: validator accepted"
    if part == "relax_validator":
        pf = [{c: F(v) for c, v in p.items()} for p in cfg["pf"]]
        b = F(cfg["b"])
        beta = None if cfg["beta"] is None else F(cfg["beta"])
        betav = {c: F(v) for c, v in cfg["betav"].items()}
        rc = relaxed_costs(case, cfg["relax"], beta, betav)
        conds = conditions(case, cfg["W"], b, pf, cfg["stable"], cfg["exhaustive"], rc=rc)
        got, lib_rc = lib_validate_relaxed(case, cfg["W"], b, pf, cfg["stable"], cfg["exhaustive"], cfg["relax"], beta, betav)
        if lib_rc is not None and any(lib_rc[c] != rc[c] for c in case.names):
            return False, "still fails: get_relaxed_cost differs from its shape"
        if is_exact(conds) and got is not True:
            return False, "still fails: exact relaxed price system rejected"
        if broken_by_margin(conds) and got is not False:
            return False, "still fails: pair broken by >= 0.1 accepted"
        return True, f"property holds on the replayed input: validator returned {got}"
    if part == "relax":
        from ..vcheck import Ctx

        ctx = Ctx("C12", "quick", 0)
        box = solverbox.Box()
        try:
            plain = plain_stable(ctx, box, case, cfg.get("W"), cfg["exhaustive"])
            one_relax(ctx, box, case, cfg.get("W"), cfg["relax"], cfg["exhaustive"], plain)
        finally:
            box.close()
        if ctx.violations:
            return False, "still fails: " + ctx.violations[0]["what"]
        sus = ctx.extra.get("_suspects", [])
        if sus:
            return False, "still fails: " + sus[0]["what"]
        return True, "property holds on the replayed input" + (" (solver fault, discarded)" if ctx.solver_faults else "")
    if part == "miprelax":
        from . import C12_mip

        job = {"op": "capture", "case": case.to_json(), "W": cfg.get("W"), "relax": cfg["relax"], "stable": cfg["stable"],
               "exhaustive": cfg["exhaustive"], "fb": cfg.get("fb"), "pf": cfg.get("pf"), "solve": False}
        if job["pf"] is not None and (len(job["pf"]) != len(case.ballots) or any(set(p) != set(case.names) for p in job["pf"])):
            return True, "not applicable: the stored payments do not belong to this election"
        box = C12_mip.MipBox()
        try:
            dump = box.call(job)
        finally:
            box.close()
        if dump is not None and "error" in dump:
            return False, "still fails: priceable raised " + dump["error"] + " while building its program"
        return True, "property holds on the replayed input: the program is built"
    if part == "mes":
        from pabutools.rules import method_of_equal_shares

        inst, projs = core.build_instance(case)
        prof = core.build_profile(case, inst, projs)
        W = sorted(p.name for p in method_of_equal_shares(inst, prof, sat_class=core.sat_class(cfg["sat"])))
        D, _ = lp_oracle.price_system_exists(case.names, case.cost, case.budget, case.ballots, W, False, False)
        return D, ("Equal Shares outcome is priceable" if D else f"still fails: Equal Shares outcome {W} is not priceable")

    from ..vcheck import Ctx

    ctx = Ctx("C12", "quick", 0)
    box = solverbox.Box()
    try:
        one_search(ctx, box, case, cfg.get("W"), cfg["stable"], cfg["exhaustive"])
    finally:
        box.close()
    if ctx.violations:
        return False, "still fails: " + ctx.violations[0]["what"]
    return True, "property holds on the replayed input" + (" (solver fault, discarded)" if ctx.solver_faults else "")
