"""C09 — exhaustion wrappers stay feasible, extend their base rule and stop correctly."""
from __future__ import annotations

import copy
import json
import random
from fractions import Fraction as F

from .. import core, oracle, rulegen, rules, ruleprops
from ..core import Case, toF
from ..ruleprops import violation

RULE = ("seeded elections x wrapper in {completion_by_rule_combination, exhaustion_by_budget_increase, iterated Equal Shares} x base rule in "
        "{Equal Shares, Phragmen, greedy} x integer/fractional steps x resolute/irresolute x exhaustive_stop on/off; predicate = a plain "
        "re-implementation of the loop around the library's own base rule + feasibility/extension/exhaustiveness clauses + budget limit "
        "unchanged; iterated Equal Shares also against its stopping rule around the independent textbook procedure, incl. a stream with a "
        "supported project dearer than the budget limit; diffed with the Lean wrapper model; non-trivial = the wrapper made >=2 tries or chained >=2 rules")
ASSUMPTIONS = ["budget_step > 0 (a non-positive step does not terminate; excluded by the quantifier)", "bounded tries: budget_bound as documented"]


def base_callable(spec):
    import pabutools.rules as R

    if spec.startswith("mes:"):
        return R.method_of_equal_shares, {"sat_class": core.sat_class(spec[4:])}
    if spec.startswith("greedy:"):
        return R.greedy_utilitarian_welfare, {"sat_class": core.sat_class(spec[7:])}
    return R.sequential_phragmen, {}


def ids(case, alloc):
    return sorted(case.rank[p.name] for p in alloc)


def feasible(case, W):
    return sum((case.cost[case.names[i]] for i in W), F(0)) <= case.budget


def exhaustive(case, W):
    c = sum((case.cost[case.names[i]] for i in W), F(0))
    return all(i in W or c + case.cost[nm] > case.budget for i, nm in enumerate(case.names))


def gen(ctx, force_mode=None):
    rng = ctx.rng
    if rng.random() < 0.5:
        case = core.gen_election(rng, btypes=("app",), m_lo=1, m_hi=5, n_hi=5)
    else:
        # tie-rich: equal costs, duplicated ballots (several irresolute outcomes)
        from .C08 import tie_rich_election
        case = tie_rich_election(rng)
        if case.btype != "app":
            case = Case(case.projects, case.budget, "app", core.gen_ballots(rng, "app", [n for n, _ in case.projects], 1, 5, distinct_hi=2), case.seed)
    sat = rng.choice(["Cost_Sat", "Cardinality_Sat", "Relative_Cardinality_Sat"])
    specs = ["mes:" + sat, "greedy:" + sat, "phragmen"]
    mode = force_mode or rng.choice(["increase", "completion", "iterated"])
    if force_mode == "completion":
        # tie-rich election: the first rule returns several tied outcomes, some completed to exhaustive ones by the next rule
        from .C08 import tie_rich_election
        case = tie_rich_election(rng)
        if case.btype != "app" or rng.random() < 0.5:
            r = random.Random(rng.getrandbits(48))
            m = r.randint(3, 5)
            names = r.sample(core.NAME_POOL, m)
            costs = [F(r.choice([1, 2, 3, 4])) for _ in names]
            ballots = [[x for x in names if r.random() < 0.5] for _ in range(r.randint(2, 5))]
            case = Case(list(zip(names, costs)), F(r.randint(2, int(sum(costs)) + 1)), "app", ballots, seed=r.getrandbits(32))
    if force_mode == "iterated":
        # several rounds with binding budgets: larger elections, budget a fraction of the total cost
        case = core.gen_big_election(rng)
    if force_mode == "iterated-overbudget":
        # a widely supported project dearer than the whole budget limit: inflated voter budgets can pay for it
        case = core.gen_overbudget_election(rng)
        mode = "iterated"
    cfg = {"mode": mode, "tie": rng.choice(["lexico", "lexico", "min_cost", "max_cost", "app_score"]), "res": rng.random() < 0.5,
           "multi": rng.random() < 0.4, "init": []}
    if mode == "increase":
        cfg["rule"] = rng.choice(specs)
        cfg["step"] = F(rng.choice([1, F(1, 2), 2, F(1, 3), 3, F(7, 5)]))
        cfg["stop"] = rng.random() < 0.7
        cfg["bound_mult"] = rng.choice([None, None, 2, 3])
        if cfg["rule"] != "mes:" + sat and rng.random() < 0.4:
            cfg["init"] = core.gen_init(rng, case)
    elif mode == "completion":
        k = rng.randint(1, 3)
        # Equal Shares ignores the cost of an initial allocation (its quantifier is "initial allocation empty"),
        # so it can only be the FIRST rule of a completion sequence
        cfg["rules"] = [rng.choice(specs)] + [rng.choice(specs[1:]) for _ in range(k - 1)]
        if k >= 2 and rng.random() < 0.3 and getattr(ctx, "pid", None) == "C09":
            # only in C09's own streams: its `check` sets aside the cases in which the second Equal Shares gets a non-empty start
            # (OutsideQuantifier); C01 and C06 draw from this generator too and have no such guard (false alarm at seed 1, see DESIGN 10.4)
            # the SAME rule function twice with different parameters (round 8, C09-r8A: a memo keyed by the rule and the pending allocation
            # only): Equal Shares under one measure, then under another — judged only when the first run bought nothing (see OutsideQuantifier)
            other = [x for x in ("Cost_Sat", "Cardinality_Sat") if x != sat] or ["Cost_Sat"]
            cfg["rules"] = ["mes:" + sat, "mes:" + other[0]] + cfg["rules"][2:]
        if cfg["rules"][0].startswith("mes") is False and rng.random() < 0.3:
            cfg["init"] = core.gen_init(rng, case)
        if any(r.startswith("mes") for r in cfg["rules"][1:]) is False and rng.random() < 0.2:
            pass
    else:
        cfg["sat"] = sat
        cfg["inc"] = F(rng.choice([1, F(1, 2), F(1, 3), 2, F(3, 4), F(1, 4)]))
        if force_mode == "iterated":
            cfg["res"] = True
            cfg["sat"] = rng.choice(["Cost_Sat", "Cardinality_Sat"])
        if force_mode == "iterated-overbudget":
            cfg["res"] = rng.random() < 0.7 or len(case.projects) > 5
    return case, cfg


def step_of(case, cfg):
    """budget_step=None is documented as 1% of the instance's budget limit"""
    return cfg["step"] if cfg.get("step") is not None else case.budget / 100


def bound_of(case, cfg):
    """explicit bound, a multiple of the budget, or the documented default: budget limit x (number of voters + 1)"""
    if cfg.get("bound") is not None:
        return F(cfg["bound"])
    return case.budget * cfg["bound_mult"] if cfg.get("bound_mult") else case.budget * (len(case.ballots) + 1)


def gen_window(ctx):
    """budget-increase around Equal Shares on elections whose budget is LARGE against the granularity of the costs (budget 60..1000,
    integer costs between a fifth and two thirds of it): the outcome changes inside budget windows of a few units, so which budgets
    the wrapper tries — B, B + s, B + 2s, ... with the documented default s = B/100, up to and including the bound, and no other —
    decides what it returns.  Half of the calls leave budget_step at its default; the bound is the default, a multiple of the budget,
    or an explicit number that is NOT of the form B + k s"""
    rng = ctx.rng
    r = random.Random(rng.getrandbits(48))
    B = r.choice([60, 100, 100, 200, 1000, 1000])
    m = r.randint(2, 4)
    names = r.sample(core.NAME_POOL, m)
    costs = [F(r.randint(B // 5, (2 * B) // 3)) for _ in names]
    if r.random() < 0.4 and m >= 2:
        costs[1] = costs[0] + r.choice([1, 2, 3, 5])
    nv = r.randint(3, 8)
    ballots = []
    for i in range(nv):
        b = [x for x in names if r.random() < 0.45]
        if not b:
            b = [names[i % m]]
        ballots.append(b)
    case = Case(list(zip(names, costs)), F(B), "app", ballots, seed=r.getrandbits(32))
    cfg = {"mode": "increase", "tie": r.choice(["lexico", "lexico", "min_cost", "max_cost"]), "res": r.random() < 0.6, "multi": r.random() < 0.3, "init": [],
           "rule": "mes:" + r.choice(["Cost_Sat", "Cardinality_Sat"]), "stop": r.random() < 0.7}
    cfg["step"] = None if r.random() < 0.5 else F(B) * r.choice([F(3, 100), F(7, 300), F(1, 40), F(1, 20)])
    u = r.random()
    if u < 0.3:
        cfg["bound_mult"] = r.choice([2, 2, 3])
    elif u < 0.7:
        cfg["bound"] = F(B) * r.choice([F(11, 10), F(5, 4), F(3, 2), F(21, 20), 2]) + r.choice([0, 0, F(1, 2), 1, F(7, 3)])
    else:
        cfg["bound_mult"] = None  # the default bound: B (n + 1), a hundred tries per voter with the default step
        if nv > 5:
            cfg["bound_mult"] = 3
    return case, cfg


def run_wrapper(case, cfg, built):
    import pabutools.rules as R

    inst, prof, projs = built.inst, built.prof, built.projs
    tie = core.tie_rule(cfg["tie"], case, projs)
    init = [projs[n] for n in cfg["init"]]
    res = cfg["res"]
    if cfg["mode"] == "increase":
        f, kw = base_callable(cfg["rule"])
        params = dict(kw, tie_breaking=tie)
        kwargs = dict(rule_params=params, resoluteness=res, exhaustive_stop=cfg["stop"])
        if cfg.get("step") is not None:
            kwargs["budget_step"] = core.to_num(cfg["step"])  # else: the documented default
        if init:
            kwargs["initial_budget_allocation"] = core.shape_init(init, cfg.get("init_type") or core.pick_init_type(case.seed, len(init)))
        if cfg.get("bound") is not None or cfg.get("bound_mult"):
            kwargs["budget_bound"] = core.to_num(bound_of(case, cfg))
        return R.exhaustion_by_budget_increase(inst, prof, f, **kwargs)
    if cfg["mode"] == "completion":
        fs, ps = [], []
        for spec in cfg["rules"]:
            f, kw = base_callable(spec)
            fs.append(f)
            ps.append(dict(kw, tie_breaking=tie))
        kwargs = dict(rule_params=ps, resoluteness=res)
        if init:
            kwargs["initial_budget_allocation"] = core.shape_init(init, cfg.get("init_type") or core.pick_init_type(case.seed, len(init)))
        return R.completion_by_rule_combination(inst, prof, fs, **kwargs)
    return R.method_of_equal_shares(inst, prof, sat_class=core.sat_class(cfg["sat"]), tie_breaking=tie, resoluteness=res,
                                    voter_budget_increment=core.to_num(cfg["inc"]))


class OutsideQuantifier(Exception):
    """the sequence hands Equal Shares a non-empty start (it ignores the cost of an initial allocation: its quantifier is "initial
    allocation empty"): such a case is not judged"""


def reference(case, cfg, built):
    """plain loop around the library's own base rule; returns (answer, tries)"""
    from pabutools.election import Instance

    inst, prof, projs = built.inst, built.prof, built.projs
    tie = core.tie_rule(cfg["tie"], case, projs)
    res = cfg["res"]
    init = [projs[n] for n in cfg["init"]]

    def call(spec, budget, start):
        f, kw = base_callable(spec)
        inst2 = copy.deepcopy(inst)
        inst2.budget_limit = core.to_num(budget)
        out = f(inst2, prof, initial_budget_allocation=list(start), resoluteness=res, tie_breaking=tie, **kw)
        return [ids(case, out)] if res else [ids(case, o) for o in out]

    if cfg["mode"] == "increase":
        bound = bound_of(case, cfg)
        cur = case.budget
        prev = [sorted(case.ids(cfg["init"]))]
        tries = 0
        while cur <= bound:
            outs = call(cfg["rule"], cur, init)
            tries += 1
            if any(not feasible(case, W) for W in outs):
                return prev, tries
            if cfg["stop"] and any(exhaustive(case, W) for W in outs):
                return outs, tries
            cur += step_of(case, cfg)
            prev = outs
        return prev, tries
    if cfg["mode"] == "completion":
        allocs = [sorted(case.ids(cfg["init"]))]
        resl = []
        tries = 0
        for k_, spec in enumerate(cfg["rules"]):
            tries += 1
            outs = []
            for a in allocs:
                if k_ > 0 and spec.startswith("mes") and a:
                    raise OutsideQuantifier()
                outs.extend(call(spec, case.budget, [projs[case.names[i]] for i in a]))
            if res:
                if exhaustive(case, outs[0]):
                    return [outs[0]], tries
                allocs = [outs[0]]
            else:
                non = []
                for W in outs:
                    if exhaustive(case, W):
                        if W not in resl:
                            resl.append(W)
                    else:
                        non.append(W)
                if not non:
                    return resl, tries
                allocs = non
        return (allocs[:1] if res else resl + allocs), tries
    # iterated Equal Shares: per-voter budget b0, b0+inc, ...; exhaustive judged over buyable projects
    import pabutools.rules.mes.mes_rule as M
    from pabutools.fractions import frac

    n = len(case.ballots)
    sp = prof.as_sat_profile(core.sat_class(cfg["sat"]))
    U = oracle.utilities(cfg["sat"], case)
    buyable = [i for i, nm in enumerate(case.names) if case.cost[nm] > 0 and any(U[v][nm] > 0 for v in range(n))]
    zero = sorted(i for i, nm in enumerate(case.names) if case.cost[nm] == 0 and any(U[v][nm] > 0 for v in range(n)))
    b = case.budget / n
    prev = [zero]
    tries = 0
    while tries < 2000:
        out = M.method_of_equal_shares_scheme(inst, prof, sp, core.to_num(b), __import__("pabutools.rules", fromlist=["BudgetAllocation"]).BudgetAllocation(),
                                              tie, resoluteness=res, binary_sat=False)
        outs = [ids(case, out)] if res else [ids(case, o) for o in out]
        tries += 1
        if any(not feasible(case, W) for W in outs):
            return prev, tries
        def exh_buy(W):
            c = sum((case.cost[case.names[i]] for i in W), F(0))
            return all(i in W or c + case.cost[case.names[i]] > case.budget for i in buyable)
        if any(exh_buy(W) for W in outs):
            return outs, tries
        b += cfg["inc"]
        prev = outs
    return None, tries


def model_line(case, cfg, built):
    common = case.enc_common(built.entries(), built.enum())
    init = ".".join(str(i) for i in case.ids(cfg["init"]))
    if cfg["mode"] == "increase":
        bound = bound_of(case, cfg)
        return (f"exhaust mode=increase {common} tie={cfg['tie']} init={init} res={1 if cfg['res'] else 0} rule={cfg['rule']} "
                f"step={core.q2s(step_of(case, cfg))} bound={core.q2s(bound)} stop={1 if cfg['stop'] else 0} fuel=3000")
    if cfg["mode"] == "completion":
        return f"exhaust mode=completion {common} tie={cfg['tie']} init={init} res={1 if cfg['res'] else 0} rules={';'.join(cfg['rules'])}"
    return f"mes {common} tie={cfg['tie']} init= res={1 if cfg['res'] else 0} sat={cfg['sat']} inc={core.q2s(cfg['inc'])} fuel=3000"


def check(case, cfg, stats=None):
    stats = {} if stats is None else stats
    built = rules.Built(case, multi=cfg.get("multi", False))
    sig = {"mode": cfg["mode"], "res": cfg["res"], "rule": cfg.get("rule") or ",".join(cfg.get("rules", [])) or "mes"}
    budget_before = toF(built.inst.budget_limit)
    if cfg["mode"] == "completion" and any(r.startswith("mes") for r in cfg["rules"][1:]):
        try:
            reference(case, cfg, rules.Built(case, multi=cfg.get("multi", False)))
        except OutsideQuantifier:
            stats["outside"] = True
            return built, None, [], 0
        except Exception:  # noqa: BLE001 - judged below
            pass
    try:
        out = run_wrapper(case, cfg, built)
    except Exception as e:  # noqa: BLE001
        return built, None, [violation(f"wrapper raised {e!r}", case, cfg, sig=dict(sig, err=core.err_enum(e)))], 0
    vs = []
    if toF(built.inst.budget_limit) != budget_before:
        vs.append(violation("the instance's budget limit was changed by the wrapper", case, cfg, sig=dict(sig, clause="budget")))
    outs = [ids(case, out)] if cfg["res"] else [ids(case, o) for o in out]
    for W in outs:
        if not feasible(case, W):
            vs.append(violation("wrapper outcome infeasible for the original budget", case, cfg, impl=W, sig=dict(sig, clause="feasible")))
        if not set(case.ids(cfg["init"])) <= set(W):
            vs.append(violation("wrapper outcome does not contain the initial allocation", case, cfg, impl=W, sig=dict(sig, clause="extends")))
    ref, tries = reference(case, cfg, built)
    if ref is not None and sorted(outs) != sorted(ref):
        vs.append(violation("wrapper result differs from the plain loop around its base rule", case, cfg, impl=sorted(outs), expected=sorted(ref), sig=dict(sig, clause="loop")))
    if cfg["mode"] == "iterated":
        # the same stopping rule around the INDEPENDENT textbook Equal Shares (harness/oracle.py): the loop above runs the
        # library's own scheme, so whatever that scheme does wrongly at an inflated voter budget it does on both sides
        U = oracle.utilities(cfg["sat"], case)
        exp, tries_o, why, last = oracle.mes_iterated(case, U, cfg["inc"], tie=cfg["tie"], branch=not cfg["res"])
        if exp is not None:
            stats["why"] = why
            stats["dear_bought"] = why == "infeasible" and any(case.cost[nm] > case.budget for W in last for nm in W)
            exp_ids = sorted(sorted(case.rank[p] for p in W) for W in exp)
            if sorted(outs) != exp_ids:
                vs.append(violation(f"iterated Equal Shares does not return what its stopping rule prescribes (textbook runs: stop at try {tries_o}, {why})",
                                    case, cfg, impl=sorted(outs), expected=exp_ids, sig=dict(sig, clause="stopping_rule")))
    if cfg["mode"] == "completion":
        # every outcome of the first rule is contained in some returned allocation
        f, kw = base_callable(cfg["rules"][0])
        tie = core.tie_rule(cfg["tie"], case, built.projs)
        first = f(built.inst, built.prof, initial_budget_allocation=[built.projs[n] for n in cfg["init"]], resoluteness=cfg["res"], tie_breaking=tie, **kw)
        firsts = [ids(case, first)] if cfg["res"] else [ids(case, o) for o in first]
        for Fo in firsts:
            if not any(set(Fo) <= set(W) for W in outs):
                vs.append(violation("an outcome of the first rule has no completion among the returned allocations", case, cfg, impl=sorted(outs), expected=Fo, sig=dict(sig, clause="keeps_all")))
        # exhaustive whenever the last rule is (greedy is always exhaustive)
        if cfg["rules"][-1].startswith("greedy"):
            for W in outs:
                if not exhaustive(case, W):
                    vs.append(violation("completion ending with greedy returned a non-exhaustive allocation", case, cfg, impl=W, sig=dict(sig, clause="exhaustive")))
    return built, outs, vs, tries


def run(ctx, n=None, compare=True):
    ctx.rule = RULE
    n = n or ctx.scale(1500, 12000)
    n_iter = ctx.scale(2500, 20000)  # extra stream: iterated Equal Shares over several budget rounds on larger elections
    n_comp = ctx.scale(5000, 25000)  # extra stream: irresolute completion on tie-rich elections
    n_over = ctx.scale(1500, 12000)  # round 4, drawn last: iterated Equal Shares with a supported project dearer than the budget limit
    n_win = ctx.scale(700, 5000)  # round 6, drawn last: budget windows, default step, bounds off the grid
    lines, info = [], []
    for k in range(n + n_iter + n_comp + n_over + n_win):
        if ctx.budget_s is not None and ctx.elapsed() > ctx.budget_s:
            break
        if k >= n + n_iter + n_comp + n_over:
            case, cfg = gen_window(ctx)
            ctx.count("stream", "budget windows: " + ("default step" if cfg["step"] is None else "explicit step") + ", " +
                      ("explicit bound" if cfg.get("bound") is not None else "bound = multiple of the budget" if cfg.get("bound_mult") else "default bound"))
        else:
            case, cfg = gen(ctx, ("iterated" if k < n + n_iter else "completion" if k < n + n_iter + n_comp else "iterated-overbudget") if k >= n else None)
        if n + n_iter <= k < n + n_iter + n_comp:
            cfg["res"] = False
            cfg["init"] = []
            # Equal Shares first (several tied, usually non-exhaustive outcomes), then Phragmén (completes some of them to
            # exhaustive allocations and leaves others unfinished), sometimes greedy last
            cfg["rules"] = ["mes:" + ctx.rng.choice(["Cost_Sat", "Cardinality_Sat"]), "phragmen"] + (["greedy:Cost_Sat"] if ctx.rng.random() < 0.4 else [])
        stats = {}
        built, outs, vs, tries = check(case, cfg, stats)
        ctx.evaluations += 1
        ctx.count("mode", cfg["mode"])
        if n + n_iter + n_comp <= k < n + n_iter + n_comp + n_over:
            ctx.count("stream", "iterated: supported project dearer than the budget limit")
        if stats.get("why"):
            ctx.count("iterated_stop", stats["why"] + (": a project dearer than the budget limit was paid for" if stats.get("dear_bought") else ""))
        ctx.count("res", str(cfg["res"]))
        ctx.count("tries", str(min(tries, 10)))
        ctx.violations.extend(vs)
        if tries >= 2:
            ctx.nontrivial.add(case.key() + json.dumps(ruleprops.cfg_json(cfg), sort_keys=True, default=str))
        if compare and outs is not None:
            lines.append(model_line(case, cfg, built))
            info.append((core.fmt_outcome(outs[0]) if cfg["res"] else core.fmt_outcomes(outs), case, cfg))
    if compare and lines:
        res = core.run_driver(lines)
        for line, o, (impl_s, case, cfg) in zip(lines, res, info):
            if o.strip() != impl_s.strip():
                ctx.disagreements.append({"line": line, "impl": impl_s, "model": o.strip(), "case": case.to_json(), "cfg": ruleprops.cfg_json(cfg)})
            ctx.sample(f"{line} -> impl: {impl_s} | model: {o.strip()}", cap=5)


def search(ctx, disagreements):
    run(ctx, n=4000, compare=False)


def replay(payload):
    case = Case.from_json(payload["case"])
    cfg = dict(payload["cfg"])
    for k in ("step", "inc", "bound"):
        if cfg.get(k) is not None:
            cfg[k] = F(cfg[k])
    built, outs, vs, tries = check(case, cfg)
    if vs:
        return False, "still fails: " + vs[0]["what"]
    return True, "property holds on the replayed input"
