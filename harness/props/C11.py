"""C11 — Pabulib files parse to the election they describe and round-trip losslessly.

Three streams (DESIGN §5 C11):
 (i)   generated elections of the four vote types -> real objects -> election_as_pabulib_string ->
       parse_pabulib_from_string; predicate: the parsed election equals the generator's ground truth
       (modulo the documented normal form of the legal limits and the fields the writer fills in), and
       a second round trip changes nothing;
 (ii)  generated FILES (extra columns, blank lines, reordered META keys, `none` cells, decimal commas)
       parsed by the library; predicate: equals what an independent reference reader (format
       specification, Fractions) reads from the same rows and what the generator wrote;
 (iii) the real corpus under tests/PaBuLib: same predicate with the reference reader.
 (iv)  sequences of generated files parsed one after the other in ONE process, the later ones reusing the project ids of the
       first with other costs / categories / targets (then the first again); predicate of (ii) on every file;
 (v)   edit-then-write histories: an election (built through the API, parsed from a generated file, or parsed from a file the
       library wrote) is edited through the public API - budget limit, project cost / categories / metadata, project added or
       removed, vote added / removed / replaced / changed in place, voter metadata, instance metadata including stale derived
       entries - then written; predicate: the file written describes the election as it is NOW (read with the independent
       reference reader, and parsed back by the library).  (iv) and (v) are predicate-level only.
In every stream a parsed election is also looked at INSIDE its ballots: the Project objects that are ballot members / keys must
carry the cost, categories and targets the PROJECTS section of the same file gives them (`members_bad`).
In the first three the CSV-split rows are also sent to the Lean model (`pabulib` driver command); its parsed
election must equal the library's, and `writeRows` of it must equal the library's written file modulo
row order of PROJECTS/VOTES and column order (natsort and set iteration order are not modelled).
"""
from __future__ import annotations

import csv
import io
import json
import os
import random
from collections import Counter
from fractions import Fraction as F

from .. import core

RULE = ("(i) seeded elections (4 vote types x list/multi profile x int/decimal/third costs x extra project/vote/META columns x "
        "limits None/0/below/at/above default x empty and repeated ballots; separate sub-stream with ';' and quotes in names/values), "
        "(ii) seeded files (column order, blank lines, none cells, decimal commas, upper/lower-case section lines), (iii) real corpus files, "
        "(iv) 2-3 seeded files sharing project ids with different cost/categories/targets parsed in one process, (v) 1-4 API edits "
        "(budget, cost, categories, project/vote added or removed, ballot replaced or changed in place, project/voter/instance metadata, "
        "intermediate writes) of a built / parsed / written-and-parsed election, then write; (vi) the file API (C11_file.py): bytes on "
        "disk with \\n / \\r\\n / \\r row ends, BOM, line breaks and \\r\\n inside quoted fields, parse_pabulib(path) vs ground truth vs "
        "the string API, write_pabulib + parse_pabulib round trips; "
        "non-trivial = at least 2 projects and 2 votes and at least one non-mandatory column; distinct by hash of the CSV rows")
ASSUMPTIONS = [
    "exact-arithmetic mode (FRACTION = gmpy2)",
    "names/values are stripped, non-empty where they are identifiers, contain no ',' when they are project names or categories, "
    "no line separators, and are not the words none/meta/projects/votes (limits of the file format itself)",
    "ballots are compared as a multiset after a round trip (the writer orders votes by voter id)",
    "legal limits are compared in the parser's normal form (min_length 1, max_length >= #projects, min cost/points 0, "
    "max cost >= budget, max_points == max_sum_points all mean 'no limit')",
    "edit histories: list profiles only; legal limits are not edited; when the META block of the source file holds limit entries and the "
    "budget or the number of projects is edited afterwards, the limits are only compared between the two readers (stale entry vs live "
    "attribute is not decided by the statement); removing a project also removes its entry of the metadata table",
]
TRUSTED = ["CPython 3.12 csv/io.StringIO semantics as modelled in PabuModel/Csv.lean (diffed against the real module by C11_csv.py)", "natsort (row order of the written file)", "str(mpq)/mpq(str) number codec",
           "the model reads numbers of the forms -?digits, -?digits.digits, -?digits/digits only"]

LIMIT_KEYS = ["min_length", "max_length", "min_sum_cost", "max_sum_cost", "min_points", "max_points", "min_sum_points", "max_sum_points"]
LIMIT_ATTRS = ["legal_min_length", "legal_max_length", "legal_min_cost", "legal_max_cost", "legal_min_score", "legal_max_score",
               "legal_min_total_score", "legal_max_total_score"]
TYPE_LIMITS = {"approval": [0, 1, 2, 3], "scoring": [0, 1, 4, 5], "cumulative": [0, 1, 4, 5, 6, 7], "ordinal": [0, 1]}
DERIVED_META = ["num_projects", "num_votes", "budget", "vote_type"]
MANDATORY = ["description", "country", "unit", "instance", "rule"]

# ----------------------------------------------------------------------------------------------
# protocol encoding (see lean/Driver/Pabulib.lean)

_SAFE = set("abcdefghijklmnopqrstuvwxyzABCDEFGHIJKLMNOPQRSTUVWXYZ0123456789_.-/")


def esc(s: str) -> str:
    return "".join(c if c in _SAFE else "%%%x;" % ord(c) for c in s)


def unesc(s: str) -> str:
    if "%" not in s:
        return s
    out = []
    i = 0
    while i < len(s):
        if s[i] == "%":
            j = s.index(";", i)
            out.append(chr(int(s[i + 1 : j], 16)))
            i = j + 1
        else:
            out.append(s[i])
            i += 1
    return "".join(out)


def enc_rows(rows) -> str:
    return "".join("".join(esc(f) + "," for f in row) + "|" for row in rows)


def term_split(s: str, t: str):
    if s == "":
        return []
    parts = s.split(t)
    assert parts[-1] == "", (s[-40:], t)
    return parts[:-1]


def dec_rows(s: str):
    return [[unesc(f) for f in term_split(r, ",")] for r in term_split(s, "|")]


def dec_map(s: str):
    d = {}
    for kv in term_split(s, "+"):
        k, v = kv.split("~")
        d[unesc(k)] = unesc(v)
    return d


def dec_opt(s):
    return None if s == "x" else F(s)


def parse_model_answer(ans: str):
    """-> ('err', cls) or ('ok', canon, written_rows)"""
    if ans.startswith("err "):
        return ("err", ans[4:].strip())
    if not ans.startswith("ok "):
        raise core.DriverError("unexpected driver answer: %r" % ans[:200])
    fields = {}
    for tok in ans[3:].split(" "):
        k, _, v = tok.partition("=")
        fields[k] = v
    canon = {"T": fields["T"], "B": F(fields["B"]), "L": [dec_opt(x) for x in term_split(fields["L"], ",")], "M": dec_map(fields["M"])}
    P = {}
    for rec in term_split(fields["P"], "|"):
        name, cost, cats, tgts, md = rec.split(":")
        P[unesc(name)] = (F(cost), tuple(unesc(x) for x in term_split(cats, "+")), tuple(unesc(x) for x in term_split(tgts, "+")), dec_map(md))
    canon["P"] = P
    V = []
    for rec in term_split(fields["V"], "|"):
        kind, items, pts, md = rec.split(":")
        names = [unesc(x) for x in term_split(items, "+")]
        if kind == "a":
            b = ("a", tuple(sorted(names)))
        elif kind == "o":
            b = ("o", tuple(names))
        else:
            b = ("c", tuple(sorted(zip(names, [F(x) for x in term_split(pts, "+")]))))
        V.append((b, dec_map(md)))
    canon["V"] = V
    return ("ok", canon, dec_rows(fields["W"]))


# ----------------------------------------------------------------------------------------------
# the real library


def lib():
    from pabutools.election import pabulib as pl  # noqa: WPS433 (imported late: PABU_REPO decides which tree)

    return pl


def lib_classes():
    import pabutools.election as pe

    return pe


def canon_lib(instance, profile):
    pe = lib_classes()
    if profile is None:
        return None
    L = [getattr(profile, a, None) for a in LIMIT_ATTRS]
    L = [None if x is None else core.toF(x) for x in L]
    P = {}
    for p in instance:
        md = {k: v for k, v in instance.project_meta.get(p, {}).items() if k not in ("categories", "targets")}
        P[p.name] = (core.toF(p.cost), tuple(sorted(p.categories)), tuple(sorted(p.targets)), md)
    V = []
    VP = {}
    for b in profile:
        for p in b:
            # the Project objects used as ballot members / keys, with the attributes THEY carry
            seen = VP.setdefault(p.name, [])
            t = (core.toF(p.cost), tuple(sorted(p.categories)), tuple(sorted(p.targets)))
            if t not in seen:
                seen.append(t)
        if isinstance(b, pe.AbstractApprovalBallot):
            cb = ("a", tuple(sorted(p.name for p in b)))
        elif isinstance(b, pe.AbstractCardinalBallot):
            cb = ("c", tuple(sorted((p.name, core.toF(s)) for p, s in b.items())))
        else:
            cb = ("o", tuple(p.name for p in b))
        for _ in range(profile.multiplicity(b)):
            V.append((cb, dict(b.meta)))
    return {"T": instance.meta.get("vote_type"), "B": core.toF(instance.budget_limit), "L": L, "M": dict(instance.meta), "P": P, "V": V, "VP": VP}


def members_bad(c):
    """a parsed election looked at INSIDE its ballots: every Project object that is a member (or key) of a ballot must carry
    the cost, categories and targets that the PROJECTS section of the same file gives to that project id (c['P'] is compared
    with the file separately).  None, or a message"""
    for name, seen in c.get("VP", {}).items():
        want = c["P"].get(name)
        if want is None:
            return f"a ballot contains project {name!r}, which is not a project of the parsed instance"
        for t in seen:
            if t != want[:3]:
                return (f"project {name!r} inside a ballot has cost {t[0]}, categories {list(t[1])!r}, targets {list(t[2])!r}; the PROJECTS section "
                        f"of the same file says cost {want[0]}, categories {list(want[1])!r}, targets {list(want[2])!r}")
    return None


def err_class(exc) -> str:
    if isinstance(exc, KeyError):
        return "key"
    if isinstance(exc, IndexError):
        return "index"
    if isinstance(exc, ZeroDivisionError):
        return "zeroDiv"
    if isinstance(exc, ValueError):
        return "value"
    if isinstance(exc, NotImplementedError):
        return "notImpl"
    if isinstance(exc, StopIteration):
        return "stop"
    return type(exc).__name__


def csv_rows(text: str):
    """rows exactly as the parser sees them"""
    return [list(r) for r in csv.reader(text.splitlines(), delimiter=";")]


def lib_parse(text):
    """-> ('ok', canon, (instance, profile)) | ('err', cls, exc)"""
    try:
        inst, prof = lib().parse_pabulib_from_string(text)
    except Exception as e:  # noqa: BLE001
        return ("err", err_class(e), e)
    if prof is None:
        return ("err", "notImpl", None)
    return ("ok", canon_lib(inst, prof), (inst, prof))


# ----------------------------------------------------------------------------------------------
# independent reference reader (written from the format description; Fractions only)


def ref_num(s):
    s = s.strip().replace(",", ".")
    if "/" in s:
        a, b = s.split("/")
        return F(int(a), int(b))
    return F(s)


def ref_norm_limits(vt, raw, m, budget):
    mn, mx, mnc, mxc, mns, mxs, mnt, mxt = raw
    if mn is not None and mn == 1:
        mn = None
    if mx is not None and mx >= m:
        mx = None
    if mnc is not None and mnc == 0:
        mnc = None
    if mxc is not None and mxc >= budget:
        mxc = None
    if mns is not None and mns == 0:
        mns = None
    if mxs is not None and mxt is not None and mxs == mxt:
        mxs = None
    if mnt is not None and mnt == 0:
        mnt = None
    out = [mn, mx, mnc, mxc, mns, mxs, mnt, mxt]
    return [out[i] if i in TYPE_LIMITS[vt] else None for i in range(8)]


def ref_parse(rows):
    """the election a well-formed file describes (no error handling: a malformed file raises)"""
    tables = {"meta": [], "projects": [], "votes": []}
    headers = {}
    cur = None
    it = iter(rows)
    for row in it:
        if len(row) == 0 or (len(row) == 1 and row[0].strip() == ""):
            continue
        w = row[0].strip().lower()
        if w in tables:
            cur = w
            headers[cur] = [h.strip() for h in next(it)]
        else:
            tables[cur].append((headers[cur], row))
    M = {}
    for _, row in tables["meta"]:
        M[row[0].strip()] = row[1].strip()
    vt = M["vote_type"]
    budget = ref_num(M["budget"])
    P = {}
    for header, row in tables["projects"]:
        name = row[0].strip()
        md, cats, tgts = {}, (), ()
        for h, cell in zip(header, row):
            if cell.strip().lower() == "none":
                continue
            if h in ("category", "categories"):
                cats = tuple(sorted({x.strip() for x in cell.split(",")}))
            elif h in ("target", "targets"):
                tgts = tuple(sorted({x.strip() for x in cell.split(",")}))
            else:
                md[h] = cell.strip()
        if name in P:  # a repeated project id keeps the first cost; not expected in well-formed files
            P[name] = (P[name][0], P[name][1], P[name][2], md)
        else:
            P[name] = (ref_num(md["cost"]), cats, tgts, md)
    V = []
    for header, row in tables["votes"]:
        md = {}
        for h, cell in zip(header, row):
            if cell.strip().lower() != "none":
                md[h] = cell.strip()
        vote_field = md.pop("vote")
        names = vote_field.split(",") if vote_field != "" else []
        for n in names:
            if n not in P:
                raise KeyError(n)
        if vt == "approval":
            b = ("a", tuple(sorted(set(names))))
        elif vt == "ordinal":
            b = ("o", tuple(dict.fromkeys(names)))
        else:
            pts = md.pop("points").split(",")
            d = {}
            for i, n in enumerate(names):
                d[n] = ref_num(pts[i])
            b = ("c", tuple(sorted(d.items())))
        V.append((b, md))
    raw = []
    for i, k in enumerate(LIMIT_KEYS):
        if k in M:
            raw.append(F(int(M[k])) if i < 2 else ref_num(M[k]))
        else:
            raw.append(None)
    return {"T": vt, "B": budget, "L": ref_norm_limits(vt, raw, len(P), budget), "M": M, "P": P, "V": V}


# ----------------------------------------------------------------------------------------------
# comparing canonical elections


def diff_canon(a, b, votes="list"):
    """first difference between two canonical elections (None if equal)"""
    for k in ("T", "B", "L", "M"):
        if a[k] != b[k]:
            if k == "M":
                for kk in sorted(set(a[k]) | set(b[k])):
                    if a[k].get(kk) != b[k].get(kk):
                        return f"META[{kk!r}]: {a[k].get(kk)!r} vs {b[k].get(kk)!r}"
            return f"{k}: {a[k]!r} vs {b[k]!r}"
    if set(a["P"]) != set(b["P"]):
        return f"project names: {sorted(set(a['P']) ^ set(b['P']))[:5]!r} differ"
    for n in a["P"]:
        if a["P"][n] != b["P"][n]:
            return f"project {n!r}: {a['P'][n]!r} vs {b['P'][n]!r}"
    va, vb = a["V"], b["V"]
    if len(va) != len(vb):
        return f"number of votes {len(va)} vs {len(vb)}"
    if votes == "list":
        for i, (x, y) in enumerate(zip(va, vb)):
            if x != y:
                return f"vote #{i}: {x!r} vs {y!r}"
    else:
        ca = Counter(_vkey(x) for x in va)
        cb = Counter(_vkey(x) for x in vb)
        if ca != cb:
            d = (ca - cb) + (cb - ca)
            return f"ballot multisets differ, e.g. {list(d)[:2]!r}"
    return None


def _vkey(v):
    return (v[0], tuple(sorted(v[1].items())))


def canon_json(c):
    if c is None:
        return None
    return {
        "T": c["T"],
        "B": str(c["B"]),
        "L": [None if x is None else str(x) for x in c["L"]],
        "M": c["M"],
        "P": {n: [str(v[0]), list(v[1]), list(v[2]), v[3]] for n, v in c["P"].items()},
        "V": [[[v[0][0], [list(x) if isinstance(x, tuple) else x for x in v[0][1]]], v[1]] for v in c["V"][:50]],
    }


# ----------------------------------------------------------------------------------------------
# written files, modulo row and column order


def canon_written(rows):
    """{'META': [(k, v)…], 'PROJECTS': Counter(frozenset row dict), 'VOTES': Counter(…)}; None cells dropped"""
    out = {"META": [], "PROJECTS": Counter(), "VOTES": Counter(), "dupcols": False}
    cur, header = None, None
    i = 0
    while i < len(rows):
        row = rows[i]
        if len(row) == 1 and row[0] in ("META", "PROJECTS", "VOTES"):
            cur = row[0]
            header = rows[i + 1]
            if len(set(header)) != len(header):
                out["dupcols"] = True
            i += 2
            continue
        if cur == "META":
            out["META"].append((row[0], row[1]))
        else:
            out[cur][frozenset((h, c) for h, c in zip(header, row) if c != "None")] += 1
        i += 1
    return out


def diff_written(lib_rows, model_rows, vtype):
    a, b = canon_written(lib_rows), canon_written(model_rows)
    if a["dupcols"]:
        return "library wrote a header with a repeated column"
    if dict(a["META"]) != dict(b["META"]) or len(a["META"]) != len(b["META"]):
        da, db = dict(a["META"]), dict(b["META"])
        for k in sorted(set(da) | set(db)):
            if da.get(k) != db.get(k):
                return f"written META[{k!r}]: {da.get(k)!r} vs {db.get(k)!r}"
        return "written META has repeated keys"
    if a["PROJECTS"] != b["PROJECTS"]:
        # categories/targets are sets: compare the comma lists as sets
        if _setify(a["PROJECTS"], ("category", "target")) != _setify(b["PROJECTS"], ("category", "target")):
            d = list((_setify(a["PROJECTS"], ("category", "target")) - _setify(b["PROJECTS"], ("category", "target"))).items())[:1]
            return f"written PROJECTS rows differ, e.g. {d!r}"
    if _votes_norm(a["VOTES"], vtype) != _votes_norm(b["VOTES"], vtype):
        d = list((_votes_norm(a["VOTES"], vtype) - _votes_norm(b["VOTES"], vtype)).items())[:1]
        return f"written VOTES rows differ, e.g. {d!r}"
    return None


def _setify(counter, cols):
    out = Counter()
    for row, n in counter.items():
        out[frozenset((h, frozenset(c.split(",")) if h in cols else c) for h, c in row)] += n
    return out


def _votes_norm(counter, vtype):
    """the order inside an approval vote / a cardinal vote+points pair is not part of the ballot"""
    out = Counter()
    for row, n in counter.items():
        d = dict(row)
        if vtype == "approval" and "vote" in d:
            d["vote"] = frozenset(d["vote"].split(",")) if d["vote"] else frozenset()
        elif vtype in ("scoring", "cumulative") and "vote" in d and "points" in d:
            names = d["vote"].split(",") if d["vote"] else []
            pts = d.pop("points").split(",") if d["points"] else []
            d["vote"] = frozenset(zip(names, [ref_num(x) for x in pts]))
        out[frozenset(d.items())] += n
    return out


# ----------------------------------------------------------------------------------------------
# generators

PLAIN_NAMES = ["1", "2", "3", "10", "21", "007", "p1", "p2", "A", "b", "Żółw", "x y", "it's", "n-1", "P 12", "é", "3.5", "100"]
SPECIAL_NAMES = ["a;b", '"q"', 'x"y', ";", '"', 'say "hi"', 'semi;colon "and" quote', "'s;", '""', 'tail"']
# column names are data: capitals, digits and inner spaces must come back as written (C11-r7B: headers lower-cased while parsing)
PROJ_KEYS = ["name", "votes", "selected", "district", "public_id", "score", "latitude", "Latitude", "ZIP", "Public Id", "subCategory"]
VOTE_KEYS = ["age", "sex", "voting_method", "district", "neighborhood", "education", "District", "ZIP", "Age Group", "votingMethod"]
META_KEYS = ["description", "country", "unit", "subunit", "instance", "rule", "date_begin", "date_end", "language", "edition", "district",
             "comment", "currency", "default_score", "scoring_fn", "fully_funded", "experimental"]
PLAIN_VALUES = ["", "0", "1", "Some text", "x, y", "12.5", "Ünï cödé", "a  b", "N/A", "F", "M", "internet", "2017", "nonE x", "-"]
SPECIAL_VALUES = ["v;w", '"', 'a"b', '"quoted"', ';;', 'He said "no"; left', '";"']
CATS = ["education", "sport", "public space", "health", "culture", "env. protection", "Zieleń"]
TARGETS = ["children", "seniors", "adults", "families with children", "people with disabilities"]


def gen_number(rng, lo=1, hi=5000, kinds=("int", "int", "dec", "third")):
    k = rng.choice(kinds)
    if k == "int":
        return F(rng.randint(lo, hi))
    if k == "dec":
        return F(rng.randint(lo * 10, hi * 10), rng.choice([2, 4, 5, 10, 100]))
    return F(rng.randint(lo * 3, hi * 3), 3)


def gen_ground_truth(rng, special=False, vtype=None):
    """an election as plain data"""
    vtype = vtype or rng.choice(["approval", "cumulative", "scoring", "ordinal"])
    names_pool = PLAIN_NAMES + (SPECIAL_NAMES if special else [])
    values = PLAIN_VALUES + (SPECIAL_VALUES * 2 if special else [])
    m = rng.choice([0, 1, 2, 3, 3, 4, 5, 6, 8])
    if special and m < 2:
        m = 3
    names = rng.sample(names_pool, m)
    if special and not any(n in SPECIAL_NAMES for n in names) and m:
        names[0] = rng.choice(SPECIAL_NAMES)
        names = list(dict.fromkeys(names))
    pkeys = rng.sample(PROJ_KEYS, rng.choice([0, 0, 1, 2, 3]))
    projects = []
    for n in names:
        md = {k: rng.choice(values) for k in pkeys if rng.random() < 0.8}
        cats = sorted(rng.sample(CATS, rng.choice([0, 0, 1, 2]))) if rng.random() < 0.5 else []
        tgts = sorted(rng.sample(TARGETS, rng.choice([0, 1, 2]))) if rng.random() < 0.3 else []
        projects.append({"name": n, "cost": gen_number(rng, 0 if rng.random() < 0.1 else 1), "cats": cats, "targets": tgts, "md": md})
    budget = gen_number(rng, 1, 20000)
    # votes
    nv = rng.choice([0, 1, 2, 3, 5, 8, 12])
    vkeys = rng.sample(VOTE_KEYS, rng.choice([0, 0, 1, 2, 4]))
    idmode = rng.choice(["all", "none", "none", "mixed"])
    distinct = []
    for _ in range(max(1, (nv + 1) // 2)):
        k = rng.randint(0, len(names)) if rng.random() > 0.15 else 0
        items = rng.sample(names, k)
        if vtype == "approval":
            b = {"kind": "a", "items": sorted(items)}
        elif vtype == "ordinal":
            b = {"kind": "o", "items": items}
        else:
            b = {"kind": "c", "items": items, "points": [rng.choice([F(0), F(1), F(2), F(3), F(5), F(1, 3), F(5, 2), F(7, 10), F(-1)]) for _ in items]}
        distinct.append(b)
    votes = []
    for i in range(nv):
        b = dict(rng.choice(distinct))
        md = {k: rng.choice(values) for k in vkeys if rng.random() < 0.8}
        if idmode == "all" or (idmode == "mixed" and rng.random() < 0.5):
            md["voter_id"] = str(1000 + 7 * i)
        votes.append({"ballot": b, "md": md})
    multi = rng.random() < 0.2
    if multi:
        for v in votes:
            v["md"] = {}
            b = v["ballot"]
            if b["kind"] == "c":
                # equal cardinal ballots get one insertion order: whether frozen ballots that differ only in
                # insertion order are merged is another property's business (C16)
                pairs = sorted(zip(b["items"], b["points"]))
                v["ballot"] = {"kind": "c", "items": [n for n, _ in pairs], "points": [x for _, x in pairs]}
    # limits
    lim = [None] * 8
    T = rng.choice([F(0), F(7), F(10)])
    choices = {
        0: [0, 1, 2], 1: [0, 1, max(m - 1, 0), m, m + 3],
        2: [F(0), F(1), F(1, 2)], 3: [F(0), budget / 2, budget, budget + 1],
        4: [F(0), F(1)], 5: [F(0), F(3), T, F(10)], 6: [F(0), F(2)], 7: [T],
    }
    for i in TYPE_LIMITS[vtype]:
        if rng.random() < 0.5:
            lim[i] = F(rng.choice(choices[i]))
    # instance meta
    md = {k: rng.choice(values) for k in rng.sample(META_KEYS, rng.randint(0, 8))}
    if rng.random() < 0.2:
        md[rng.choice(DERIVED_META[:2])] = "999"  # stale derived entries must be overridden by the writer
    return {"vtype": vtype, "budget": budget, "md": md, "projects": projects, "votes": votes, "limits": lim, "multi": multi, "special": special,
            "omit_empty_pm": rng.random() < 0.3}


def gt_json(gt):
    def num(x):
        return None if x is None else str(x)

    return {
        "vtype": gt["vtype"], "budget": str(gt["budget"]), "md": gt["md"], "multi": gt["multi"], "special": gt.get("special", False),
        "omit_empty_pm": gt.get("omit_empty_pm", False),
        "limits": [num(x) for x in gt["limits"]],
        "projects": [{**p, "cost": str(p["cost"])} for p in gt["projects"]],
        "votes": [{"md": v["md"], "ballot": {**v["ballot"], **({"points": [str(x) for x in v["ballot"]["points"]]} if "points" in v["ballot"] else {})}}
                  for v in gt["votes"]],
    }


def gt_from_json(d):
    def num(x):
        return None if x is None else F(x)

    return {
        "vtype": d["vtype"], "budget": F(d["budget"]), "md": d["md"], "multi": d["multi"], "special": d.get("special", False),
        "omit_empty_pm": d.get("omit_empty_pm", False),
        "limits": [num(x) for x in d["limits"]],
        "projects": [{**p, "cost": F(p["cost"])} for p in d["projects"]],
        "votes": [{"md": v["md"], "ballot": {**v["ballot"], **({"points": [F(x) for x in v["ballot"]["points"]]} if "points" in v["ballot"] else {})}}
                  for v in d["votes"]],
    }


def to_mpq(x):
    from pabutools.fractions import frac

    x = F(x)
    return int(x) if x.denominator == 1 else frac(int(x.numerator), int(x.denominator))


def build_objects(gt):
    """the real Instance / Profile objects of a ground-truth election"""
    pe = lib_classes()
    projs = {}
    inst = pe.Instance()
    for p in gt["projects"]:
        pr = pe.Project(p["name"], to_mpq(p["cost"]), categories=set(p["cats"]), targets=set(p["targets"]))
        projs[p["name"]] = pr
        inst.add(pr)
        if p["md"] or not gt.get("omit_empty_pm"):
            inst.project_meta[pr] = dict(p["md"])
    inst.budget_limit = to_mpq(gt["budget"])
    inst.meta = dict(gt["md"])
    ballots = []
    for v in gt["votes"]:
        b = v["ballot"]
        if b["kind"] == "a":
            ob = pe.ApprovalBallot([projs[n] for n in b["items"]])
        elif b["kind"] == "o":
            ob = pe.OrdinalBallot([projs[n] for n in b["items"]])
        elif gt["vtype"] == "cumulative":
            ob = pe.CumulativeBallot({projs[n]: to_mpq(s) for n, s in zip(b["items"], b["points"])})
        else:
            ob = pe.CardinalBallot({projs[n]: to_mpq(s) for n, s in zip(b["items"], b["points"])})
        ob.meta = dict(v["md"])  # set after construction, as the parser does
        ballots.append(ob)
    lim = gt["limits"]
    kw = {}
    for i in TYPE_LIMITS[gt["vtype"]]:
        if lim[i] is not None:
            kw[LIMIT_ATTRS[i]] = int(lim[i]) if i < 2 else to_mpq(lim[i])
    cls = {"approval": (pe.ApprovalProfile, pe.ApprovalMultiProfile), "ordinal": (pe.OrdinalProfile, pe.OrdinalMultiProfile),
           "scoring": (pe.CardinalProfile, pe.CardinalMultiProfile), "cumulative": (pe.CumulativeProfile, pe.CumulativeMultiProfile)}[gt["vtype"]]
    if gt["multi"]:
        prof = cls[1]([b.frozen() for b in ballots], **kw)
    else:
        prof = cls[0](ballots, **kw)
    return inst, prof


def expected_after_round_trip(gt):
    """the canonical election the first round trip must produce (ballots: a multiset)"""
    vt = gt["vtype"]
    P = {}
    for p in gt["projects"]:
        md = dict(p["md"])
        P[p["name"]] = (p["cost"], tuple(sorted(p["cats"])), tuple(sorted(p["targets"])), md)
    V = []
    if gt["multi"]:
        keys = []
        for v in gt["votes"]:
            k = _bkey(v["ballot"])
            if k not in keys:
                keys.append(k)
    for i, v in enumerate(gt["votes"]):
        md = dict(v["md"])
        if "voter_id" not in md:
            md["voter_id"] = str(keys.index(_bkey(v["ballot"]))) if gt["multi"] else str(i)
        V.append((_bkey(v["ballot"]), md))
    L = ref_norm_limits(vt, gt["limits"], len(P), gt["budget"])
    return {"T": vt, "B": gt["budget"], "L": L, "P": P, "V": V}


def _bkey(b):
    if b["kind"] == "a":
        return ("a", tuple(sorted(b["items"])))
    if b["kind"] == "o":
        return ("o", tuple(b["items"]))
    return ("c", tuple(sorted(zip(b["items"], b["points"]))))


def check_round_trip(gt, parsed, limits=True):
    """None or (reason, message): does the parsed election equal the ground truth?"""
    exp = expected_after_round_trip(gt)
    if parsed["T"] != exp["T"]:
        return ("vote_type", f"vote type {parsed['T']!r} vs {exp['T']!r}")
    if parsed["B"] != exp["B"]:
        return ("budget", f"budget {parsed['B']} vs {exp['B']}")
    if set(parsed["P"]) != set(exp["P"]):
        return ("project_names", f"project names {sorted(parsed['P'])!r} vs {sorted(exp['P'])!r}")
    for n, (cost, cats, tgts, md) in exp["P"].items():
        pc, pcats, ptg, pmd = parsed["P"][n]
        if pc != cost:
            return ("project_cost", f"cost of {n!r}: {pc} vs {cost}")
        if pcats != cats or ptg != tgts:
            return ("project_categories", f"categories/targets of {n!r}: {pcats!r},{ptg!r} vs {cats!r},{tgts!r}")
        rest = {k: v for k, v in pmd.items() if k not in ("project_id", "cost")}
        if rest != md:
            return ("project_meta_lost", f"metadata of project {n!r}: {rest!r} vs {md!r}")
        if pmd.get("project_id") != n or ref_num(pmd.get("cost", "0")) != cost:
            return ("project_meta_lost", f"derived columns of project {n!r}: {pmd!r}")
    if limits and parsed["L"] != exp["L"]:
        for i in range(8):
            if parsed["L"][i] != exp["L"][i]:
                reason = "zero_limit_dropped" if gt["limits"][i] == 0 else LIMIT_KEYS[i] + "_lost"
                return (reason, f"legal limit {LIMIT_KEYS[i]}: {parsed['L'][i]} vs {exp['L'][i]} (written {gt['limits'][i]})")
    if len(parsed["V"]) != len(exp["V"]):
        return ("num_votes", f"{len(parsed['V'])} ballots vs {len(exp['V'])}")
    ca, cb = Counter(_vkey(v) for v in parsed["V"]), Counter(_vkey(v) for v in exp["V"])
    if ca != cb:
        if Counter(v[0] for v in parsed["V"]) != Counter(v[0] for v in exp["V"]):
            pa = Counter(v[0] for v in parsed["V"]) - Counter(v[0] for v in exp["V"])
            ea = Counter(v[0] for v in exp["V"]) - Counter(v[0] for v in parsed["V"])
            inexact = any(b[0] == "c" for b in pa) and {tuple(n for n, _ in b[1]) for b in pa if b[0] == "c"} == {tuple(n for n, _ in b[1]) for b in ea if b[0] == "c"}
            return ("points_inexact" if inexact else "ballot_content", f"ballots differ: parsed {list(pa)[:2]!r} vs expected {list(ea)[:2]!r}")
        return ("vote_meta_lost", f"voter metadata differ: {list((ca - cb))[:1]!r} vs {list((cb - ca))[:1]!r}")
    for k, v in gt["md"].items():
        if k in DERIVED_META:
            continue
        if parsed["M"].get(k) != v:
            return ("instance_meta_lost", f"META[{k!r}] = {parsed['M'].get(k)!r} vs {v!r}")
    if parsed["M"].get("num_projects") != str(len(exp["P"])) or parsed["M"].get("num_votes") != str(len(exp["V"])):
        return ("instance_meta_derived", f"num_projects/num_votes {parsed['M'].get('num_projects')!r}/{parsed['M'].get('num_votes')!r}")
    return None


def reason_of_exception(stage, exc, text, gt):
    msg = str(exc)
    if stage == "write":
        if isinstance(exc, KeyError) and not isinstance(exc.args[0], str):
            return "project_meta_keyerror"
        return "writer_raises"
    if text is not None and "Auto-filled max_sum_points" in text:
        return "autofilled_max_sum_points"
    if gt is not None and gt.get("special"):
        return "separator_or_quote_in_name"
    has_empty = gt is not None and any(not v["ballot"]["items"] for v in gt["votes"])
    if (isinstance(exc, KeyError) and "No project with name  found" in msg) or (has_empty and isinstance(exc, ValueError) and "invalid digits" in msg):
        return "empty_ballot"
    if isinstance(exc, IndexError):
        return "index_error"
    return "parser_raises"


# ----------------------------------------------------------------------------------------------
# stream (i): round trips


def round_trip_case(ctx, gt, lines, pend):
    sig = {"call": "round_trip", "vtype": gt["vtype"]}
    ctx.evaluations += 1
    ctx.count("i.vtype", gt["vtype"])
    ctx.count("i.profile", "multi" if gt["multi"] else "list")
    if gt.get("special"):
        ctx.count("i.special", "yes")

    def viol(reason, what, **kw):
        ctx.violations.append({"what": what, "case": gt_json(gt), "cfg": {"stream": "round_trip"}, "sig": {**sig, "reason": reason}, **kw})

    try:
        inst, prof = build_objects(gt)
    except Exception as e:  # noqa: BLE001  (constructor problems belong to other properties)
        ctx.count("i.skipped_constructor", type(e).__name__)
        return
    try:
        text1 = lib().election_as_pabulib_string(inst, prof)
    except Exception as e:  # noqa: BLE001
        viol(reason_of_exception("write", e, None, gt), f"election_as_pabulib_string raised {type(e).__name__}: {e}")
        return
    r1 = lib_parse(text1)
    if r1[0] == "err":
        viol(reason_of_exception("parse", r1[2], text1, gt), f"the written file cannot be parsed back: {type(r1[2]).__name__ if r1[2] else 'profile None'}: {r1[2]}", impl=text1[:2000])
        return
    c1, (inst1, prof1) = r1[1], r1[2]
    bad = check_round_trip(gt, c1)
    if bad is None and members_bad(c1):
        bad = ("ballot_members", members_bad(c1))
    if bad:
        reason = bad[0]
        if gt.get("special") and reason in ("project_names", "project_meta_lost", "project_categories", "ballot_content", "vote_meta_lost", "instance_meta_lost", "project_cost", "num_votes"):
            reason = "separator_or_quote_in_name"
        viol(reason, "round trip changed the election: " + bad[1], impl=text1[:2000], expected=canon_json(expected_after_round_trip(gt) | {"M": gt["md"]}))
        return
    try:
        text2 = lib().election_as_pabulib_string(inst1, prof1)
        r2 = lib_parse(text2)
    except Exception as e:  # noqa: BLE001
        viol("second_round_trip", f"second write raised {type(e).__name__}: {e}", impl=text1[:2000])
        return
    if r2[0] == "err":
        viol("second_round_trip", f"second parse raised {r2[1]}: {r2[2]}", impl=text2[:2000])
        return
    d = diff_canon(c1, r2[1], votes="list") or members_bad(r2[1])
    if d:
        viol("not_idempotent", "second round trip differs from the first: " + d, impl=text2[:2000])
        return
    if ctx.evaluations % 6 == 0:
        # the file route (write_pabulib / parse_pabulib) must give the same election as the string route
        ctx.count("i.file_route", "yes")
        path = os.path.join(_tmpdir(), "c11_%d.pb" % os.getpid())
        try:
            lib().write_pabulib(inst, prof, path)
            fi, fp = lib().parse_pabulib(path)
            d = diff_canon(c1, canon_lib(fi, fp), votes="list")
            if d is None and (fi.file_name != os.path.basename(path) or fi.file_path != path):
                d = f"file_name/file_path {fi.file_name!r} {fi.file_path!r}"
        except Exception as e:  # noqa: BLE001
            d = f"{type(e).__name__}: {e}"
        finally:
            if os.path.exists(path):
                os.remove(path)
        if d:
            viol("file_route", "write_pabulib + parse_pabulib differ from the string route: " + d, impl=text1[:2000])
            return
    rows1 = csv_rows(text1)
    if len(gt["projects"]) >= 2 and len(gt["votes"]) >= 2 and (any(p["md"] for p in gt["projects"]) or any(v["md"] for v in gt["votes"])):
        ctx.nontrivial.add(core_hash(rows1))
    # model: parse the same rows; write of the parsed election vs the library's second file
    lines.append("pabulib R=" + enc_rows(rows1))
    pend.append({"stream": "i", "rows": rows1, "impl": ("ok", c1), "lib_written": csv_rows(text2), "label": "generated " + gt["vtype"]})


_TMP = []


def _tmpdir():
    if not _TMP:
        import tempfile

        _TMP.append(tempfile.mkdtemp(prefix="c11_"))
    return _TMP[0]


def core_hash(rows):
    import hashlib

    return hashlib.sha1(json.dumps(rows, ensure_ascii=False).encode()).hexdigest()[:16]


# ----------------------------------------------------------------------------------------------
# stream (ii): generated files


def fmt_num(rng, x, allow_comma=False):
    x = F(x)
    if x.denominator == 1:
        return str(x.numerator)
    # decimal if terminating
    d = x.denominator
    while d % 2 == 0:
        d //= 2
    while d % 5 == 0:
        d //= 5
    if d == 1 and rng.random() < 0.7:
        k = 0
        y = x
        while y.denominator != 1:
            y *= 10
            k += 1
        s = str(abs(y.numerator)).rjust(k + 1, "0")
        s = ("-" if y < 0 else "") + s[:-k] + "." + s[-k:]
        return s.replace(".", ",") if allow_comma and rng.random() < 0.4 else s
    return f"{x.numerator}/{x.denominator}"


def gen_file(rng, gt=None):
    """(rows-as-written, text, gt): a Pabulib file written by the generator itself"""
    if gt is None:
        gt = gen_ground_truth(rng, special=rng.random() < 0.15)
    gt["multi"] = False
    vt = gt["vtype"]
    pad = (lambda s: rng.choice(["", " ", "  "]) + s + rng.choice(["", " ", "\t"])) if rng.random() < 0.3 else (lambda s: s)
    none = lambda: rng.choice(["None", "none", "NONE", " None "])  # noqa: E731
    meta = [("description", "d"), ("country", "c"), ("unit", "u"), ("instance", "i"), ("num_projects", str(len(gt["projects"]))),
            ("num_votes", str(len(gt["votes"]))), ("budget", fmt_num(rng, gt["budget"], allow_comma=True)), ("vote_type", vt), ("rule", "greedy")]
    meta = [(k, v) for k, v in meta if k not in gt["md"]] + list(gt["md"].items())
    for i in range(8):
        x = gt["limits"][i]
        # limits irrelevant to the vote type may be present too: they must be ignored
        # (max_sum_points is left out: the parser compares max_points with it whatever the vote type)
        if x is None and rng.random() < 0.1 and (i != 7 or vt == "cumulative"):
            x = F(rng.choice([0, 1, 2, 5]))
            if i in TYPE_LIMITS[vt]:
                gt["limits"][i] = x
        if x is not None:
            meta.append((LIMIT_KEYS[i], str(int(x)) if i < 2 else fmt_num(rng, x)))
    rng.shuffle(meta)
    gt["md"] = {k: v for k, v in meta}
    rows = [[rng.choice(["META", "meta", "Meta "])], ["key", "value"]]
    for k, v in meta:
        rows.append([pad(k), pad(v)])
        if rng.random() < 0.05:
            rows.append([])
    # projects
    pcols = ["cost"] + sorted({k for p in gt["projects"] for k in p["md"]})
    catcol = rng.choice(["category", "categories"]) if any(p["cats"] for p in gt["projects"]) or rng.random() < 0.2 else None
    tgtcol = rng.choice(["target", "targets"]) if any(p["targets"] for p in gt["projects"]) or rng.random() < 0.2 else None
    pcols += [c for c in (catcol, tgtcol) if c]
    rng.shuffle(pcols)
    pcols = ["project_id"] + pcols
    if rng.random() < 0.1:
        rows.append([""])
    rows += [[rng.choice(["PROJECTS", "projects"])], [pad(c) for c in pcols]]
    for p in gt["projects"]:
        row = []
        for c in pcols:
            if c == "project_id":
                row.append(pad(p["name"]))
            elif c == "cost":
                row.append(pad(fmt_num(rng, p["cost"], allow_comma=True)))
            elif c == catcol:
                row.append(rng.choice([", ", ","]).join(p["cats"]) if p["cats"] else none())
            elif c == tgtcol:
                row.append(",".join(p["targets"]) if p["targets"] else none())
            else:
                row.append(pad(p["md"][c]) if c in p["md"] else none())
        if rng.random() < 0.1:
            # a row may be shorter than the header when the cells left out are all `none`
            keep = 1 + max(i for i, c in enumerate(pcols) if c in ("project_id", "cost") or c in p["md"] or (c == catcol and p["cats"]) or (c == tgtcol and p["targets"]))
            row = row[:keep]
        rows.append(row)
        if rng.random() < 0.05:
            rows.append([" "])
    # votes
    if not any(v["md"] for v in gt["votes"]):
        # a VOTES block whose only column is `vote` cannot hold an empty ballot (the row would be a blank line)
        for i, v in enumerate(gt["votes"]):
            v["md"]["voter_id"] = str(i + 1)
    vcols = sorted({k for v in gt["votes"] for k in v["md"]}) + ["vote"] + (["points"] if vt in ("scoring", "cumulative") else [])
    rng.shuffle(vcols)
    rows += [[rng.choice(["VOTES", "votes", " VOTES"])], [pad(c) for c in vcols]]
    for v in gt["votes"]:
        b = v["ballot"]
        row = []
        for c in vcols:
            if c == "vote":
                row.append(",".join(b["items"]))
            elif c == "points":
                row.append(rng.choice([",", ", "]).join(fmt_num(rng, x) for x in b["points"]))
            else:
                row.append(pad(v["md"][c]) if c in v["md"] else none())
        rows.append(row)
        if rng.random() < 0.03:
            rows.append([])
    if rng.random() < 0.3:
        rows.append([])
    out = io.StringIO()
    w = csv.writer(out, delimiter=";", lineterminator="\n")
    for r in rows:
        w.writerow(r)
    return rows, out.getvalue(), gt


def check_file_describes(gt, parsed):
    """does the parsed election equal what the generator wrote?  None or (reason, message)"""
    vt = gt["vtype"]
    if parsed["T"] != vt:
        return ("vote_type", f"vote type {parsed['T']!r} vs {vt!r}")
    if parsed["B"] != gt["budget"]:
        return ("budget", f"budget {parsed['B']} vs {gt['budget']}")
    if set(parsed["P"]) != {p["name"] for p in gt["projects"]}:
        return ("project_names", f"project names {sorted(parsed['P'])!r}")
    for p in gt["projects"]:
        pc, pcats, ptg, pmd = parsed["P"][p["name"]]
        if pc != p["cost"]:
            return ("project_cost", f"cost of {p['name']!r}: {pc} vs {p['cost']}")
        if pcats != tuple(sorted(p["cats"])) or ptg != tuple(sorted(p["targets"])):
            return ("project_categories", f"categories/targets of {p['name']!r}: {pcats!r} {ptg!r}")
        rest = {k: v for k, v in pmd.items() if k not in ("project_id", "cost")}
        if rest != p["md"]:
            return ("project_meta_lost", f"metadata of {p['name']!r}: {rest!r} vs {p['md']!r}")
    exp_v = [(_bkey(v["ballot"]), v["md"]) for v in gt["votes"]]
    if parsed["V"] != exp_v:
        for i, (x, y) in enumerate(zip(parsed["V"], exp_v)):
            if x != y:
                return ("ballot_content" if x[0] != y[0] else "vote_meta_lost", f"vote #{i}: {x!r} vs {y!r}")
        return ("num_votes", f"{len(parsed['V'])} ballots vs {len(exp_v)}")
    L = ref_norm_limits(vt, gt["limits"], len(gt["projects"]), gt["budget"])
    if parsed["L"] != L:
        for i in range(8):
            if parsed["L"][i] != L[i]:
                return (LIMIT_KEYS[i] + "_lost", f"legal limit {LIMIT_KEYS[i]}: {parsed['L'][i]} vs {L[i]} (file says {gt['limits'][i]}, budget {gt['budget']}, {len(gt['projects'])} projects)")
    if parsed["M"] != gt["md"]:
        return ("instance_meta_lost", f"META {parsed['M']!r} vs {gt['md']!r}")
    return None


def file_case(ctx, rows_written, text, gt, lines, pend):
    ctx.evaluations += 1
    ctx.count("ii.vtype", gt["vtype"])
    sig = {"call": "parse", "vtype": gt["vtype"]}

    def viol(reason, what, **kw):
        ctx.violations.append({"what": what, "case": {"text": text, "gt": gt_json(gt)}, "cfg": {"stream": "file"}, "sig": {**sig, "reason": reason}, **kw})

    has_blank = any(len(r) == 0 for r in rows_written)
    if has_blank:
        ctx.count("ii.blank_lines", "yes")
    r = lib_parse(text)
    rows = csv_rows(text)
    if r[0] == "err":
        reason = "blank_line" if (has_blank and isinstance(r[2], IndexError)) else reason_of_exception("parse", r[2], None, {**gt, "special": False})
        viol(reason, f"a well-formed file is rejected: {type(r[2]).__name__}: {r[2]}")
        return
    c = r[1]
    bad = check_file_describes(gt, c)
    if bad is None:
        try:
            ref = ref_parse(rows)
            d = diff_canon(c, ref)
            if d:
                bad = ("reference_reader", "differs from the reference reader: " + d)
        except Exception as e:  # noqa: BLE001
            bad = ("reference_reader", f"reference reader raised {e!r}")
    if bad is None and members_bad(c):
        bad = ("ballot_members", members_bad(c))
    if bad:
        viol(bad[0], "the parsed election is not the one written in the file: " + bad[1], impl=canon_json(c))
        return
    if len(gt["projects"]) >= 2 and len(gt["votes"]) >= 2:
        ctx.nontrivial.add(core_hash(rows))
    lines.append("pabulib R=" + enc_rows(rows))
    pend.append({"stream": "ii", "rows": rows, "impl": ("ok", c), "lib_written": _lib_write(r[2]), "label": "file " + gt["vtype"]})


def _lib_write(objs):
    try:
        return csv_rows(lib().election_as_pabulib_string(*objs))
    except Exception:  # noqa: BLE001
        return None


# malformed files: only the error class is compared with the model


def gen_malformed(rng):
    rows, text, gt = gen_file(rng)
    rows = [list(r) for r in csv_rows(text)]
    k = rng.randint(0, 9)
    idx = [i for i, r in enumerate(rows) if len(r) >= 2]
    if not idx:
        return rows
    i = rng.choice(idx)
    if k == 0:
        rows = [r for r in rows if not (len(r) == 2 and r[0].strip() == "budget")]
    elif k == 1:
        rows = [r for r in rows if not (len(r) == 2 and r[0].strip() == "vote_type")]
    elif k == 2:
        rows[i] = rows[i] + ["extra", "cells"]
    elif k == 3:
        rows[i] = rows[i][:1]
    elif k == 4:
        rows = [[("abc" if (len(r) == 2 and r[0].strip() in LIMIT_KEYS + ["budget"] and j == 1) else c) for j, c in enumerate(r)] for r in rows]
    elif k == 5:
        rows = rows[: rng.randint(1, len(rows))]
    elif k == 6:
        rows = [[("1/0" if (len(r) == 2 and r[0].strip() == "budget" and j == 1) else c) for j, c in enumerate(r)] for r in rows]
    elif k == 7:
        rows = [[("ranking" if (len(r) == 2 and r[0].strip() == "vote_type" and j == 1) else c) for j, c in enumerate(r)] for r in rows]
    elif k == 8:
        rows[i] = [c + ",zzz" if j == len(rows[i]) - 1 else c for j, c in enumerate(rows[i])]
    else:
        rows.insert(i, rows[i])
    return rows


def rows_to_text(rows):
    out = io.StringIO()
    w = csv.writer(out, delimiter=";", lineterminator="\n")
    for r in rows:
        w.writerow(r)
    return out.getvalue()


def malformed_case(ctx, rows, lines, pend):
    text = rows_to_text(rows)
    rows = csv_rows(text)
    r = lib_parse(text)
    ctx.count("ii.malformed", r[0] if r[0] == "ok" else r[1])
    if r[0] == "err" and r[1] not in ("key", "index", "value", "zeroDiv", "notImpl", "stop"):
        return  # an exception class the model has no name for (e.g. TypeError): nothing to compare
    lines.append("pabulib R=" + enc_rows(rows))
    pend.append({"stream": "ii-malformed", "rows": rows, "impl": ("ok", r[1]) if r[0] == "ok" else ("err", r[1]),
                 "lib_written": _lib_write(r[2]) if r[0] == "ok" else None, "label": "malformed"})


# ----------------------------------------------------------------------------------------------
# stream (iii): the real corpus


def corpus_files(ctx):
    base = os.path.join(core.REPO, "tests", "PaBuLib")
    emptied = set()
    try:
        for ln in open("/root/.vp/EMPTIED_FILES.txt"):
            emptied.add(os.path.basename(ln.strip()))
    except OSError:
        pass

    def listing(sub):
        d = os.path.join(base, sub)
        if not os.path.isdir(d):
            return []
        out = []
        for fn in sorted(os.listdir(d)):
            p = os.path.join(d, fn)
            if fn.endswith(".pb") and os.path.getsize(p) > 0:
                out.append((os.path.getsize(p), p))
        return out

    a10 = listing("All_10")
    if ctx.tier == "thorough":
        chosen = [p for _, p in a10]
        big = [(s, p) for s, p in listing("All") if s <= 2_000_000]
        ctx.rng.shuffle(big)
        chosen += [p for _, p in big[:100]]
    else:
        a10s = sorted(a10)
        chosen = [p for _, p in a10s[:40]]
        rest = [(s, p) for s, p in a10s[40:] if s <= 300_000]
        ctx.rng.shuffle(rest)
        chosen += [p for _, p in rest[:20]]
    return chosen


def corpus_case(ctx, path, lines, pend):
    ctx.evaluations += 1
    with open(path, "r", newline="", encoding="utf-8-sig") as f:
        text = f.read()
    rel = os.path.relpath(path, core.REPO)
    sig = {"call": "parse_corpus", "file": rel}
    rows = csv_rows(text)
    r = lib_parse(text)
    if r[0] == "err":
        ctx.violations.append({"what": f"corpus file {rel} is rejected: {r[1]}: {r[2]}", "case": {"file": rel}, "cfg": {"stream": "corpus"}, "sig": {**sig, "reason": "parser_raises"}})
        return
    c = r[1]
    ctx.count("iii.vtype", c["T"])
    try:
        ref = ref_parse(rows)
    except Exception as e:  # noqa: BLE001
        ctx.violations.append({"what": f"reference reader cannot read {rel}: {e!r}", "case": {"file": rel}, "cfg": {"stream": "corpus"}, "sig": {**sig, "reason": "reference_reader"}})
        return
    d = diff_canon(c, ref)
    if d:
        ctx.violations.append({"what": f"corpus file {rel}: parsed election differs from what the file says: {d}", "case": {"file": rel}, "cfg": {"stream": "corpus"},
                               "sig": {**sig, "reason": "max_sum_cost_lost" if d.startswith("L:") else "corpus_mismatch"}})
        return
    if members_bad(c):
        ctx.violations.append({"what": f"corpus file {rel}: {members_bad(c)}", "case": {"file": rel}, "cfg": {"stream": "corpus"}, "sig": {**sig, "reason": "ballot_members"}})
        return
    # round trip of the parsed corpus election (predicate: equal, idempotent)
    lib_written = None
    try:
        text2 = lib().election_as_pabulib_string(*r[2])
        lib_written = csv_rows(text2)
        r2 = lib_parse(text2)
        if r2[0] == "err":
            raise RuntimeError(f"written file rejected: {r2[1]}: {r2[2]}")
        d2 = diff_canon(_stable_part(c, c), _stable_part(r2[1], c), votes="multiset")
        if d2:
            reason = "corpus_round_trip"
            if d2.startswith("vote #") or d2.startswith("ballot multisets") or d2.startswith("number of votes"):
                reason = "vote_meta_lost"
            elif '"' in d2 or ";" in d2:
                reason = "separator_or_quote_in_name"
            raise RuntimeError("round trip changed the election: " + d2 + "|" + reason)
    except Exception as e:  # noqa: BLE001
        msg = str(e)
        reason = msg.rsplit("|", 1)[1] if "|" in msg else "corpus_round_trip"
        ctx.violations.append({"what": f"corpus file {rel}: {msg.rsplit('|', 1)[0]}", "case": {"file": rel}, "cfg": {"stream": "corpus"}, "sig": {**sig, "reason": reason}})
        return
    if len(c["P"]) >= 2 and len(c["V"]) >= 2:
        ctx.nontrivial.add(core_hash(rows[:200]))
    lines.append("pabulib R=" + enc_rows(rows))
    pend.append({"stream": "iii", "rows": None, "impl": ("ok", c), "lib_written": lib_written, "label": rel})


def _stable_part(c, orig):
    """after a round trip the derived entries are rewritten (cost and budget as str(mpq), the counts, the mandatory keys);
    everything else, i.e. every other META key of the original file, must be unchanged"""
    c = dict(c)
    c["P"] = {n: (v[0], v[1], v[2], {k: x for k, x in v[3].items() if k != "cost"}) for n, v in c["P"].items()}
    c["M"] = {k: c["M"].get(k) for k in orig["M"] if k not in DERIVED_META}
    return c


# ----------------------------------------------------------------------------------------------
# stream (iv): several elections parsed one after the other in ONE process


def judge_file(text, gt):
    """the file predicate of stream (ii) as a function: None or (reason, message)"""
    r = lib_parse(text)
    if r[0] == "err":
        return ("parser_raises", f"a well-formed file is rejected: {type(r[2]).__name__ if r[2] else 'profile None'}: {r[2]}")
    c = r[1]
    bad = check_file_describes(gt, c)
    if bad is None:
        try:
            d = diff_canon(c, ref_parse(csv_rows(text)))
            if d:
                bad = ("reference_reader", "differs from the reference reader: " + d)
        except Exception as e:  # noqa: BLE001
            bad = ("reference_reader", f"reference reader raised {e!r}")
    if bad is None and members_bad(c):
        bad = ("ballot_members", members_bad(c))
    return bad


def gen_revised_edition(rng, gt_a):
    """another election that REUSES project ids of `gt_a` with other costs / categories / targets / metadata (next year's edition,
    a re-costed draft, another district numbering its projects 1..m as well)"""
    gt = gen_ground_truth(rng, special=False, vtype=gt_a["vtype"] if rng.random() < 0.5 else None)
    old = [p["name"] for p in gt["projects"]]
    pool = [p["name"] for p in gt_a["projects"]]
    rng.shuffle(pool)
    pool += [n for n in old if n not in pool]
    ren = dict(zip(old, pool))
    for p in gt["projects"]:
        p["name"] = ren[p["name"]]
    for v in gt["votes"]:
        v["ballot"] = dict(v["ballot"], items=[ren[n] for n in v["ballot"]["items"]])
        if v["ballot"]["kind"] == "a":
            v["ballot"]["items"] = sorted(v["ballot"]["items"])
    return gt


def run_sequence(texts, gts):
    """parse the files in the given order in this process, then the first one once more; (index, reason, message) of the first
    file whose parsed election is not the one written in it, or None"""
    order = list(range(len(texts))) + ([0] if len(texts) > 1 else [])
    for k in order:
        bad = judge_file(texts[k], gts[k])
        if bad:
            return (k, bad[0], bad[1])
    return None


def sequence_case(ctx, rng):
    ctx.evaluations += 1
    _, text_a, gt_a = gen_file(rng, gt=gen_ground_truth(rng, special=False))
    texts, gts = [text_a], [gt_a]
    for _ in range(rng.choice([1, 1, 2])):
        _, t, g = gen_file(rng, gt=gen_revised_edition(rng, gt_a))
        texts.append(t)
        gts.append(g)
    shared = [n for n in (p["name"] for p in gts[1]["projects"]) if n in {p["name"] for p in gt_a["projects"]}]
    ctx.count("iv.files_in_sequence", str(len(texts)))
    ctx.count("iv.shared_project_ids", str(min(len(shared), 5)) + ("+" if len(shared) > 5 else ""))
    cost_a = {p["name"]: (p["cost"], p["cats"], p["targets"]) for p in gt_a["projects"]}
    voted = {n for v in gts[1]["votes"] for n in v["ballot"]["items"]}
    if any(n in voted and cost_a[n] != (p["cost"], p["cats"], p["targets"]) for p in gts[1]["projects"] for n in [p["name"]] if n in cost_a):
        ctx.nontrivial.add("seq" + core_hash(texts))
        ctx.count("iv.reused_id_with_other_attributes_in_a_ballot", "yes")
    bad = run_sequence(texts, gts)
    if bad:
        k, reason, msg = bad
        ctx.violations.append({"what": f"file #{k} of {len(texts)} files parsed one after the other in one process (same project ids, other attributes): "
                                       f"the parsed election is not the one written in the file: {msg}",
                               "case": {"texts": texts, "gts": [gt_json(g) for g in gts]}, "cfg": {"stream": "sequence", "failed_at": k},
                               "sig": {"call": "parse_sequence", "reason": reason, "vtype": gts[k]["vtype"]}})


# ----------------------------------------------------------------------------------------------
# stream (v): edit-then-write histories.  An election (built through the API, parsed from a generated file, or parsed from a file
# the library wrote) is EDITED through the public API, then written; predicate: the file written describes the election as it is
# NOW - read with the independent reference reader and, second, parsed back by the library.  The ground truth is kept as plain
# data next to the objects and receives the same edits.  Predicate level only (the Lean model has no notion of object histories).

HIST_META_KEYS = [k for k in META_KEYS] + ["num_votes", "num_projects", "budget", "vote_type"]


def state_of_gt(gt):
    st = gt_from_json(gt_json(gt))
    st["multi"] = False
    st["limit_keys_in_meta"] = False
    return st


def state_of_canon(c):
    """ground truth (plain data) of an election read by the reference reader"""
    projects = [{"name": n, "cost": v[0], "cats": list(v[1]), "targets": list(v[2]), "md": {k: x for k, x in v[3].items() if k not in ("project_id", "cost")}}
                for n, v in c["P"].items()]
    votes = []
    for b, md in c["V"]:
        if b[0] == "c":
            bal = {"kind": "c", "items": [n for n, _ in b[1]], "points": [x for _, x in b[1]]}
        else:
            bal = {"kind": b[0], "items": list(b[1])}
        votes.append({"ballot": bal, "md": dict(md)})
    return {"vtype": c["T"], "budget": c["B"], "md": {k: v for k, v in c["M"].items() if k not in DERIVED_META and k not in LIMIT_KEYS},
            "projects": projects, "votes": votes, "limits": list(c["L"]), "multi": False, "special": False,
            "limit_keys_in_meta": any(k in c["M"] for k in LIMIT_KEYS)}


def open_start(start):
    """-> (instance, profile, state) or None when the start election itself is not usable (reported by the other streams)"""
    if start["source"] == "built":
        gt = gt_from_json(start["gt"])
        gt["multi"] = False
        inst, prof = build_objects(gt)
        return inst, prof, state_of_gt(gt)
    r = lib_parse(start["text"])
    if r[0] == "err":
        return None
    ref = ref_parse(csv_rows(start["text"]))
    if diff_canon(r[1], ref) or members_bad(r[1]):
        return None
    return r[2][0], r[2][1], state_of_canon(ref)


def _num(x):
    return str(F(x))


def gen_edit(rng, st):
    """one edit of the election through the public API, as plain data; None if the drawn kind does not apply"""
    vals = PLAIN_VALUES
    names = [p["name"] for p in st["projects"]]
    voted = {n for v in st["votes"] for n in v["ballot"]["items"]}
    kind = rng.choice(["budget", "budget", "cost", "cost", "add_project", "remove_project", "categories", "project_meta", "add_vote", "remove_vote",
                       "replace_ballot", "ballot_member", "vote_meta", "meta", "meta", "write"])
    if kind == "write":
        return {"op": "write"}
    if kind == "budget":
        return {"op": "budget", "value": _num(gen_number(rng, 1, 20000))}
    if kind == "meta":
        k = rng.choice(HIST_META_KEYS)
        if k in ("num_votes", "num_projects"):
            return {"op": "meta", "key": k, "value": "999"}
        if k == "budget":
            return {"op": "meta", "key": k, "value": _num(gen_number(rng, 1, 20000, kinds=("int",)))}
        if k == "vote_type":
            return {"op": "meta", "key": k, "value": rng.choice(["approval", "ordinal", "cumulative", "scoring"])}
        return {"op": "meta", "key": k, "value": None if (k in st["md"] and rng.random() < 0.3) else rng.choice(vals)}
    if kind == "add_project":
        free = [n for n in PLAIN_NAMES if n not in names]
        if not free:
            return None
        return {"op": "add_project", "name": rng.choice(free), "cost": _num(gen_number(rng)), "cats": sorted(rng.sample(CATS, rng.choice([0, 1, 2]))),
                "targets": sorted(rng.sample(TARGETS, rng.choice([0, 0, 1])))}
    if kind == "add_vote":
        return {"op": "add_vote", "ballot": _gen_ballot(rng, st, names), "md": {k: rng.choice(vals) for k in rng.sample(VOTE_KEYS, rng.choice([0, 0, 1, 2]))}}
    if kind in ("cost", "remove_project", "categories", "project_meta"):
        if not names:
            return None
        n = rng.choice(names)
        if kind == "cost":
            return {"op": "cost", "name": n, "value": _num(gen_number(rng, 0 if rng.random() < 0.1 else 1))}
        if kind == "remove_project":
            return None if n in voted else {"op": "remove_project", "name": n}
        if kind == "categories":
            return {"op": "categories", "name": n, "cats": sorted(rng.sample(CATS, rng.choice([0, 1, 2]))), "targets": sorted(rng.sample(TARGETS, rng.choice([0, 1, 2])))}
        pm = next(p for p in st["projects"] if p["name"] == n)["md"]
        k = rng.choice(PROJ_KEYS)
        return {"op": "project_meta", "name": n, "key": k, "value": None if (k in pm and rng.random() < 0.3) else rng.choice(vals)}
    if not st["votes"]:
        return None
    i = rng.randrange(len(st["votes"]))
    if kind == "remove_vote":
        return {"op": "remove_vote", "index": i}
    if kind == "replace_ballot":
        return {"op": "replace_ballot", "index": i, "ballot": _gen_ballot(rng, st, names)}
    if kind == "vote_meta":
        k = rng.choice(VOTE_KEYS)
        return {"op": "vote_meta", "index": i, "key": k, "value": None if (k in st["votes"][i]["md"] and rng.random() < 0.3) else rng.choice(vals)}
    # ballot_member: one project enters / leaves the ballot, or gets other points, IN PLACE
    b = st["votes"][i]["ballot"]
    if not names:
        return None
    n = rng.choice(names)
    if b["kind"] == "c":
        if n in b["items"] and rng.random() < 0.4:
            return {"op": "ballot_del", "index": i, "name": n}
        return {"op": "ballot_score", "index": i, "name": n, "points": _num(rng.choice([F(0), F(1), F(2), F(4), F(1, 3), F(5, 2)]))}
    if n in b["items"]:
        return {"op": "ballot_del", "index": i, "name": n} if b["kind"] == "a" else None
    return {"op": "ballot_add", "index": i, "name": n}


def _gen_ballot(rng, st, names):
    items = rng.sample(names, rng.randint(0, len(names)))
    if st["vtype"] == "approval":
        return {"kind": "a", "items": sorted(items)}
    if st["vtype"] == "ordinal":
        return {"kind": "o", "items": items}
    return {"kind": "c", "items": items, "points": [_num(rng.choice([F(0), F(1), F(2), F(3), F(1, 3), F(5, 2), F(-1)])) for _ in items]}


def _set_or_pop(d, k, v):
    if v is None:
        d.pop(k, None)
    else:
        d[k] = v


def apply_state(st, e):
    op = e["op"]
    if op == "budget":
        st["budget"] = F(e["value"])
    elif op == "meta":
        _set_or_pop(st["md"], e["key"], e["value"])
    elif op == "cost":
        next(p for p in st["projects"] if p["name"] == e["name"])["cost"] = F(e["value"])
    elif op == "add_project":
        assert all(p["name"] != e["name"] for p in st["projects"])
        st["projects"].append({"name": e["name"], "cost": F(e["cost"]), "cats": list(e["cats"]), "targets": list(e["targets"]), "md": {}})
    elif op == "remove_project":
        assert not any(e["name"] in v["ballot"]["items"] for v in st["votes"])
        k = next(i for i, p in enumerate(st["projects"]) if p["name"] == e["name"])
        st["projects"].pop(k)
    elif op == "categories":
        p = next(p for p in st["projects"] if p["name"] == e["name"])
        p["cats"], p["targets"] = list(e["cats"]), list(e["targets"])
    elif op == "project_meta":
        _set_or_pop(next(p for p in st["projects"] if p["name"] == e["name"])["md"], e["key"], e["value"])
    elif op == "add_vote":
        b = e["ballot"]
        names = {p["name"] for p in st["projects"]}
        assert all(n in names for n in b["items"])
        st["votes"].append({"ballot": dict(b, **({"points": [F(x) for x in b["points"]]} if "points" in b else {})), "md": dict(e["md"])})
    elif op == "remove_vote":
        st["votes"].pop(e["index"])
    elif op == "replace_ballot":
        b = e["ballot"]
        names = {p["name"] for p in st["projects"]}
        assert all(n in names for n in b["items"])
        st["votes"][e["index"]]["ballot"] = dict(b, **({"points": [F(x) for x in b["points"]]} if "points" in b else {}))
    elif op == "vote_meta":
        _set_or_pop(st["votes"][e["index"]]["md"], e["key"], e["value"])
    elif op in ("ballot_add", "ballot_del", "ballot_score"):
        b = dict(st["votes"][e["index"]]["ballot"])
        assert any(p["name"] == e["name"] for p in st["projects"])
        items, pts = list(b["items"]), list(b.get("points", []))
        if op == "ballot_add":
            assert e["name"] not in items
            items.append(e["name"])
        elif op == "ballot_del":
            k = items.index(e["name"])
            items.pop(k)
            if pts:
                pts.pop(k)
        elif e["name"] in items:
            pts[items.index(e["name"])] = F(e["points"])
        else:
            items.append(e["name"])
            pts.append(F(e["points"]))
        b["items"] = items
        if b["kind"] == "c":
            b["points"] = pts
        st["votes"][e["index"]]["ballot"] = b
    elif op != "write":
        raise ValueError(op)


def _ballot_object(vtype, b, P):
    pe = lib_classes()
    if b["kind"] == "a":
        return pe.ApprovalBallot([P[n] for n in b["items"]])
    if b["kind"] == "o":
        return pe.OrdinalBallot([P[n] for n in b["items"]])
    cls = pe.CumulativeBallot if vtype == "cumulative" else pe.CardinalBallot
    return cls({P[n]: to_mpq(F(s)) for n, s in zip(b["items"], b["points"])})


def apply_objects(inst, prof, e, vtype):
    """the same edit on the real objects, through attributes and container methods a user of the library has"""
    pe = lib_classes()
    op = e["op"]
    P = {p.name: p for p in inst}
    if op == "write":
        lib().election_as_pabulib_string(inst, prof)
    elif op == "budget":
        inst.budget_limit = to_mpq(F(e["value"]))
    elif op == "meta":
        _set_or_pop(inst.meta, e["key"], e["value"])
    elif op == "cost":
        P[e["name"]].cost = to_mpq(F(e["value"]))
    elif op == "add_project":
        inst.add(pe.Project(e["name"], to_mpq(F(e["cost"])), categories=set(e["cats"]), targets=set(e["targets"])))
    elif op == "remove_project":
        inst.remove(P[e["name"]])
        inst.project_meta.pop(P[e["name"]], None)  # (the metadata table is keyed by project NAME: what is left there would belong to a later project of that name)
    elif op == "categories":
        P[e["name"]].categories = set(e["cats"])
        P[e["name"]].targets = set(e["targets"])
    elif op == "project_meta":
        _set_or_pop(inst.project_meta.setdefault(P[e["name"]], {}), e["key"], e["value"])
    elif op == "add_vote":
        ob = _ballot_object(vtype, e["ballot"], P)
        ob.meta = dict(e["md"])
        prof.append(ob)
    elif op == "remove_vote":
        prof.pop(e["index"])
    elif op == "replace_ballot":
        ob = _ballot_object(vtype, e["ballot"], P)
        ob.meta = dict(prof[e["index"]].meta)
        prof[e["index"]] = ob
    elif op == "vote_meta":
        _set_or_pop(prof[e["index"]].meta, e["key"], e["value"])
    elif op == "ballot_add":
        b = prof[e["index"]]
        if isinstance(b, pe.AbstractApprovalBallot):
            b.add(P[e["name"]])
        else:
            b.append(P[e["name"]])
    elif op == "ballot_del":
        b = prof[e["index"]]
        if isinstance(b, pe.AbstractApprovalBallot):
            b.remove(P[e["name"]])
        else:
            del b[P[e["name"]]]
    elif op == "ballot_score":
        prof[e["index"]][P[e["name"]]] = to_mpq(F(e["points"]))
    else:
        raise ValueError(op)


STRUCTURAL = ("budget", "add_project", "remove_project")


def run_history(start, edits):
    """-> None (the start is unusable), or (bad, text) with bad = None | (reason, message)"""
    opened = open_start(start)
    if opened is None:
        return None
    inst, prof, st = opened
    try:
        for e in edits:
            apply_state(st, e)
    except (AssertionError, IndexError, StopIteration, ValueError):
        return None  # (a shortened history in which a later edit no longer applies)
    try:
        for e in edits:
            apply_objects(inst, prof, e, st["vtype"])
        text = lib().election_as_pabulib_string(inst, prof)
    except Exception as e:  # noqa: BLE001
        return (("writer_raises", f"{type(e).__name__}: {e} while editing / writing"), None)
    # stale META limit entries of the source file against a changed budget / number of projects: which one is 'the' limit
    # of the election is not decided by the statement; the limits are then only compared between the two readers
    limits = not (st["limit_keys_in_meta"] and any(e["op"] in STRUCTURAL for e in edits))
    try:
        ref = ref_parse(csv_rows(text))
    except Exception as e:  # noqa: BLE001
        return (("written_file_malformed", f"the reference reader cannot read the file written: {e!r}"), text)
    bad = check_round_trip(st, ref, limits=limits)
    if bad:
        return ((bad[0], "the file written does not describe the election as it is now (reference reader): " + bad[1]), text)
    r = lib_parse(text)
    if r[0] == "err":
        return (("parser_raises", f"the file written cannot be parsed back: {r[1]}: {r[2]}"), text)
    bad = check_round_trip(st, r[1], limits=limits)
    if bad:
        return ((bad[0], "write + parse does not give the election as it is now: " + bad[1]), text)
    d = diff_canon(r[1], ref) or members_bad(r[1])
    if d:
        return (("reference_reader", "parsing the file written differs from the reference reader: " + d), text)
    return (None, text)


def history_case(ctx, rng):
    src = rng.choice(["built", "file", "written"])
    if src == "built":
        gt = gen_ground_truth(rng, special=False)
        gt["multi"] = False
        start = {"source": "built", "gt": gt_json(gt)}
    elif src == "file":
        start = {"source": "file", "text": gen_file(rng, gt=gen_ground_truth(rng, special=False))[1]}
    else:
        gt = gen_ground_truth(rng, special=False)
        try:
            start = {"source": "file", "text": lib().election_as_pabulib_string(*build_objects(gt))}
        except Exception:  # noqa: BLE001  (stream (i) reports writer exceptions)
            ctx.count("v.start_unusable", "writer")
            return
    opened = open_start(start)
    if opened is None:
        ctx.count("v.start_unusable", src)
        return
    st = opened[2]
    edits = []
    for _ in range(rng.choice([1, 1, 2, 2, 3, 4])):
        e = gen_edit(rng, st)
        if e is None:
            continue
        apply_state(st, e)
        edits.append(e)
    if not any(e["op"] != "write" for e in edits):
        return
    ctx.evaluations += 1
    ctx.count("v.start", src)
    for e in edits:
        ctx.count("v.edit", e["op"] if e["op"] != "meta" or e["key"] not in DERIVED_META else "meta(stale derived entry)")
    res = run_history(start, edits)
    if res is None:
        ctx.count("v.start_unusable", src)
        return
    bad, text = res
    if len(st["projects"]) >= 2 and len(st["votes"]) >= 2:
        ctx.nontrivial.add("hist" + core_hash([json.dumps(start, sort_keys=True), json.dumps(edits, sort_keys=True)]))
    if bad:
        # shortest history: drop the edits that are not needed for the same failure
        k = 0
        while k < len(edits) and len(edits) > 1:
            shorter = edits[:k] + edits[k + 1:]
            r2 = run_history(start, shorter)
            if r2 is not None and r2[0] is not None and r2[0][0] == bad[0]:
                edits, (bad, text) = shorter, r2
            else:
                k += 1
        ctx.violations.append({"what": "edit-then-write history: " + bad[1], "case": {"start": start, "edits": edits}, "cfg": {"stream": "history"},
                               "impl": (text or "")[:2000], "sig": {"call": "edit_then_write", "reason": bad[0], "vtype": st["vtype"], "edits": sorted({e["op"] for e in edits})}})


# ----------------------------------------------------------------------------------------------
# model comparison


def compare_with_model(ctx, lines, pend):
    if not lines:
        return
    answers = core.run_driver(lines, timeout=1800)
    for ln, p, ans in zip(lines, pend, answers):
        m = parse_model_answer(ans)
        impl = p["impl"]
        short = (ln[:300] + "…") if len(ln) > 300 else ln
        if impl[0] == "err" or m[0] == "err":
            ok = impl[0] == m[0] == "err" and impl[1] == m[1]
            ctx.sample(f"[{p['label']}] {short[:120]} -> impl {impl[0]} {impl[1] if impl[0] == 'err' else ''} | model {m[0]} {m[1] if m[0] == 'err' else ''}", cap=8)
            if not ok:
                ctx.disagreements.append({"line": short, "full_line": ln[:20000], "rows": p["rows"], "label": p["label"], "impl": str(impl[:2])[:300], "model": str(m[:2])[:300]})
            continue
        d = diff_canon(impl[1], m[1])
        if d is None and p["lib_written"] is not None:
            d = diff_written(p["lib_written"], m[2], impl[1]["T"])
        ctx.sample(f"[{p['label']}] {short[:160]} -> impl ok {len(impl[1]['P'])} projects {len(impl[1]['V'])} votes L={[str(x) if x is not None else None for x in impl[1]['L']]} | model {'same' if d is None else d}", cap=8)
        if d is not None:
            ctx.disagreements.append({"line": short, "full_line": ln[:20000], "rows": p["rows"], "label": p["label"], "impl": "ok", "model": d})


# ----------------------------------------------------------------------------------------------


def run(ctx):
    ctx.rule = RULE
    rng = ctx.rng
    lines, pend = [], []
    # first, while nothing else has been parsed in this process: sequences of files sharing project ids (a stored failure is
    # then reproduced by parsing exactly the stored files in a fresh process)
    for _ in range(ctx.scale(300, 2000)):
        sequence_case(ctx, rng)
    for _ in range(ctx.scale(1500, 10000)):
        history_case(ctx, rng)
    n_i = ctx.scale(1200, 8000)
    for k in range(n_i):
        gt = gen_ground_truth(rng, special=False, vtype=["approval", "cumulative", "scoring", "ordinal"][k % 4] if k < 40 else None)
        round_trip_case(ctx, gt, lines, pend)
    for _ in range(ctx.scale(400, 2500)):
        round_trip_case(ctx, gen_ground_truth(rng, special=True), lines, pend)
    for _ in range(ctx.scale(1000, 7000)):
        rows, text, gt = gen_file(rng)
        file_case(ctx, rows, text, gt, lines, pend)
    for _ in range(ctx.scale(400, 2500)):
        malformed_case(ctx, gen_malformed(rng), lines, pend)
    t_gen = ctx.elapsed()
    for path in corpus_files(ctx):
        corpus_case(ctx, path, lines, pend)
    t_corpus = ctx.elapsed()
    compare_with_model(ctx, lines, pend)
    from . import C11_csv  # the text layer (csv reader/writer as pabulib.py configures them) against PabuModel/Csv.lean

    C11_csv.run_stream(ctx)
    t_csv = ctx.elapsed()
    # the file API (parse_pabulib / write_pabulib): bytes on disk, BOM, \r\n row ends and \r\n inside quoted fields.  Drawn
    # last, so that the draws of the streams above are what they were before this stream existed
    from . import C11_file

    lines, pend = [], []
    C11_file.run_stream(ctx, lines, pend)
    compare_with_model(ctx, lines, pend)
    import shutil

    while _TMP:  # the directory of the file route of stream (i)
        shutil.rmtree(_TMP.pop(), ignore_errors=True)
    ctx.extra["seconds"] = {"generated_streams": round(t_gen, 1), "corpus_library": round(t_corpus - t_gen, 1), "model_and_diff_and_text_layer": round(t_csv - t_corpus, 1), "file_api": round(ctx.elapsed() - t_csv, 1)}


def search(ctx, disagreements):
    """predicate-only search (no model) with more cases"""
    rng = ctx.rng
    lines, pend = [], []
    from . import C11_file

    C11_file.run_stream(ctx, [], [])
    for _ in range(3000):
        if ctx.budget_s is not None and ctx.elapsed() > ctx.budget_s:
            break
        round_trip_case(ctx, gen_ground_truth(rng, special=rng.random() < 0.2), lines, pend)
        rows, text, gt = gen_file(rng)
        file_case(ctx, rows, text, gt, lines, pend)
        sequence_case(ctx, rng)
        history_case(ctx, rng)
        history_case(ctx, rng)


def replay(payload):
    case = payload.get("case", {})
    stream = payload.get("cfg", {}).get("stream")

    class _C:
        pass

    import harness.vcheck as vc

    ctx = vc.Ctx("C11", "quick", 0)
    lines, pend = [], []
    if stream == "round_trip":
        round_trip_case(ctx, gt_from_json(case), lines, pend)
    elif stream == "file":
        gt = gt_from_json(case["gt"])
        file_case(ctx, csv_rows(case["text"]), case["text"], gt, lines, pend)
    elif stream == "corpus":
        corpus_case(ctx, os.path.join(core.REPO, case["file"]), lines, pend)
    elif stream == "sequence":
        bad = run_sequence(case["texts"], [gt_from_json(g) for g in case["gts"]])
        if bad:
            return False, f"still failing: file #{bad[0]} of the sequence: {bad[2]}"
        return True, "every file of the sequence parses to the election written in it now"
    elif stream == "history":
        res = run_history(case["start"], case["edits"])
        if res is None:
            return True, "the start election of the history is not usable (see the other streams)"
        if res[0]:
            return False, "still failing: " + res[0][1]
        return True, "the file written after the edits describes the election as it is now"
    elif stream == "csv_rows":
        from . import C11_csv

        return C11_csv.replay(payload)
    elif stream == "file_api":
        from . import C11_file

        return C11_file.replay(payload)
    else:
        return True, "nothing to replay (no concrete failing input in this file): " + str(payload.get("what"))
    if ctx.violations:
        return False, "still failing: " + ctx.violations[0]["what"]
    return True, "predicate holds on the stored input now"
